(* C20 - POSIX path functions used by nemoguardrails/server/api.py::_get_rails, as executable
   Gallina definitions over strings `list A` for an ABSTRACT alphabet A with decidable
   equality and three distinguished characters sep ('/'), dot ('.'), bslash ('\').

   Modelled after CPython 3.12 posixpath.py:
     join(a, b), normpath(path), abspath(path) (= normpath(join(cwd, path))),
     commonprefix(list)  -- CHARACTER-wise, not segment-wise --
   and after api.py::_get_rails:
     the reject test  re.search(<pattern>, config_id)  (pattern read from the source by
     translator/gen_c20.py: an alternation of sequences of character classes),
     the commonprefix test, and  get_rails_path : base -> id -> Accept path | Reject.

   Definitions only (plus Example sanity checks); proofs are in Path_proofs.v. *)
From Coq Require Import List Bool Arith.
Import ListNotations.

Section Path.
  Variable A : Type.
  Variable eqA : forall x y : A, {x = y} + {x <> y}.
  Variables sep dot bslash : A.

  Local Notation str := (list A).

  Definition ceq (x y : A) : bool := if eqA x y then true else false.

  Fixpoint str_eqb (s t : str) : bool :=
    match s, t with
    | [], [] => true
    | x :: s', y :: t' => ceq x y && str_eqb s' t'
    | _, _ => false
    end.

  Definition is_nil {X} (l : list X) : bool := match l with [] => true | _ => false end.

  Definition dotdot : str := [dot; dot].

  (* ---- str.startswith(sep) / str.endswith(sep) ---- *)
  Definition starts_with_sep (s : str) : bool :=
    match s with c :: _ => ceq c sep | [] => false end.

  Fixpoint ends_with_sep (s : str) : bool :=
    match s with
    | [] => false
    | [c] => ceq c sep
    | _ :: t => ends_with_sep t
    end.

  (* ---- posixpath.join(a, b) (two arguments, as called by _get_rails and abspath)
         if b.startswith(sep): path = b
         elif not path or path.endswith(sep): path += b
         else: path += sep + b ---- *)
  Definition join (a b : str) : str :=
    if starts_with_sep b then b
    else if is_nil a || ends_with_sep a then a ++ b
    else a ++ sep :: b.

  (* ---- str.split(sep): always a non-empty list; "" -> [""] ---- *)
  Fixpoint split (s : str) : list str :=
    match s with
    | [] => [[]]
    | c :: s' =>
        if eqA c sep then [] :: split s'
        else match split s' with
             | seg :: rest => (c :: seg) :: rest
             | [] => [[c]]          (* unreachable: split never returns [] *)
             end
    end.

  (* ---- sep.join(comps) ---- *)
  Fixpoint join_segs (l : list str) : str :=
    match l with
    | [] => []
    | [s] => s
    | s :: r => s ++ sep :: join_segs r
    end.

  (* ---- normpath ----
       initial_slashes = path.startswith(sep)
       if initial_slashes and path.startswith(sep*2) and not path.startswith(sep*3): initial_slashes = 2 *)
  Definition initial_slashes (p : str) : nat :=
    match p with
    | c1 :: r1 =>
        if ceq c1 sep then
          match r1 with
          | c2 :: r2 =>
              if ceq c2 sep then
                match r2 with
                | c3 :: _ => if ceq c3 sep then 1 else 2
                | [] => 2
                end
              else 1
          | [] => 1
          end
        else 0
    | [] => 0
    end.

  (* one iteration of the loop over comps; `stk` is new_comps REVERSED (head = new_comps[-1])
       if comp in ('', '.'): continue
       if (comp != '..' or (not initial_slashes and not new_comps) or
             (new_comps and new_comps[-1] == '..')): new_comps.append(comp)
       elif new_comps: new_comps.pop() *)
  Definition np_step (absolute : bool) (stk : list str) (comp : str) : list str :=
    if str_eqb comp [] || str_eqb comp [dot] then stk
    else if negb (str_eqb comp dotdot)
            || (negb absolute && is_nil stk)
            || match stk with top :: _ => str_eqb top dotdot | [] => false end
         then comp :: stk
         else match stk with _ :: stk' => stk' | [] => [] end.

  Definition norm_comps (absolute : bool) (comps : list str) : list str :=
    rev (fold_left (np_step absolute) comps []).

  Definition normpath (p : str) : str :=
    match p with
    | [] => [dot]
    | _ =>
        let n := initial_slashes p in
        let comps := norm_comps (negb (Nat.eqb n 0)) (split p) in
        let path := repeat sep n ++ join_segs comps in
        match path with [] => [dot] | _ => path end
    end.

  (* ---- abspath(path) with the process working directory cwd:
         if not isabs(path): path = join(cwd, path);  return normpath(path) ---- *)
  Definition abspath (cwd p : str) : str :=
    normpath (if starts_with_sep p then p else join cwd p).

  (* ---- commonprefix: longest common prefix CHARACTER by character.
     CPython takes min(m) and max(m) and compares those two; for any list that is the longest
     common prefix of all members, which is what is defined here (the correspondence check
     compares with the real function on lists of 0-4 strings). ---- *)
  Fixpoint lcp (a b : str) : str :=
    match a, b with
    | x :: a', y :: b' => if ceq x y then x :: lcp a' b' else []
    | _, _ => []
    end.

  Definition commonprefix (m : list str) : str :=
    match m with
    | [] => []
    | s :: r => fold_left lcp r s
    end.

  (* ---- re.search for the fragment  alt1|alt2|...  where each alternative is a sequence of
     character classes (a literal is a one-element class).  An empty alternative matches
     everywhere. ---- *)
  Definition cclass := list A.
  Definition alt := list cclass.

  Fixpoint mem (x : A) (c : cclass) : bool :=
    match c with [] => false | y :: c' => ceq x y || mem x c' end.

  Fixpoint match_here (a : alt) (s : str) : bool :=
    match a with
    | [] => true
    | c :: a' => match s with
                 | [] => false
                 | x :: s' => mem x c && match_here a' s'
                 end
    end.

  Fixpoint re_search (alts : list alt) (s : str) : bool :=
    existsb (fun a => match_here a s) alts
    || match s with [] => false | _ :: s' => re_search alts s' end.

  (* decidable sufficient condition for "the pattern fires on every string containing x":
     some alternative is a single class containing x *)
  Definition pat_rejects_char (pat : list alt) (x : A) : bool :=
    existsb (fun a => match a with [c] => mem x c | _ => false end) pat.

  (* ---- _get_rails, per config id ---- *)
  Variable pat : list alt.                (* the reject pattern as read from the source *)
  Variable use_prefix_check : bool.       (* whether the commonprefix test is present *)

  Inductive path_res := Accept (p : str) | Reject.

  (*   full_path = os.path.normpath(os.path.join(base_path, config_id))
       if re.search(pat, config_id): raise ValueError
       if os.path.commonprefix([full_path, base_path]) != base_path: raise ValueError
       RailsConfig.from_path(full_path)                                        *)
  Definition get_rails_path (base id : str) : path_res :=
    let full := normpath (join base id) in
    if re_search pat id then Reject
    else if use_prefix_check && negb (str_eqb (commonprefix [full; base]) base) then Reject
    else Accept full.

  (* ---- what "inside the root" means, on strings ---- *)
  Definition tail_sep (b : str) : str := if ends_with_sep b then [] else [sep].

  (* a directory entry name: non-empty, no separator, not "." and not ".." *)
  Definition plain (s : str) : Prop :=
    s <> [] /\ ~ In sep s /\ s <> [dot] /\ s <> dotdot.

  Definition inside (base p : str) : Prop :=
    p = base \/ exists seg, p = base ++ tail_sep base ++ seg /\ plain seg.

  (* a normalised absolute path: one or two leading separators followed by plain segments
     joined by single separators (what normpath returns on an absolute path) *)
  Definition abs_normal (b : str) : Prop :=
    exists n segs, (n = 1 \/ n = 2) /\ Forall plain segs /\ b = repeat sep n ++ join_segs segs.

  (* the source-level reading of the shipped reject test: a separator, a backslash, or two
     consecutive dots anywhere in the id *)
  Fixpoint has_dotdot (s : str) : bool :=
    match s with
    | x :: ((y :: _) as s') => (ceq x dot && ceq y dot) || has_dotdot s'
    | _ => false
    end.

  Definition reject_src (id : str) : bool :=
    mem sep id || mem bslash id || has_dotdot id.

End Path.

Arguments Accept {A} p.
Arguments Reject {A}.
Arguments is_nil {X} l.
