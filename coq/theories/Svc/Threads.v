(* C20 - the guardrails server as a state machine: nemoguardrails/server/api.py
   `_get_rails` (instance cache, single-config mode, per-id path test, loader calls) and
   `chat_completion` (default config id, fixed "could not load" reply, thread lookup under the
   key "thread-"+id, minimum thread-id length, messages = stored ++ new, store messages ++
   [reply]), plus the pydantic field constraints of RequestBody in front of it.

   State  : instance cache (key "-".join(config_ids) -> instance) and datastore (key -> messages).
   Oracles: load_ok (does RailsConfig.from_path(path) return or raise ValueError),
            llm (generate_async of the instance built from the given paths; None = raises).
   Messages are elements of an abstract type M (JSON values; json.dumps/json.loads is the
   identity on them - recorded as an assumption).
   Outside the model: streaming requests (they do not persist threads - a TODO in the code),
   a missing datastore, requests without a `messages` list.

   Definitions only; proofs are in Threads_proofs.v. *)
From Coq Require Import List Bool Arith.
From NG Require Import Svc.Path.
Import ListNotations.

Section Threads.
  Variable A : Type.
  Variable eqA : forall x y : A, {x = y} + {x <> y}.
  Variables sep dot dash : A.
  Variable M : Type.

  Local Notation str := (list A).
  Local Notation str_eqb := (Path.str_eqb A eqA).

  (* read from the source on every run *)
  Variable pat : list (list (list A)).
  Variable use_prefix_check : bool.
  Variable thread_prefix : str.          (* "thread-" *)
  Variable min_len : nat.                (* 16: the test inside chat_completion *)
  Variable field_min : nat.              (* 16, Some 255: Field(min_length, max_length) of thread_id *)
  Variable field_max : option nat.

  (* server configuration *)
  Variable base : str.                   (* os.path.abspath(app.rails_config_path) *)
  Variable single : option str.          (* app.single_config_id when app.single_config_mode *)
  Variable default_id : option str.      (* app.default_config_id *)

  (* oracles *)
  Variable load_ok : str -> bool.
  Variable llm : list str -> list M -> option M.

  Local Notation get_rails_path := (Path.get_rails_path A eqA sep dot pat use_prefix_check).

  (* ------------------------------------------------------------------ finite maps *)
  (* association lists in insertion order (like a Python dict) *)
  Fixpoint aget {V} (m : list (str * V)) (k : str) : option V :=
    match m with
    | [] => None
    | (k', v) :: m' => if str_eqb k' k then Some v else aget m' k
    end.

  Fixpoint aset {V} (m : list (str * V)) (k : str) (v : V) : list (str * V) :=
    match m with
    | [] => [(k, v)]
    | (k', v') :: m' => if str_eqb k' k then (k', v) :: m' else (k', v') :: aset m' k v
    end.

  Definition store := list (str * list M).
  Definition cache := list (str * list str).

  (* json.loads(await datastore.get(key) or "[]") *)
  Definition thread (st : store) (k : str) : list M :=
    match aget st k with Some v => v | None => [] end.

  (* "-".join(config_ids) *)
  Definition cache_key (ids : list str) : str := Path.join_segs A dash ids.

  (* ------------------------------------------------------------------ _get_rails *)

  (* the loop over config ids: (paths passed to RailsConfig.from_path in order,
     Some paths-of-the-instance | None when a ValueError was raised) *)
  Fixpoint load_all (ids : list str) : list str * option (list str) :=
    match ids with
    | [] => ([], Some [])
    | id :: rest =>
        match get_rails_path base id with
        | Reject => ([], None)
        | Accept p =>
            if load_ok p then
              let '(tr, r) := load_all rest in
              (p :: tr, match r with Some ps => Some (p :: ps) | None => None end)
            else ([p], None)
        end
    end.

  Fixpoint ids_eqb (a b : list str) : bool :=
    match a, b with
    | [], [] => true
    | x :: a', y :: b' => str_eqb x y && ids_eqb a' b'
    | _, _ => false
    end.

  (* returns (cache', loader trace, instance or ValueError) *)
  Definition get_rails (c : cache) (ids : list str) : cache * list str * option (list str) :=
    let key := cache_key ids in
    match aget c key with
    | Some inst => (c, [], Some inst)
    | None =>
        let ids' := match single with
                    | Some sid => if ids_eqb ids [sid] then Some [[]] else None
                    | None => Some ids
                    end in
        match ids' with
        | None => (c, [], None)                      (* ValueError("Invalid configuration ids") *)
        | Some ids' =>
            let '(tr, r) := load_all ids' in
            match r with
            | Some inst => (aset c key inst, tr, Some inst)
            | None => (c, tr, None)
            end
        end
    end.

  (* ------------------------------------------------------------------ chat_completion *)

  Record request := {
    r_ids : list str;            (* body.config_ids ([] when absent) *)
    r_thread : option str;       (* body.thread_id *)
    r_context : option M;        (* the message {"role": "context", "content": body.context} *)
    r_messages : list M          (* body.messages *)
  }.

  Inductive reply :=
  | RNoConfig                    (* GuardrailsConfigurationError is raised *)
  | RCouldNotLoad (ids : list str)  (* the fixed "Could not load the <ids> guardrails configuration" reply *)
  | RMinLen                      (* "The `thread_id` must have a minimum length of 16 characters." *)
  | RInternal                    (* "Internal server error." *)
  | RBot (m : M)                 (* {"messages": [bot_message]} *)
  | R422.                        (* request rejected by the RequestBody field constraints *)

  Record outcome := {
    o_loads : list str;          (* paths passed to RailsConfig.from_path, in order *)
    o_inst : option (list str);  (* the instance that served the request (paths it was built from) *)
    o_used : option (list M);    (* messages passed to generate_async *)
    o_reply : reply
  }.

  Record state := { s_cache : cache; s_store : store }.

  Definition effective_ids (rq : request) : option (list str) :=
    match r_ids rq with
    | _ :: _ => Some (r_ids rq)
    | [] => match default_id with
            | Some (c :: d) => Some [c :: d]
            | _ => None
            end
    end.

  (* body.messages after `messages.insert(0, {"role": "context", ...})` *)
  Definition new_messages (rq : request) : list M :=
    match r_context rq with Some c => c :: r_messages rq | None => r_messages rq end.

  (* `if body.thread_id:` - an empty string counts as no thread *)
  Definition thread_of (rq : request) : option str :=
    match r_thread rq with Some (c :: t) => Some (c :: t) | _ => None end.

  Definition chat (st : state) (rq : request) : state * outcome :=
    match effective_ids rq with
    | None => (st, {| o_loads := []; o_inst := None; o_used := None; o_reply := RNoConfig |})
    | Some ids =>
        let '(c', tr, r) := get_rails (s_cache st) ids in
        match r with
        | None => ({| s_cache := c'; s_store := s_store st |},
                   {| o_loads := tr; o_inst := None; o_used := None; o_reply := RCouldNotLoad ids |})
        | Some inst =>
            let st1 := {| s_cache := c'; s_store := s_store st |} in
            match thread_of rq with
            | Some tid =>
                if length tid <? min_len then
                  (st1, {| o_loads := tr; o_inst := Some inst; o_used := None; o_reply := RMinLen |})
                else
                  let key := thread_prefix ++ tid in
                  let used := thread (s_store st) key ++ new_messages rq in
                  match llm inst used with
                  | None => (st1, {| o_loads := tr; o_inst := Some inst; o_used := Some used; o_reply := RInternal |})
                  | Some bot =>
                      ({| s_cache := c'; s_store := aset (s_store st) key (used ++ [bot]) |},
                       {| o_loads := tr; o_inst := Some inst; o_used := Some used; o_reply := RBot bot |})
                  end
            | None =>
                let used := new_messages rq in
                match llm inst used with
                | None => (st1, {| o_loads := tr; o_inst := Some inst; o_used := Some used; o_reply := RInternal |})
                | Some bot => (st1, {| o_loads := tr; o_inst := Some inst; o_used := Some used; o_reply := RBot bot |})
                end
            end
        end
    end.

  Fixpoint run (st : state) (rqs : list request) : state * list outcome :=
    match rqs with
    | [] => (st, [])
    | rq :: rest =>
        let '(st1, o) := chat st rq in
        let '(st2, os) := run st1 rest in
        (st2, o :: os)
    end.

  (* ------------------------------------------------------------------ RequestBody validation *)

  Record http_request := {
    h_config_id : option str;
    h_config_ids : option (list str);
    h_thread : option str;
    h_context : option M;
    h_messages : list M
  }.

  (* root_validator ensure_config_id + validator ensure_config_ids + Field(min_length, max_length) *)
  Definition validate (h : http_request) : option request :=
    let ids := match h_config_id h, h_config_ids h with
               | Some _, Some _ => None                        (* "Only one of config_id or config_ids" *)
               | Some (c :: i), None => Some [c :: i]
               | Some [], None => Some []
               | None, Some l => Some l
               | None, None => Some []
               end in
    let tid_ok := match h_thread h with
                  | None => true
                  | Some t => (field_min <=? length t)
                              && match field_max with Some m => length t <=? m | None => true end
                  end in
    match ids with
    | Some ids => if tid_ok then
                    Some {| r_ids := ids; r_thread := h_thread h; r_context := h_context h;
                            r_messages := h_messages h |}
                  else None
    | None => None
    end.

  Definition http_chat (st : state) (h : http_request) : state * outcome :=
    match validate h with
    | Some rq => chat st rq
    | None => (st, {| o_loads := []; o_inst := None; o_used := None; o_reply := R422 |})
    end.

  (* ------------------------------------------------------------------ abstract specification *)

  (* what one served request contributes to thread `tid`: its new messages and the reply,
     when it carried that thread id and was answered by the bot; nothing otherwise *)
  Definition turn_of (tid : str) (rq : request) (o : outcome) : list M :=
    match thread_of rq, o_reply o with
    | Some t, RBot b => if str_eqb t tid then new_messages rq ++ [b] else []
    | _, _ => []
    end.

  Fixpoint turns_of (tid : str) (rqs : list request) (os : list outcome) : list M :=
    match rqs, os with
    | rq :: rqs', o :: os' => turn_of tid rq o ++ turns_of tid rqs' os'
    | _, _ => []
    end.

End Threads.

Arguments RNoConfig {A M}.
Arguments RCouldNotLoad {A M} ids.
Arguments RMinLen {A M}.
Arguments RInternal {A M}.
Arguments RBot {A M} m.
Arguments R422 {A M}.
