(* Executable checkers for the cascade part of the C10 correspondence. *)
From Coq Require Import List Arith Bool.
From NG Require Import V2.Term V2.Cascade.
Import ListNotations.

(* is the (real, loaded) program inside the class covered by C10_rtc_bound_partial? *)
Definition in_class (prog : program) : bool := cascade_guardedb prog.

(* case = (program, [(live instances before the event, internal events processed by the real
   run_to_completion)]).  The real interpreter additionally emits one UnhandledEvent per internal
   event nobody matches, hence the factor 2. *)
Definition check_bound (c : program * list (nat * nat)) : bool :=
  let '(prog, obs) := c in
  let '(certs, cleans) := compute_certs prog (S (length prog)) in
  negb (cascade_cert_ok prog certs cleans) ||
  forallb (fun ls => Nat.leb (snd ls) (2 * rtc_bound prog certs (fst ls) 1 + 2)) obs.

Definition bound_of (c : program * nat) : nat :=
  let '(prog, lv) := c in
  let '(certs, cleans) := compute_certs prog (S (length prog)) in
  rtc_bound prog certs lv 1.

(* Restart decision of the real _abort_flow for a flow that fails by itself, against the model's
   fail_inst under the repaired guard.  case = (activated, new_instance_started, deactivate_flow,
   the flow had been STARTED, a restart StartFlow was observed). *)
Definition model_restarts (act nis deact was_started : bool) : bool :=
  if deact then false
  else
    let c := {| c_flow := 0; c_pos := 0; c_catch := []; c_status := if was_started then CStarted else CStarting;
                c_act := act; c_restarted := nis; c_inert := false |} in
    match r_left (fail_inst true c false nis 0 []) with [] => false | _ => true end.

Definition check_restart (c : bool * bool * bool * bool * bool) : bool :=
  let '(act, nis, deact, was_started, observed) := c in
  Bool.eqb (model_restarts act nis deact was_started) observed.
