"""Writes MANIFEST.json from manifest/Cxx.json (one file per claimed property) and
manifest/not_applicable.json (optional {pid: reason}).  Kept valid at all times."""
import json
import os
import sys

VERIF = os.path.dirname(os.path.dirname(os.path.abspath(__file__)))
ALL = [f"C{i:02d}" for i in range(1, 21)]
DEFAULT_REASON = ("check not built yet: the Coq model and correspondence for this property are still under "
                  "construction (see DESIGN.md section 4); nothing is claimed until its check runs clean on the unchanged tree")


def main():
    mdir = os.path.join(VERIF, "manifest")
    # only properties the coordinator has verified on /repo are claimed (manifest/CLAIMED, one id per line)
    allow = set()
    cp = os.path.join(mdir, "CLAIMED")
    if os.path.exists(cp):
        allow = {l.strip() for l in open(cp) if l.strip() and not l.startswith("#")}
    claimed = {}
    for pid in ALL:
        p = os.path.join(mdir, pid + ".json")
        if os.path.exists(p) and pid in allow:
            claimed[pid] = json.load(open(p))
            if claimed[pid].get("category") not in ("exploration", "fault_enumeration", "model_checking", "proof", "translation_validation", "other"):
                claimed[pid]["category"] = "proof"
    na_reasons = {}
    p = os.path.join(mdir, "not_applicable.json")
    if os.path.exists(p):
        na_reasons = json.load(open(p))
    checks = []
    for pid, c in claimed.items():
        checks.append(
            {
                "property_id": pid,
                "quick_cmd": f"./check {pid} --tier quick",
                "thorough_cmd": f"./check {pid} --tier thorough",
                "evidence_file": f"/verif/evidence/{pid}.json",
                "replay_cmd_template": f"./check {pid} --replay {{path}}",
                "engine": "coq-proof+correspondence",
                "level_claimed": {"category": c.get("category", "proof"), "text": c["text"], "design_ref": c["design_ref"]},
                "level_note": c["note"],
                "technique": c["technique"],
            }
        )
    na = [{"property_id": pid, "reason": na_reasons.get(pid, DEFAULT_REASON)} for pid in ALL if pid not in claimed]
    hooks_commits = []
    hp = os.path.join(mdir, "hooks.json")
    if os.path.exists(hp):
        hooks_commits = json.load(open(hp)).get("source_commits", [])
    m = {
        "version": 1,
        "setup_cmd": "./setup.sh",
        "hooks": {
            "guard": "NEMO_GUARDRAILS_VERIF",
            "enable": "checks run /repo's working tree in-process with NEMO_GUARDRAILS_VERIF=1 (no build step; Python)",
            "baseline_off_cmd": "cd /repo && env -u NEMO_GUARDRAILS_VERIF /venv/bin/python -m pytest -ra -q -p no:cacheprovider --timeout=900 --continue-on-collection-errors",
            "source_commits": hooks_commits,
            "add_only": True,
        },
        "engines": [
            {
                "name": "coq-proof+correspondence",
                "path": "/verif/coq, /verif/harness, /verif/translator",
                "serves_properties": sorted(claimed),
                "kind_free_text": "Coq 8.16.1 development (models, theorems in coq/theories/Props), translators regenerating coq/theories/Gen from /repo on every run, and a correspondence harness evaluating the models inside Coq (vm_compute) against the real Python implementation",
            }
        ],
        "checks": checks,
        "not_applicable": na,
        "notes": "Single entry point ./check <id> [--tier quick|thorough] [--replay FILE]; evidence in evidence/<id>.json; known findings in KNOWN_FINDINGS.txt; design in DESIGN.md.",
    }
    try:
        import jsonschema

        jsonschema.validate(m, json.load(open("/root/.vp/MANIFEST.schema.json")))
        print("MANIFEST valid;", len(checks), "checks")
    except ImportError:
        print("MANIFEST written (jsonschema not available to validate)")
    with open(os.path.join(VERIF, "MANIFEST.json"), "w") as f:
        json.dump(m, f, indent=1)


if __name__ == "__main__":
    sys.exit(main())
