(* The rational value of a model score: factor^k.  *)
From Coq Require Import ZArith QArith Qpower Lia.
Open Scope Q_scope.

Lemma Qpower_unit_interval (f : Q) (k : Z) :
  0 < f -> f <= 1 -> (0 <= k)%Z -> 0 < f ^ k /\ f ^ k <= 1.
Proof.
  intros Hpos Hle Hk. split; [apply Qpower_0_lt; exact Hpos|].
  pattern k. apply natlike_ind; [| |exact Hk].
  - simpl. apply Qle_refl.
  - intros x Hx IH. unfold Z.succ.
    rewrite Qpower_plus; [|intro E; rewrite E in Hpos; discriminate].
    rewrite <- (Qmult_1_l 1). apply Qmult_le_compat_nonneg.
    + split; [apply Qpower_0_le; apply Qlt_le_weak; exact Hpos | exact IH].
    + split; [simpl; apply Qlt_le_weak; exact Hpos | simpl; exact Hle].
Qed.

Lemma Qpower_strict_decreasing (f : Q) (k : Z) :
  0 < f -> f < 1 -> (0 <= k)%Z -> f ^ (k + 1) < f ^ k.
Proof.
  intros Hpos Hlt Hk.
  rewrite Qpower_plus; [|intro E; rewrite E in Hpos; discriminate].
  setoid_replace (f ^ k) with (f ^ k * 1) at 2 by ring.
  apply Qmult_lt_l; [apply Qpower_0_lt; exact Hpos | simpl; exact Hlt].
Qed.
