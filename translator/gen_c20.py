"""Translator for C20 (T-tie): reads nemoguardrails/server/api.py of the CURRENT working tree with
Python's `ast` and emits coq/theories/Gen/C20Consts.v.

Extracted (fail-closed: an unexpected shape raises TranslatorError):
  _get_rails            the statements of the per-id loop up to RailsConfig.from_path(full_path):
                        base_path/full_path assignments (exact shape), every
                        `if re.search(<literal>, config_id): raise ValueError`  (the reject pattern,
                        parsed with re._parser into an alternation of sequences of character
                        classes), the optional `if os.path.commonprefix([full_path, base_path]) !=
                        base_path: raise ValueError`; nothing else may precede the load.
                        single-config branch and the "-".join cache key.
  chat_completion       the `except ValueError` reply f-string around `_get_rails(config_ids)`,
                        `len(body.thread_id) < N`, `"thread-" + body.thread_id`.
  RequestBody.thread_id Field(min_length=, max_length=).
A missing reject test is NOT a translator error: it is emitted as the empty pattern (and
prefix_check_present := false for a missing commonprefix test) so that the proof obligations over
the generated values fail and the harness searches for an escaping id.
"""
from __future__ import annotations

import ast
import os

REPO = os.environ.get("VERIF_REPO", "/repo")
API = "nemoguardrails/server/api.py"


class TranslatorError(Exception):
    pass


def _parse():
    path = os.path.join(os.environ.get("VERIF_REPO", REPO), API)
    with open(path, encoding="utf-8") as f:
        return ast.parse(f.read(), filename=path)


def _func(tree, name):
    for node in tree.body:
        if isinstance(node, (ast.FunctionDef, ast.AsyncFunctionDef)) and node.name == name:
            return node
    raise TranslatorError(f"function {name} not found at module level")


def _cls(tree, name):
    for node in tree.body:
        if isinstance(node, ast.ClassDef) and node.name == name:
            return node
    raise TranslatorError(f"class {name} not found")


def _same(node, src):
    return ast.dump(node) == ast.dump(ast.parse(src, mode="eval").body)


def _is_name(node, name):
    return isinstance(node, ast.Name) and node.id == name


def _same_stmt(node, src):
    return ast.dump(node) == ast.dump(ast.parse(src).body[0])


def _raises_value_error(body):
    return (
        len(body) == 1
        and isinstance(body[0], ast.Raise)
        and isinstance(body[0].exc, ast.Call)
        and isinstance(body[0].exc.func, ast.Name)
        and body[0].exc.func.id == "ValueError"
    )


# ------------------------------------------------------------------------------ regex fragment


def parse_reject_regex(pattern: str):
    """-> list of alternatives, each a list of character classes (lists of code points)."""
    import re._parser as sp
    import re._constants as sc

    try:
        parsed = sp.parse(pattern)
    except Exception as e:
        raise TranslatorError(f"reject regex does not parse: {e}")
    if parsed.state.flags & ~sc.SRE_FLAG_UNICODE:
        raise TranslatorError("reject regex carries inline flags")

    def seq(items):
        """a sequence -> list of alternatives (each a list of classes)"""
        alts = [[]]
        for op, av in items:
            if op is sc.LITERAL:
                part = [[[av]]]
            elif op is sc.IN:
                cls = []
                for o2, a2 in av:
                    if o2 is sc.LITERAL:
                        cls.append(a2)
                    elif o2 is sc.RANGE and a2[1] - a2[0] < 256:
                        cls.extend(range(a2[0], a2[1] + 1))
                    else:
                        raise TranslatorError(f"unsupported character-class item {o2} in reject regex")
                part = [[cls]]
            elif op is sc.SUBPATTERN:
                _group, add_flags, del_flags, sub = av
                if add_flags or del_flags:
                    raise TranslatorError("flags inside the reject regex")
                part = seq(list(sub))
            elif op is sc.BRANCH:
                part = []
                for br in av[1]:
                    part.extend(seq(list(br)))
            else:
                raise TranslatorError(f"unsupported regex construct {op} in reject regex")
            alts = [a + p for a in alts for p in part]
            if len(alts) > 64:
                raise TranslatorError("reject regex too large")
        return alts

    return seq(list(parsed))


# ------------------------------------------------------------------------------ extraction


def c20_consts():
    tree = _parse()
    out = {}

    # ---- _generate_cache_key: return "-".join((config_ids))
    fn = _func(tree, "_generate_cache_key")
    rets = [n for n in ast.walk(fn) if isinstance(n, ast.Return)]
    if len(rets) != 1:
        raise TranslatorError("_generate_cache_key: expected one return")
    r = rets[0].value
    if not (
        isinstance(r, ast.Call)
        and isinstance(r.func, ast.Attribute)
        and r.func.attr == "join"
        and isinstance(r.func.value, ast.Constant)
        and isinstance(r.func.value.value, str)
        and len(r.func.value.value) == 1
        and len(r.args) == 1
        and isinstance(r.args[0], ast.Name)
        and r.args[0].id == "config_ids"
    ):
        raise TranslatorError("_generate_cache_key is not `<one char>.join(config_ids)`")
    out["cache_joiner"] = r.func.value.value

    # ---- _get_rails
    fn = _func(tree, "_get_rails")
    if [a.arg for a in fn.args.args] != ["config_ids"]:
        raise TranslatorError("_get_rails signature changed")
    loops = [s for s in fn.body if isinstance(s, ast.For)]
    if len(loops) != 1:
        raise TranslatorError("_get_rails: expected exactly one for loop at function level")
    loop = loops[0]
    if not (_is_name(loop.target, "config_id") and _is_name(loop.iter, "config_ids")) or loop.orelse:
        raise TranslatorError("_get_rails: loop is not `for config_id in config_ids`")
    # statements before the loop: cache lookup, single-config branch, initialisation
    pre = fn.body[: fn.body.index(loop)]
    seen_single = False
    for s in pre:
        if isinstance(s, ast.Expr) and isinstance(s.value, ast.Constant):
            continue  # docstring
        if _same_stmt(s, "configs_cache_key = _generate_cache_key(config_ids)"):
            continue
        if _same_stmt(s, "if configs_cache_key in llm_rails_instances:\n    return llm_rails_instances[configs_cache_key]"):
            continue
        if _same_stmt(s, "full_llm_rails_config = None"):
            continue
        if isinstance(s, ast.If) and _same(s.test, "app.single_config_mode") and not s.orelse:
            b = s.body
            if not (
                len(b) == 2
                and isinstance(b[0], ast.If)
                and _same(b[0].test, "config_ids != [app.single_config_id]")
                and _raises_value_error(b[0].body)
                and not b[0].orelse
                and _same_stmt(b[1], 'config_ids = [""]')
            ):
                raise TranslatorError("_get_rails: single-config branch has an unexpected shape")
            seen_single = True
            continue
        raise TranslatorError(f"_get_rails: unexpected statement before the loop (line {s.lineno})")
    if not seen_single:
        raise TranslatorError("_get_rails: single-config branch not found")

    patterns = []
    prefix_check = False
    load_seen = False
    for s in loop.body:
        if load_seen:
            # after the load nothing may re-test the path (it would be too late) - and nothing does
            for n in ast.walk(s):
                if isinstance(n, ast.Call) and isinstance(n.func, ast.Attribute) and n.func.attr in ("search", "commonprefix", "from_path"):
                    raise TranslatorError("_get_rails: path test or second load after RailsConfig.from_path")
            continue
        if _same_stmt(s, "base_path = os.path.abspath(app.rails_config_path)"):
            continue
        if _same_stmt(s, "full_path = os.path.normpath(os.path.join(base_path, config_id))"):
            continue
        if isinstance(s, ast.If) and not s.orelse and _raises_value_error(s.body):
            t = s.test
            if (
                isinstance(t, ast.Call)
                and _same(t.func, "re.search")
                and len(t.args) == 2
                and not t.keywords
                and isinstance(t.args[0], ast.Constant)
                and isinstance(t.args[0].value, str)
                and _same(t.args[1], "config_id")
            ):
                patterns.append(t.args[0].value)
                continue
            if _same(t, "os.path.commonprefix([full_path, base_path]) != base_path") or _same(
                t, "os.path.commonprefix([base_path, full_path]) != base_path"
            ):
                prefix_check = True
                continue
            raise TranslatorError(f"_get_rails: unrecognised rejecting test (line {s.lineno})")
        if _same_stmt(s, "rails_config = RailsConfig.from_path(full_path)"):
            load_seen = True
            continue
        raise TranslatorError(f"_get_rails: unexpected statement before the load (line {s.lineno})")
    if not load_seen:
        raise TranslatorError("_get_rails: `rails_config = RailsConfig.from_path(full_path)` not found in the loop")
    alts = []
    for p in patterns:
        alts.extend(parse_reject_regex(p))
    out["reject_sources"] = patterns
    out["reject_pattern"] = alts
    out["prefix_check"] = prefix_check

    # ---- chat_completion
    fn = _func(tree, "chat_completion")
    reply = None
    for node in ast.walk(fn):
        if isinstance(node, ast.Try):
            if len(node.body) == 1 and _same_stmt(node.body[0], "llm_rails = _get_rails(config_ids)"):
                if len(node.handlers) != 1 or not _same(node.handlers[0].type, "ValueError"):
                    raise TranslatorError("chat_completion: handler around _get_rails is not `except ValueError`")
                rets = [n for n in node.handlers[0].body if isinstance(n, ast.Return)]
                if len(rets) != 1:
                    raise TranslatorError("chat_completion: ValueError handler does not return one reply")
                d = rets[0].value
                # {"messages": [{"role": "assistant", "content": f"..."}]}
                try:
                    assert isinstance(d, ast.Dict) and len(d.keys) == 1 and d.keys[0].value == "messages"
                    lst = d.values[0]
                    assert isinstance(lst, ast.List) and len(lst.elts) == 1
                    m = lst.elts[0]
                    assert isinstance(m, ast.Dict)
                    kv = {k.value: v for k, v in zip(m.keys, m.values)}
                    assert set(kv) == {"role", "content"} and kv["role"].value == "assistant"
                    c = kv["content"]
                    assert isinstance(c, ast.JoinedStr) and len(c.values) == 3
                    a, b, e = c.values
                    assert isinstance(a, ast.Constant) and isinstance(e, ast.Constant)
                    assert isinstance(b, ast.FormattedValue) and _same(b.value, "config_ids")
                    assert b.conversion == -1 and b.format_spec is None
                    reply = (a.value, e.value)
                except (AssertionError, AttributeError):
                    raise TranslatorError("chat_completion: 'could not load' reply has an unexpected shape")
    if reply is None:
        raise TranslatorError("chat_completion: `try: llm_rails = _get_rails(config_ids)` not found")
    out["reply_prefix"], out["reply_suffix"] = reply

    mins = []
    prefixes = []
    for node in ast.walk(fn):
        if isinstance(node, ast.If) and isinstance(node.test, ast.Compare):
            t = node.test
            if _same(t.left, "len(body.thread_id)"):
                if not (len(t.ops) == 1 and isinstance(t.ops[0], ast.Lt) and isinstance(t.comparators[0], ast.Constant)
                        and isinstance(t.comparators[0].value, int)):
                    raise TranslatorError("chat_completion: thread-id length test is not `len(body.thread_id) < <int>`")
                if not (len(node.body) == 1 and isinstance(node.body[0], ast.Return)) or node.orelse:
                    raise TranslatorError("chat_completion: thread-id length test does not return a reply")
                mins.append(t.comparators[0].value)
        if isinstance(node, ast.Assign) and len(node.targets) == 1 and _is_name(node.targets[0], "datastore_key"):
            v = node.value
            if isinstance(v, ast.Constant) and v.value is None:
                continue
            if not (isinstance(v, ast.BinOp) and isinstance(v.op, ast.Add) and isinstance(v.left, ast.Constant)
                    and isinstance(v.left.value, str) and _same(v.right, "body.thread_id")):
                raise TranslatorError("chat_completion: datastore_key is not `<literal> + body.thread_id`")
            prefixes.append(v.left.value)
    if len(mins) != 1:
        raise TranslatorError("chat_completion: expected exactly one `len(body.thread_id) < N` test")
    if len(prefixes) != 1:
        raise TranslatorError("chat_completion: expected exactly one `datastore_key = <literal> + body.thread_id`")
    out["min_len"] = mins[0]
    out["thread_prefix"] = prefixes[0]

    # ---- RequestBody.thread_id Field(min_length=, max_length=)
    rb = _cls(tree, "RequestBody")
    fmin = fmax = None
    found = False
    for s in rb.body:
        if isinstance(s, ast.AnnAssign) and _is_name(s.target, "thread_id"):
            found = True
            if not (isinstance(s.value, ast.Call) and _same(s.value.func, "Field")):
                raise TranslatorError("RequestBody.thread_id is not a Field(...)")
            for kw in s.value.keywords:
                if kw.arg in ("min_length", "max_length"):
                    if not (isinstance(kw.value, ast.Constant) and isinstance(kw.value.value, int)):
                        raise TranslatorError("RequestBody.thread_id length bound is not an int literal")
                    if kw.arg == "min_length":
                        fmin = kw.value.value
                    else:
                        fmax = kw.value.value
    if not found:
        raise TranslatorError("RequestBody.thread_id not found")
    out["field_min"] = 0 if fmin is None else fmin
    out["field_max"] = fmax          # None = unbounded
    return out


# ------------------------------------------------------------------------------ emission


def _codes(s: str) -> str:
    return "[" + "; ".join(str(ord(c)) for c in s) + "]"


def _comment_safe(s: str) -> str:
    return s.replace("(*", "( *").replace("*)", "* )").replace('"', "''")


def emit(c) -> str:
    alts = "[" + "; ".join("[" + "; ".join("[" + "; ".join(str(x) for x in cls) + "]" for cls in alt) + "]"
                           for alt in c["reject_pattern"]) + "]"
    fmax = c["field_max"]
    lines = [
        "(* GENERATED on every run by /verif/translator/gen_c20.py from the current",
        "   nemoguardrails/server/api.py.  Do not edit.  Strings are lists of code points. *)",
        "From Coq Require Import List NArith.",
        "Import ListNotations.",
        "Open Scope N_scope.",
        "",
        "(* _get_rails: reject test(s) " + _comment_safe(repr(c["reject_sources"])) + " *)",
        f"Definition reject_pattern : list (list (list N)) := {alts}.",
        f"Definition prefix_check_present : bool := {'true' if c['prefix_check'] else 'false'}.",
        f"Definition cache_key_joiner : N := {ord(c['cache_joiner'])}.",
        "(* chat_completion *)",
        "(* " + _comment_safe(repr(c["thread_prefix"])) + " *)",
        f"Definition thread_prefix : list N := {_codes(c['thread_prefix'])}.",
        f"Definition min_thread_id_len : N := {c['min_len']}.",
        "(* " + _comment_safe(repr(c["reply_prefix"])) + " ++ str(config_ids) ++ " + _comment_safe(repr(c["reply_suffix"])) + " *)",
        f"Definition could_not_load_prefix : list N := {_codes(c['reply_prefix'])}.",
        f"Definition could_not_load_suffix : list N := {_codes(c['reply_suffix'])}.",
        "(* RequestBody.thread_id = Field(min_length, max_length) *)",
        f"Definition field_min_len : N := {c['field_min']}.",
        f"Definition field_max_len : option N := {'None' if fmax is None else 'Some ' + str(fmax)}.",
        "",
    ]
    return "\n".join(lines)


def _gen():
    return emit(c20_consts())


GENERATORS = {"C20Consts": _gen}

if __name__ == "__main__":
    print(_gen())
