(* Specification of Colang 2 parameter matching, written from
   docs/colang_2/language_reference/event-generation-and-matching.rst (independent of the
   algorithm in statemachine.py):
     - scalars match when equal (bool counts as the int it is; int and float never match);
     - a regex matches a str/int/float/bool value when it is found in str(value);
     - an expected list matches when its items are found, in order, among the received items;
     - an expected set matches when it is not larger than the received set and every expected
       member is matched by some received member;
     - an expected dict matches when it is not larger than the received dict and every
       expected entry is present with a matching value (the three bookkeeping keys in
       argument_filter are ignored);
     - a comparison expression matches a number of its own type that satisfies it. *)
From Coq Require Import ZArith List String Bool Lia.
From NG Require Import Val.Value Val.Match.
Import ListNotations.
Open Scope Z_scope.

(* order-preserving embedding of ps into vs under R *)
Inductive Embeds (R : value -> value -> Prop) : list value -> list value -> Prop :=
| E_nil vs : Embeds R [] vs
| E_take p ps v vs : R p v -> Embeds R ps vs -> Embeds R (p :: ps) (v :: vs)
| E_skip ps v vs : Embeds R ps vs -> Embeds R ps (v :: vs).

Definition regex_scalar (v : value) : bool :=
  match v with VStr _ | VInt _ | VFloat _ | VBool _ => true | _ => false end.

Section Spec.
  Variable re_search : string -> string -> bool.
  Variable str_of : value -> string.

  Inductive Matches : value -> value -> Prop :=
  | M_regex r v : regex_scalar v = true -> re_search r (str_of v) = true -> Matches (VRegex r) v
  | M_regex_eq r : Matches (VRegex r) (VRegex r)
  | M_cmp op n v : cmp_res op n v = RYes 0 -> Matches (VCmp op n) v
  | M_none : Matches VNone VNone
  | M_bool b : Matches (VBool b) (VBool b)
  | M_bool_int b : Matches (VBool b) (VInt (Z_of_bool b))
  | M_int z : Matches (VInt z) (VInt z)
  | M_float q : Matches (VFloat q) (VFloat q)
  | M_str s : Matches (VStr s) (VStr s)
  | M_list ps vs : Embeds Matches ps vs -> Matches (VList ps) (VList vs)
  | M_set ps vs :
      (List.length ps <= List.length vs)%nat ->
      Forall (fun p => Exists (Matches p) vs) ps ->
      Matches (VSet ps) (VSet vs)
  | M_dict pkvs vkvs :
      (List.length pkvs <= List.length vkvs)%nat ->
      Forall (fun kp => in_filter (fst kp) = true \/
                        exists v, lookup (fst kp) vkvs = Some v /\ Matches (snd kp) v) pkvs ->
      Matches (VDict pkvs) (VDict vkvs).
End Spec.
