"""Translator (T-tie) for C17: the literals and small structural facts the LLM-output
post-processing depends on, read from /repo's CURRENT source with Python's `ast` and emitted
as coq/theories/Gen/C17Consts.v.  Fail-closed: an unexpected shape raises TranslatorError.
"""
from __future__ import annotations

import ast

from translator.consts import HEADER, TranslatorError, _func, _parse, coq_bool, coq_str

UTILS = "nemoguardrails/actions/llm/utils.py"
GEN = "nemoguardrails/actions/llm/generation.py"
GEN2 = "nemoguardrails/actions/v2_x/generation.py"
RT1 = "nemoguardrails/colang/v1_0/runtime/runtime.py"
RT1U = "nemoguardrails/colang/v1_0/runtime/utils.py"
RT2 = "nemoguardrails/colang/v2_x/runtime/runtime.py"
DISP = "nemoguardrails/actions/action_dispatcher.py"


def _strs(node):
    return [n.value for n in ast.walk(node) if isinstance(n, ast.Constant) and isinstance(n.value, str)]


def _calls(node, name):
    out = []
    for n in ast.walk(node):
        if isinstance(n, ast.Call):
            f = n.func
            fname = f.id if isinstance(f, ast.Name) else f.attr if isinstance(f, ast.Attribute) else None
            if fname == name:
                out.append(n)
    return out


def _startswith_slices(fn):
    """[(prefix, n)] for every `if X.startswith(prefix): X = X[n:]`-like pair in fn."""
    out = []
    for n in ast.walk(fn):
        if not isinstance(n, ast.If):
            continue
        for c in _calls(n.test, "startswith"):
            if c.args and isinstance(c.args[0], ast.Constant) and isinstance(c.args[0].value, str):
                prefix = c.args[0].value
                for s in n.body:
                    for sub in ast.walk(s):
                        if (isinstance(sub, ast.Subscript) and isinstance(sub.slice, ast.Slice) and sub.slice.upper is None
                                and isinstance(sub.slice.lower, ast.Constant) and isinstance(sub.slice.lower.value, int)):
                            out.append((prefix, sub.slice.lower.value))
    return out


def _need(cond, what):
    if not cond:
        raise TranslatorError("C17: " + what)


def c17_consts():
    r = {}
    utils = _parse(UTILS)
    gen = _parse(GEN)

    # ---- utils.py
    fn = _func(utils, "get_first_nonempty_line")
    _need("\n" in _strs(fn) and _calls(fn, "split") and _calls(fn, "strip"), "get_first_nonempty_line: split('\\n') + strip() expected")
    first = fn.body[1] if isinstance(fn.body[0], ast.Expr) else fn.body[0]
    _need(isinstance(first, ast.If) and isinstance(first.test, ast.UnaryOp) and isinstance(first.test.op, ast.Not)
          and isinstance(first.body[0], ast.Return) and isinstance(first.body[0].value, ast.Constant)
          and first.body[0].value.value is None, "get_first_nonempty_line: `if not s: return None` expected first")

    fn = _func(utils, "strip_quotes")
    ifs = [n for n in fn.body if isinstance(n, ast.If)]
    _need(len(ifs) == 1, "strip_quotes: one outer if expected")
    t = ifs[0].test
    guarded = (isinstance(t, ast.BoolOp) and isinstance(t.op, ast.And) and isinstance(t.values[0], ast.Name)
               and t.values[0].id == "s")
    quotes = sorted(set(_strs(ifs[0])))
    _need(quotes == ['"'], f"strip_quotes: the only literal must be the double quote, found {quotes}")
    r["strip_quotes_guarded"] = guarded
    r["quote"] = '"'

    fn = _func(utils, "get_multiline_response")
    ss = set(_strs(fn)) - {ast.get_docstring(fn)}
    _need({"\nuser", "\n", '"', ""} <= ss, f"get_multiline_response: literals {sorted(ss)}")
    r["nl_user"] = "\nuser"

    fn = _func(utils, "get_top_k_nonempty_lines")
    _need("#" in _strs(fn), "get_top_k_nonempty_lines: '#' comment filter expected")

    # ---- generation.py
    fn = _func(gen, "generate_user_intent")
    sl = _startswith_slices(fn)
    _need(("user ", 5) in sl, f"generate_user_intent: `user ` / [5:] expected, found {sl}")
    _need("unknown message" in _strs(fn), "generate_user_intent: fallback intent")
    r["user_prefix"], r["user_prefix_len"] = "user ", 5
    r["fallback_intent"] = "unknown message"

    fn = _func(gen, "generate_next_step")
    sl = _startswith_slices(fn)
    _need(("bot ", 4) in sl, f"generate_next_step: `bot ` / [4:] expected, found {sl}")
    ss = _strs(fn)
    _need('"' in ss and "," in ss and "general response" in ss, "generate_next_step: quote/comma/general response literals")
    r["bot_prefix"], r["bot_prefix_len"] = "bot ", 4
    r["fallback_bot_intent"] = "general response"
    # what does the multi-step branch validate?
    pcs = _calls(fn, "parse_colang_file")
    _need(len(pcs) == 1, "generate_next_step: exactly one parse_colang_file call expected")
    content = next((k.value for k in pcs[0].keywords if k.arg == "content"), None)
    _need(content is not None, "generate_next_step: parse_colang_file(content=...) expected")
    if isinstance(content, ast.Call) and getattr(content.func, "id", None) == "get_dynamic_flow_content":
        wrapped = True
    elif (isinstance(content, ast.Call) and isinstance(content.func, ast.Attribute) and content.func.attr == "join"
          and isinstance(content.func.value, ast.Constant) and content.func.value.value == "\n"):
        wrapped = False
    else:
        raise TranslatorError("C17: generate_next_step validates an unknown text: " + ast.dump(content)[:200])
    # ... and when wrapped: an empty body is rejected, exactly one flow required, same id used for start_flow
    if wrapped:
        src = ast.unparse(fn)
        _need("flow_body.strip()" in src and 'len(parsed_data["flows"]) != 1' .replace('"', "'") in src.replace('"', "'"),
              "generate_next_step: blank-body and one-flow checks expected next to the wrapped validation")
        ids = [k.value for c in _calls(fn, "new_event_dict") if c.args and isinstance(c.args[0], ast.Constant)
               and c.args[0].value == "start_flow" for k in c.keywords if k.arg == "flow_id"]
        _need(len(ids) == 1 and isinstance(ids[0], ast.Name) and isinstance(content.args[0], ast.Name)
              and ids[0].id == content.args[0].id, "generate_next_step: the validated id must be the started id")
    r["validate_wrapped"] = wrapped
    # the cap on the number of lines the loop considers: `result.split("\n")[:MAX_MULTI_STEP_FLOW_LINES]` (0 = no cap)
    cap = 0
    src0 = ast.unparse(fn)
    if "result.split('\\n')[:MAX_MULTI_STEP_FLOW_LINES]" in src0:
        vals = [n.value.value for n in gen.body if isinstance(n, ast.Assign) and len(n.targets) == 1
                and isinstance(n.targets[0], ast.Name) and n.targets[0].id == "MAX_MULTI_STEP_FLOW_LINES"
                and isinstance(n.value, ast.Constant) and isinstance(n.value.value, int)]
        _need(len(vals) == 1 and 0 < vals[0] <= 5000, "MAX_MULTI_STEP_FLOW_LINES: one positive int constant expected")
        cap = vals[0]
    else:
        _need("lines = result.split('\\n')\n" in src0 + "\n", "generate_next_step: `lines = result.split('\\n')` expected when there is no cap")
    r["max_multi_step_lines"] = cap
    # the loop: `lines = lines[:-1]` and the `len(lines) == 1` exit
    src = ast.unparse(fn)
    _need("lines = lines[:-1]" in src and "len(lines) == 1" in src, "generate_next_step: shrink loop shape")

    fn = _func(gen, "generate_bot_message")
    ss = _strs(fn)
    _need("I'm not sure what to say." in ss and "$" in ss, "generate_bot_message: fallback message / `$` test")
    src = ast.unparse(fn)
    _need("bot_intent[0] == '$'" in src, "generate_bot_message: `bot_intent[0] == \"$\"` expected")
    r["fallback_message"] = "I'm not sure what to say."
    # evaluators applied in generate_bot_message: _render_string only on the predefined branch
    rs = _calls(fn, "_render_string")
    _need(len(rs) == 1, "generate_bot_message: exactly one _render_string call expected")
    ok = False
    for n in ast.walk(fn):
        if isinstance(n, ast.If) and "bot_intent in self.config.bot_messages" in ast.unparse(n.test):
            ok = any(c is rs[0] for s in n.body for c in ast.walk(s))
    _need(ok, "generate_bot_message: _render_string must be confined to the predefined-message branch")
    r["render_only_predefined"] = True

    fn = _func(gen, "clean_utterance_content")
    calls = _calls(fn, "replace")
    _need(len(calls) == 1 and [a.value for a in calls[0].args] == ["\\n", "\n"], "clean_utterance_content: replace('\\\\n', '\\n')")

    # does clean_utterance_content skip non-str values? (`if utterance:` vs `... and isinstance(utterance, str)`)
    ifs = [n for n in fn.body if isinstance(n, ast.If)]
    _need(len(ifs) == 1, "clean_utterance_content: one `if` expected")
    t = ast.unparse(ifs[0].test)
    if t == "utterance":
        r["clean_guarded"] = False
    elif "isinstance(utterance, str)" in t:
        r["clean_guarded"] = True
    else:
        raise TranslatorError("C17: clean_utterance_content: unknown guard " + t)
    # the context-variable branch of generate_bot_message hands the value over unchanged
    src = ast.unparse(_func(gen, "generate_bot_message"))
    _need("bot_utterance = context[bot_intent[1:]]" in src and "bot_utterance = clean_utterance_content(bot_utterance)" in src,
          "generate_bot_message: `$name` branch / clean_utterance_content call shape")

    fn = _func(gen, "generate_intent_steps_message")
    sl = _startswith_slices(fn)
    for want in [("user ", 5), ("User intent: ", 13), ("bot ", 4), ("Bot intent: ", 12)]:
        _need(want in sl, f"generate_intent_steps_message: {want} expected, found {sl}")

    # ---- taskmanager: a prompt is rendered ONCE (the template is configuration; history, examples,
    # instructions are inserted as data and never interpreted again)
    tm = _func(_parse("nemoguardrails/llm/taskmanager.py"), "_render_string")
    n_render = len(_calls(tm, "render"))
    n_rec = len(_calls(tm, "_render_string")) + len(_calls(tm, "render_task_prompt"))
    n_from = len(_calls(tm, "from_string"))
    _need(n_render >= 1 and n_from >= 1, "taskmanager._render_string: from_string + render expected")
    rets = [n for n in ast.walk(tm) if isinstance(n, ast.Return)]
    direct = len(rets) == 1 and isinstance(rets[0].value, ast.Call) and getattr(rets[0].value.func, "attr", None) == "render"
    r["prompt_render_passes"] = 1 if (n_render == 1 and n_from == 1 and n_rec == 0 and direct) else 2

    # ---- v1 runtime
    rt = _parse(RT1)
    fn = _func(rt, "_process_start_action")
    ss = _strs(fn)
    _need("I'm sorry, an internal error has occurred." in ss and "failed" in ss, "_process_start_action: failed => internal error message")
    r["internal_error_message"] = "I'm sorry, an internal error has occurred."
    fn = _func(rt, "_internal_error_action_result")
    ss = _strs(fn)
    _need("inform internal error occurred" in ss and "hide_prev_turn" in ss and "StartUtteranceBotAction" in ss,
          "_internal_error_action_result: three events expected")
    r["internal_error_intent"] = "inform internal error occurred"
    fn = _func(rt, "_process_start_flow")
    src = ast.unparse(fn)
    if "get_dynamic_flow_content(flow_id, body)" in src:
        ufn = _func(_parse(RT1U), "get_dynamic_flow_content")
        usrc = ast.unparse(ufn)
        _need("'define flow ' + flow_id + ':\\n' + indent(flow_body, '  ')" in usrc, "get_dynamic_flow_content: wrapper shape")
    else:
        _need("'define flow ' + flow_id + ':\\n' + indent(body, '  ')" in src, "_process_start_flow: wrapper shape")
    _need("len(parsed_data['flows']) == 1" in src, "_process_start_flow: one-flow assert")
    # is the start_flow branch of generate_events inside a try (contained)?
    fn = _func(rt, "generate_events")
    contained = False
    for n in ast.walk(fn):
        if isinstance(n, ast.Try):
            if any(_calls(s, "_process_start_flow") for s in n.body) and n.handlers:
                contained = True
    r["start_flow_contained"] = contained

    # ---- dispatcher: every exception except LLMCallException becomes ("failed")
    fn = _func(_parse(DISP), "execute_action")
    src = ast.unparse(fn)
    _need("except LLMCallException" in src and "except Exception" in src and "'failed'" in src, "execute_action: catch-all expected")

    # ---- v2 runtime fallback
    fn = _func(_parse(RT2), "_add_flows_action")
    src = ast.unparse(fn)
    _need("flow_content.split('\\n')[0].split(' ', maxsplit=1)[1]" in src, "_add_flows_action: fallback name extraction shape")

    # ---- v2 generate_value: literal_eval is the only evaluator
    cls = None
    for n in ast.walk(_parse(GEN2)):
        if isinstance(n, ast.ClassDef) and n.name == "LLMGenerationActionsV2dotx":
            cls = n
    _need(cls is not None, "LLMGenerationActionsV2dotx not found")
    fn = _func(cls, "generate_value")
    evals = sorted({c.func.id for c in ast.walk(fn) if isinstance(c, ast.Call) and isinstance(c.func, ast.Name)
                    and c.func.id in ("eval", "exec", "literal_eval", "compile", "eval_expression")})
    _need(evals == ["literal_eval"], f"v2 generate_value: evaluators {evals}")
    fn1 = _func(gen, "generate_value")
    evals1 = sorted({c.func.id for c in ast.walk(fn1) if isinstance(c, ast.Call) and isinstance(c.func, ast.Name)
                     and c.func.id in ("eval", "exec", "literal_eval", "compile", "eval_expression")})
    _need(evals1 == ["literal_eval"], f"v1 generate_value: evaluators {evals1}")
    r["value_evaluators"] = evals
    # _is_supported_value: the unstorable atoms and whether dict KEYS are checked
    sv = _func(_parse(GEN2), "_is_supported_value")
    src = ast.unparse(sv)
    _need("value is Ellipsis" in src and "(bytes, complex)" in src, "_is_supported_value: Ellipsis / bytes / complex expected")
    _need("(list, tuple, set, frozenset)" in src, "_is_supported_value: sequence branch expected")
    dict_ifs = [n for n in sv.body if isinstance(n, ast.If) and "isinstance(value, dict)" in ast.unparse(n.test)]
    _need(len(dict_ifs) == 1, "_is_supported_value: one dict branch expected")
    body = ast.unparse(dict_ifs[0])
    _need("_is_supported_value(v)" in body, "_is_supported_value: dict values must be checked")
    r["value_keys_checked"] = "_is_supported_value(k)" in body
    _need("_is_supported_value(result)" in ast.unparse(fn), "v2 generate_value: the result must go through _is_supported_value")
    return r


def emit(r):
    def cs(s):
        # newline inside a Coq string literal: emitted through String (ascii_of_nat 10)
        if "\n" in s:
            parts = s.split("\n")
            out = coq_str(parts[-1])
            for p in reversed(parts[:-1]):
                out = f"({coq_str(p)} ++ String (ascii_of_nat 10) {out})"
            return out
        return coq_str(s)

    lines = [
        "From Coq Require Import String Ascii List.",
        "Import ListNotations.",
        "Open Scope string_scope.",
        "(* constants and structural facts of the LLM-output post-processing, read from the source *)",
        f"Definition c_user_prefix : string := {cs(r['user_prefix'])}.",
        f"Definition c_user_prefix_len : nat := {r['user_prefix_len']}.",
        f"Definition c_bot_prefix : string := {cs(r['bot_prefix'])}.",
        f"Definition c_bot_prefix_len : nat := {r['bot_prefix_len']}.",
        f"Definition c_quote : string := {cs(r['quote'])}.",
        f"Definition c_nl_user : string := {cs(r['nl_user'])}.",
        f"Definition c_fallback_intent : string := {cs(r['fallback_intent'])}.",
        f"Definition c_fallback_bot_intent : string := {cs(r['fallback_bot_intent'])}.",
        f"Definition c_fallback_message : string := {cs(r['fallback_message'])}.",
        f"Definition c_internal_error_message : string := {cs(r['internal_error_message'])}.",
        f"Definition c_internal_error_intent : string := {cs(r['internal_error_intent'])}.",
        f"Definition strip_quotes_guarded : bool := {coq_bool(r['strip_quotes_guarded'])}.",
        f"Definition validate_wrapped : bool := {coq_bool(r['validate_wrapped'])}.",
        f"Definition prompt_render_passes : nat := {r['prompt_render_passes']}.",
        f"Definition clean_guarded : bool := {coq_bool(r['clean_guarded'])}.",
        f"Definition value_keys_checked : bool := {coq_bool(r['value_keys_checked'])}.",
        f"Definition c_max_multi_step_lines : nat := {r['max_multi_step_lines']}.",
        f"Definition start_flow_contained : bool := {coq_bool(r['start_flow_contained'])}.",
        f"Definition render_only_predefined : bool := {coq_bool(r['render_only_predefined'])}.",
        "Definition value_evaluators : list string := [" + "; ".join(coq_str(e) for e in r["value_evaluators"]) + "].",
    ]
    return HEADER + "\n" + "\n".join(lines) + "\n"


def _gen():
    return emit(c17_consts())


GENERATORS = {"C17Consts": _gen}
