(* Pipe/Options_proofs.v - the documented table of the `rails` generation option, proved of the
   turn machine of Pipe/Options.v for every configuration, verdict function and text. *)
From Coq Require Import String List Bool Arith.
From NG Require Import Gen.C16Consts Pipe.GenLog Pipe.GenLog_proofs Pipe.Options.
Import ListNotations.
Open Scope string_scope.

Arguments output_phase : simpl never.
Arguments dialog_phase : simpl never.
Arguments turn : simpl never.
Arguments refusal_seg : simpl never.
Arguments genbot_seg : simpl never.
Arguments ce : simpl never.
Arguments act_seg : simpl never.
Arguments utter : simpl never.
Arguments ret_cl : simpl never.
Arguments ret_seg : simpl never.
Arguments rail_pre : simpl never.

(* independent specification of a sequential rail category: first rejection blocks, rewrites thread *)
Inductive rails_rel (vf : nat -> string -> verdict) : nat -> list rail -> string -> rres -> Prop :=
| rr_nil : forall k t, rails_rel vf k [] t (Passed t)
| rr_reject : forall k r rs t, vf k t = Reject -> rails_rel vf k (r :: rs) t (Blocked (r_flow r))
| rr_accept : forall k r rs t res, vf k t = Accept -> rails_rel vf (S k) rs t res -> rails_rel vf k (r :: rs) t res
| rr_rewrite : forall k r rs t t' res, vf k t = Rewrite t' -> rails_rel vf (S k) rs t' res -> rails_rel vf k (r :: rs) t res.

Lemma run_rails_rel : forall K vf rs k t, rails_rel vf k rs t (s_res (run_rails K vf k rs t)).
Proof.
  induction rs as [|r rs IH]; intros k t; simpl.
  - constructor.
  - destruct (vf k t) eqn:E; simpl.
    + apply rr_accept; [exact E|apply IH].
    + apply rr_reject; exact E.
    + eapply rr_rewrite; [exact E|apply IH].
Qed.

Lemma rails_rel_passed : forall vf rs k t t',
  rails_rel vf k rs t (Passed t') -> t' = t \/ exists k0 t0, vf k0 t0 = Rewrite t'.
Proof.
  intros vf rs k t t' H. remember (Passed t') as res eqn:Hres.
  induction H as [k t|k r rs t E|k r rs t res E H IH|k r rs t t1 res E H IH].
  - inversion Hres. left. reflexivity.
  - discriminate.
  - apply IH. exact Hres.
  - destruct (IH Hres) as [->|Hx]; [right; eauto|right; exact Hx].
Qed.

Lemma rails_rel_all_accept : forall vf rs k t res,
  (forall k0 t0, vf k0 t0 = Accept) -> rails_rel vf k rs t res -> res = Passed t.
Proof.
  intros vf rs k t res Hall H.
  induction H as [k t|k r rs t E|k r rs t res E H IH|k r rs t t1 res E H IH].
  - reflexivity.
  - rewrite Hall in E. discriminate.
  - exact IH.
  - rewrite Hall in E. discriminate.
Qed.

Lemma run_rails_calls_cat : forall K vf rs k t cl,
  In cl (s_calls (run_rails K vf k rs t)) -> k_cat cl = kcat K.
Proof.
  induction rs as [|r rs IH]; intros k t cl; simpl; [tauto|].
  destruct (vf k t); simpl; intros [<-|H]; try reflexivity; try (eapply IH; exact H); try contradiction.
Qed.

Lemma ret_calls_cat : forall rs k cl, In cl (ret_calls k rs) -> k_cat cl = CRet.
Proof.
  induction rs as [|r rs IH]; intros k cl; simpl; [tauto|].
  intros [<-|H]; [reflexivity|eapply IH; exact H].
Qed.

Section Table.
  Variables (iv ov : nat -> string -> verdict) (lt rf pt : string) (c : cfg).

  Notation T g := (turn iv ov lt rf pt c g).

  Lemma ret_cl_cat : forall g cl, In cl (ret_cl c g) -> k_cat cl = CRet /\ retrieval_enabled g = true.
  Proof.
    intros g cl. unfold ret_cl, ret_active.
    destruct (retrieval_enabled g); rewrite ?andb_false_r, ?andb_true_r.
    - destruct (negb match c_ret c with [] => true | _ => false end); [|simpl; tauto].
      intro H. split; [eapply ret_calls_cat; exact H|reflexivity].
    - simpl. tauto.
  Qed.

  (* calls and LLM tasks of the output phase *)
  Lemma output_phase_calls : forall g b skip cl,
    In cl (calls (output_phase ov rf c g b skip)) ->
    (k_cat cl = COut /\ output_enabled g = true) \/ (k_cat cl = CRet /\ retrieval_enabled g = true).
  Proof.
    intros g b skip cl. unfold output_phase.
    destruct skip; [simpl; tauto|].
    destruct (out_active c g) eqn:Ha; [|simpl; tauto].
    assert (Hen : output_enabled g = true).
    { unfold out_active in Ha. apply andb_true_iff in Ha. tauto. }
    destruct (s_res (run_rails KOut ov 0 (c_out c) b)); simpl.
    - intro H. left. split; [exact (run_rails_calls_cat KOut _ _ _ _ _ H)|exact Hen].
    - intro H. apply in_app_or in H. destruct H as [H|H].
      + left. split; [exact (run_rails_calls_cat KOut _ _ _ _ _ H)|exact Hen].
      + right. eapply ret_cl_cat; exact H.
  Qed.

  Lemma output_phase_llm : forall g b skip, llm (output_phase ov rf c g b skip) = [].
  Proof.
    intros g b skip. unfold output_phase.
    destruct skip; [reflexivity|]. destruct (out_active c g); [|reflexivity].
    destruct (s_res (run_rails KOut ov 0 (c_out c) b)); reflexivity.
  Qed.

  Lemma dialog_phase_calls : forall g t bot cl,
    In cl (calls (dialog_phase ov lt rf pt c g t bot)) ->
    (k_cat cl = COut /\ output_enabled g = true) \/ (k_cat cl = CRet /\ retrieval_enabled g = true).
  Proof.
    intros g t bot cl. unfold dialog_phase.
    destruct (dialog_disabled g).
    - destruct (output_off g); [simpl; tauto|].
      destruct bot as [b|]; [|simpl; tauto].
      unfold prepend. simpl. apply output_phase_calls.
    - destruct (c_dmode c) as [|predefined]; unfold prepend; simpl.
      + apply output_phase_calls.
      + intro H. apply in_app_or in H. destruct H as [H|H].
        * right. eapply ret_cl_cat; exact H.
        * eapply output_phase_calls; exact H.
  Qed.

  Lemma dialog_phase_llm_disabled : forall g t bot,
    dialog_disabled g = true -> llm (dialog_phase ov lt rf pt c g t bot) = [].
  Proof.
    intros g t bot H. unfold dialog_phase. rewrite H.
    destruct (output_off g); [reflexivity|].
    destruct bot; [|reflexivity]. unfold prepend. simpl. apply output_phase_llm.
  Qed.

  Lemma turn_calls : forall g user bot cl,
    In cl (calls (T g user bot)) ->
    (k_cat cl = CIn /\ input_enabled g = true) \/
    (k_cat cl = COut /\ output_enabled g = true) \/ (k_cat cl = CRet /\ retrieval_enabled g = true).
  Proof.
    intros g user bot cl. unfold turn.
    destruct (in_active c g) eqn:Ha.
    - assert (Hen : input_enabled g = true).
      { unfold in_active in Ha. apply andb_true_iff in Ha. tauto. }
      destruct (s_res (run_rails KIn iv 0 (c_in c) user)); unfold prepend; simpl;
        intro H; apply in_app_or in H; destruct H as [H|H].
      + left. split; [exact (run_rails_calls_cat KIn _ _ _ _ _ H)|exact Hen].
      + right. eapply dialog_phase_calls; exact H.
      + left. split; [exact (run_rails_calls_cat KIn _ _ _ _ _ H)|exact Hen].
      + right. right. eapply ret_cl_cat; exact H.
    - unfold prepend. simpl. intro H. right. eapply dialog_phase_calls; exact H.
  Qed.

  (* ---- disabled categories make no calls; no LLM generation without dialog rails ---- *)
  Theorem disabled_no_calls : forall o user bot,
    let r := T (Some o) user bot in
    (o_input o = false -> forall cl, In cl (calls r) -> k_cat cl <> CIn) /\
    (o_output o = false -> forall cl, In cl (calls r) -> k_cat cl <> COut) /\
    (o_retrieval o = false -> forall cl, In cl (calls r) -> k_cat cl <> CRet) /\
    (o_dialog o = false -> llm r = []).
  Proof.
    intros o user bot r. subst r.
    repeat split.
    - intros Ho cl H E. destruct (turn_calls _ _ _ _ H) as [[_ He]|[[Hc _]|[Hc _]]];
        simpl in *; congruence.
    - intros Ho cl H E. destruct (turn_calls _ _ _ _ H) as [[Hc _]|[[_ He]|[Hc _]]];
        simpl in *; congruence.
    - intros Ho cl H E. destruct (turn_calls _ _ _ _ H) as [[Hc _]|[[Hc _]|[_ He]]];
        simpl in *; congruence.
    - intros Ho. unfold turn.
      assert (Hd : dialog_disabled (Some o) = true) by (simpl; rewrite Ho; reflexivity).
      destruct (in_active c (Some o)).
      + destruct (s_res (run_rails KIn iv 0 (c_in c) user)); unfold prepend; simpl; [|reflexivity].
        apply dialog_phase_llm_disabled. exact Hd.
      + unfold prepend. simpl. apply dialog_phase_llm_disabled. exact Hd.
  Qed.

  (* the input phase as the specification sees it *)
  Lemma input_phase_spec : forall g user bot,
    exists res,
      (input_enabled g = true -> rails_rel iv 0 (c_in c) user res) /\
      (input_enabled g = false -> res = Passed user) /\
      match res with
      | Blocked f => answer (T g user bot) = RText rf /\ blocked (T g user bot) = Some f
      | Passed t => answer (T g user bot) = answer (dialog_phase ov lt rf pt c g t (injected_bot g bot))
                    /\ blocked (T g user bot) = blocked (dialog_phase ov lt rf pt c g t (injected_bot g bot))
      end.
  Proof.
    intros g user bot. unfold turn.
    destruct (in_active c g) eqn:Ha.
    - assert (Hen : input_enabled g = true).
      { unfold in_active in Ha. apply andb_true_iff in Ha. tauto. }
      exists (s_res (run_rails KIn iv 0 (c_in c) user)).
      split; [intros _; apply run_rails_rel|]. split; [congruence|].
      destruct (s_res (run_rails KIn iv 0 (c_in c) user)); unfold prepend; simpl; split; reflexivity.
    - exists (Passed user). split; [|split; [reflexivity|unfold prepend; simpl; split; reflexivity]].
      intros Hen. unfold in_active in Ha. rewrite Hen, andb_true_r in Ha.
      destruct (c_in c); [constructor|discriminate].
  Qed.

  Lemma output_phase_spec : forall g b,
    exists res,
      (output_enabled g = true -> rails_rel ov 0 (c_out c) b res) /\
      (output_enabled g = false -> res = Passed b) /\
      answer (output_phase ov rf c g b false) = RText (match res with Passed t => t | Blocked _ => rf end).
  Proof.
    intros g b. unfold output_phase.
    destruct (out_active c g) eqn:Ha.
    - assert (Hen : output_enabled g = true).
      { unfold out_active in Ha. apply andb_true_iff in Ha. tauto. }
      exists (s_res (run_rails KOut ov 0 (c_out c) b)).
      split; [intros _; apply run_rails_rel|]. split; [congruence|].
      destruct (s_res (run_rails KOut ov 0 (c_out c) b)); reflexivity.
    - exists (Passed b). split; [|split; reflexivity].
      intros Hen. unfold out_active in Ha. rewrite Hen, andb_true_r in Ha.
      destruct (c_out c); [constructor|discriminate].
  Qed.

  (* ---- only input checking: reply = user text / rewritten text / refusal, no LLM ---- *)
  Theorem input_only : forall o user bot,
    o_dialog o = false -> o_output o = false ->
    let r := T (Some o) user bot in
    llm r = [] /\
    (o_input o = false -> answer r = RText user) /\
    (o_input o = true ->
       exists res, rails_rel iv 0 (c_in c) user res /\
                   answer r = RText (match res with Passed t => t | Blocked _ => rf end)).
  Proof.
    intros o user bot Hd Ho r. subst r.
    split; [apply (disabled_no_calls o user bot); exact Hd|].
    destruct (input_phase_spec (Some o) user bot) as (res & Hen & Hdis & Hres).
    assert (Hdp : forall t b, answer (dialog_phase ov lt rf pt c (Some o) t b) = RText t).
    { intros t b. unfold dialog_phase. simpl. rewrite Hd, Ho. reflexivity. }
    split.
    - intros Hi. rewrite (Hdis Hi) in Hres. destruct Hres as [Hres _]. rewrite Hres. apply Hdp.
    - intros Hi. exists res. split; [apply Hen; exact Hi|].
      destruct res as [t|f]; destruct Hres as [Hres _]; rewrite Hres; [apply Hdp|reflexivity].
  Qed.

  (* ---- checking a supplied bot message (input+output or output only) ---- *)
  Theorem output_check : forall o user b,
    o_dialog o = false -> o_output o = true ->
    let r := T (Some o) user (Some b) in
    llm r = [] /\
    exists res_in,
      (o_input o = true -> rails_rel iv 0 (c_in c) user res_in) /\
      (o_input o = false -> res_in = Passed user) /\
      match res_in with
      | Blocked _ => answer r = RText rf
      | Passed _ => exists res, rails_rel ov 0 (c_out c) b res /\
                                answer r = RText (match res with Passed t => t | Blocked _ => rf end)
      end.
  Proof.
    intros o user b Hd Ho r. subst r.
    split; [apply (disabled_no_calls o user (Some b)); exact Hd|].
    destruct (input_phase_spec (Some o) user (Some b)) as (res & Hen & Hdis & Hres).
    exists res. split; [exact Hen|]. split; [exact Hdis|].
    destruct res as [t|f]; [|tauto].
    destruct Hres as [Hres _]. rewrite Hres.
    unfold injected_bot, dialog_phase. simpl. rewrite Hd, Ho. simpl.
    unfold prepend. simpl.
    destruct (output_phase_spec (Some o) b) as (res & Hoen & _ & Hans).
    exists res. split; [apply Hoen; exact Ho|exact Hans].
  Qed.
End Table.

(* the literal membership statements of the documentation *)
Section Membership.
  Variables (iv ov : nat -> string -> verdict) (lt rf pt : string) (c : cfg).

  Theorem input_only_membership : forall o user bot,
    o_dialog o = false -> o_output o = false ->
    let r := turn iv ov lt rf pt c (Some o) user bot in
    answer r = RText user \/ answer r = RText rf \/
    exists k t0 t', iv k t0 = Rewrite t' /\ answer r = RText t'.
  Proof.
    intros o user bot Hd Ho r.
    destruct (input_only iv ov lt rf pt c o user bot Hd Ho) as (_ & Hoff & Hon).
    destruct (o_input o) eqn:Hi.
    - destruct (Hon eq_refl) as (res & Hrel & Hans). fold r in Hans.
      destruct res as [t|f]; [|right; left; exact Hans].
      destruct (rails_rel_passed _ _ _ _ _ Hrel) as [->|(k0 & t0 & Hk)]; [left; exact Hans|].
      right. right. exists k0, t0, t. split; assumption.
    - left. apply Hoff. reflexivity.
  Qed.

  Theorem output_check_membership : forall o user b,
    o_dialog o = false -> o_output o = true ->
    let r := turn iv ov lt rf pt c (Some o) user (Some b) in
    answer r = RText b \/ answer r = RText rf \/
    exists k t0 t', ov k t0 = Rewrite t' /\ answer r = RText t'.
  Proof.
    intros o user b Hd Ho r.
    destruct (output_check iv ov lt rf pt c o user b Hd Ho) as (_ & res_in & _ & _ & Hres). fold r in Hres.
    destruct res_in as [t|f]; [|right; left; exact Hres].
    destruct Hres as (res & Hrel & Hans).
    destruct res as [t'|f]; [|right; left; exact Hans].
    destruct (rails_rel_passed _ _ _ _ _ Hrel) as [->|(k0 & t0 & Hk)]; [left; exact Hans|].
    right. right. exists k0, t0, t'. split; assumption.
  Qed.

  (* nothing rewrites, nothing rejects: the text comes back unchanged *)
  Theorem input_only_all_accept : forall o user bot,
    o_dialog o = false -> o_output o = false -> (forall k t, iv k t = Accept) ->
    answer (turn iv ov lt rf pt c (Some o) user bot) = RText user.
  Proof.
    intros o user bot Hd Ho Hall.
    destruct (input_only iv ov lt rf pt c o user bot Hd Ho) as (_ & Hoff & Hon).
    destruct (o_input o) eqn:Hi; [|apply Hoff; reflexivity].
    destruct (Hon eq_refl) as (res & Hrel & Hans).
    rewrite (rails_rel_all_accept _ _ _ _ _ Hall Hrel) in Hans. exact Hans.
  Qed.
End Membership.

(* non-vacuity: rows of the table are inhabited by non-trivial configurations *)
Example in_table_input_output : in_table (parse_rails (RList ["input"; "output"])) (Some "bot text").
Proof. split; simpl; [discriminate|intros _ _; discriminate]. Qed.

Example table_rows_inhabited :
  let o := parse_rails (RList ["input"; "output"]) in
  o_dialog o = false /\ o_output o = true /\
  answer (turn ex_iv ex_ov "LLM" "REFUSED" "PRE" ex_cfg (Some o) "hello" (Some "bot text")) = RText "REFUSED" /\
  answer (turn ex_iv (fun _ _ => Rewrite "clean") "LLM" "REFUSED" "PRE" ex_cfg (Some o) "hello" (Some "bot text")) = RText "clean" /\
  List.length (calls (turn ex_iv (fun _ _ => Accept) "LLM" "REFUSED" "PRE" ex_cfg (Some o) "hello" (Some "bot text"))) = 3.
Proof. vm_compute. repeat split. Qed.
