"""(T) for C19: constants of BasicEmbeddingsIndex read from the current source with `ast`,
fail-closed.  Gen/C19Consts.v gives the default `max_batch_size` (the theorems need >= 1) and
`max_batch_hold` (microseconds, informational: real time is not modelled)."""
from __future__ import annotations

import ast
import os
from fractions import Fraction

REPO = os.environ.get("VERIF_REPO", "/repo")


def basic_defaults():
    path = os.path.join(REPO, "nemoguardrails", "embeddings", "basic.py")
    tree = ast.parse(open(path, encoding="utf-8").read())
    cls = [n for n in tree.body if isinstance(n, ast.ClassDef) and n.name == "BasicEmbeddingsIndex"]
    if len(cls) != 1:
        raise ValueError("class BasicEmbeddingsIndex not found exactly once in basic.py")
    init = [n for n in cls[0].body if isinstance(n, ast.FunctionDef) and n.name == "__init__"]
    if len(init) != 1:
        raise ValueError("BasicEmbeddingsIndex.__init__ not found")
    a = init[0].args
    names = [x.arg for x in a.args]
    defaults = dict(zip(names[len(names) - len(a.defaults):], a.defaults))
    out = {}
    for k in ("max_batch_size", "max_batch_hold", "use_batching"):
        if k not in defaults or not isinstance(defaults[k], ast.Constant):
            raise ValueError(f"default of {k} is not a literal")
        out[k] = defaults[k].value
    if not isinstance(out["max_batch_size"], int) or isinstance(out["max_batch_size"], bool) or out["max_batch_size"] < 0:
        raise ValueError("max_batch_size default is not a non-negative int")
    if not isinstance(out["max_batch_hold"], (int, float)) or isinstance(out["max_batch_hold"], bool) or out["max_batch_hold"] < 0:
        raise ValueError("max_batch_hold default is not a non-negative number")
    if not isinstance(out["use_batching"], bool):
        raise ValueError("use_batching default is not a bool")
    # the methods the models transcribe must exist
    meths = {n.name for n in cls[0].body if isinstance(n, (ast.FunctionDef, ast.AsyncFunctionDef))}
    for m in ("_run_batch", "_batch_get_embeddings", "_get_embeddings"):
        if m not in meths:
            raise ValueError(f"BasicEmbeddingsIndex.{m} not found")
    return out


def _self_attr(node, name):
    return isinstance(node, ast.Attribute) and node.attr == name and isinstance(node.value, ast.Name) and node.value.id == "self"


def cache_key_includes_model():
    """True iff, in cache.py, the identity of the index's embedding model is part of every cache key:
    (a) the cache_embeddings wrapper builds its EmbeddingsCache with `namespace=<f>(self)` where the
        module-level function <f> reads both `embedding_engine` and `embedding_model`;
    (b) EmbeddingsCache.__init__ stores it (`self._namespace = namespace`), from_config / from_dict
        hand it on;
    (c) the str variants of get and set compute their key ONLY through `self._generate_key(text)`,
        and _generate_key calls the key generator on a string built from self._namespace and the text.
    Anything else: False (the isolation theorem for the current source then fails to check)."""
    path = os.path.join(REPO, "nemoguardrails", "embeddings", "cache.py")
    tree = ast.parse(open(path, encoding="utf-8").read())
    funcs = {n.name: n for n in tree.body if isinstance(n, (ast.FunctionDef, ast.AsyncFunctionDef))}
    classes = {n.name: n for n in tree.body if isinstance(n, ast.ClassDef)}
    if "cache_embeddings" not in funcs or "EmbeddingsCache" not in classes:
        raise ValueError("cache_embeddings / EmbeddingsCache not found in cache.py")
    # (a)
    ns_fn = None
    for node in ast.walk(funcs["cache_embeddings"]):
        if isinstance(node, ast.Call) and isinstance(node.func, ast.Attribute) and node.func.attr == "from_config" \
                and isinstance(node.func.value, ast.Name) and node.func.value.id == "EmbeddingsCache":
            for kw in node.keywords:
                if kw.arg == "namespace" and isinstance(kw.value, ast.Call) and isinstance(kw.value.func, ast.Name) \
                        and len(kw.value.args) == 1 and isinstance(kw.value.args[0], ast.Name) and kw.value.args[0].id == "self":
                    ns_fn = kw.value.func.id
    if ns_fn is None or ns_fn not in funcs:
        return False
    consts = {n.value for n in ast.walk(funcs[ns_fn]) if isinstance(n, ast.Constant) and isinstance(n.value, str)}
    attrs = {n.attr for n in ast.walk(funcs[ns_fn]) if isinstance(n, ast.Attribute)}
    if not {"embedding_engine", "embedding_model"} <= (consts | attrs):
        return False
    # (b)
    cls = classes["EmbeddingsCache"]
    meths = {}
    for n in cls.body:
        if isinstance(n, ast.FunctionDef):
            meths.setdefault(n.name, []).append(n)
    init = (meths.get("__init__") or [None])[0]
    if init is None or not any(isinstance(n, ast.Assign) and len(n.targets) == 1 and _self_attr(n.targets[0], "_namespace")
                               and isinstance(n.value, ast.Name) and n.value.id == "namespace" for n in ast.walk(init)):
        return False
    for name in ("from_config", "from_dict"):
        m = (meths.get(name) or [None])[0]
        if m is None or not any(isinstance(n, ast.keyword) and n.arg == "namespace" and isinstance(n.value, ast.Name)
                                and n.value.id == "namespace" for n in ast.walk(m)):
            return False
    # (c)
    gk = (meths.get("_generate_key") or [None])[0]
    if gk is None:
        return False
    ok = False
    for n in ast.walk(gk):
        if isinstance(n, ast.JoinedStr):
            inside = list(ast.walk(n))
            if any(_self_attr(x, "_namespace") for x in inside) and any(isinstance(x, ast.Name) and x.id == "text" for x in inside):
                ok = True
    if not ok or not any(isinstance(n, ast.Call) and isinstance(n.func, ast.Attribute) and n.func.attr == "generate_key"
                         for n in ast.walk(gk)):
        return False
    str_variants = [m for m in meths.get("_", []) if len(m.args.args) >= 2 and isinstance(m.args.args[1].annotation, ast.Name)
                    and m.args.args[1].annotation.id == "str"]
    if len(str_variants) != 2:
        return False
    for m in str_variants:
        calls = [n for n in ast.walk(m) if isinstance(n, ast.Call) and isinstance(n.func, ast.Attribute)]
        if any(c.func.attr == "generate_key" for c in calls):
            return False
        if not any(c.func.attr == "_generate_key" and isinstance(c.func.value, ast.Name) and c.func.value.id == "self" for c in calls):
            return False
    return True


SEARCH_SELF_ATTRS = {"search_threshold", "use_batching", "_batch_get_embeddings", "_get_embeddings", "_index",
                     "_items", "_filter_results"}


def search_shape():
    """BasicEmbeddingsIndex.search as the models assume it: the only instance state it touches is
    SEARCH_SELF_ATTRS, it never assigns an instance attribute, and the vector handed to
    get_nns_by_vector is a local assigned exactly twice, each time directly from an await of
    self._batch_get_embeddings(text) / self._get_embeddings([text]).  Returns (ok, detail)."""
    path = os.path.join(REPO, "nemoguardrails", "embeddings", "basic.py")
    tree = ast.parse(open(path, encoding="utf-8").read())
    cls = [n for n in tree.body if isinstance(n, ast.ClassDef) and n.name == "BasicEmbeddingsIndex"][0]
    fn = [n for n in cls.body if isinstance(n, ast.AsyncFunctionDef) and n.name == "search"]
    if len(fn) != 1:
        raise ValueError("BasicEmbeddingsIndex.search not found")
    fn = fn[0]
    attrs = {n.attr for n in ast.walk(fn) if _self_attr(n, n.attr if isinstance(n, ast.Attribute) else "")}
    stores = [n.attr for n in ast.walk(fn) if isinstance(n, ast.Attribute) and isinstance(n.ctx, (ast.Store, ast.Del))
              and isinstance(n.value, ast.Name) and n.value.id == "self"]
    if attrs != SEARCH_SELF_ATTRS:
        return False, f"search touches self.{sorted(attrs ^ SEARCH_SELF_ATTRS)} beyond/short of the modelled state"
    if stores:
        return False, f"search assigns self.{stores}"
    # the argument of get_nns_by_vector
    calls = [n for n in ast.walk(fn) if isinstance(n, ast.Call) and isinstance(n.func, ast.Attribute) and n.func.attr == "get_nns_by_vector"]
    if len(calls) != 1 or not calls[0].args or not isinstance(calls[0].args[0], ast.Name):
        return False, "get_nns_by_vector is not called once with a local variable"
    var = calls[0].args[0].id
    assigns = [n for n in ast.walk(fn) if isinstance(n, ast.Assign) and any(isinstance(t, ast.Name) and t.id == var for t in n.targets)]
    if len(assigns) != 2:
        return False, f"{var} is assigned {len(assigns)} times"
    srcs = set()
    for a in assigns:
        v = a.value
        if isinstance(v, ast.Subscript):
            v = v.value
        if not isinstance(v, ast.Await) or not isinstance(v.value, ast.Call) or not _self_attr(v.value.func, getattr(v.value.func, "attr", "")):
            return False, f"{var} is not assigned directly from an awaited self.<method>(...)"
        srcs.add(v.value.func.attr)
    if srcs != {"_batch_get_embeddings", "_get_embeddings"}:
        return False, f"{var} comes from {sorted(srcs)}"
    return True, ""


def emit():
    d = basic_defaults()
    shape_ok, _why = search_shape()
    incl = cache_key_includes_model()
    us = Fraction(str(d["max_batch_hold"])) * 1000000
    if us.denominator != 1:
        raise ValueError("max_batch_hold default is not a whole number of microseconds")
    return (
        "(* GENERATED by translator/gen_c19.py from nemoguardrails/embeddings/basic.py - do not edit *)\n"
        "From Coq Require Import NArith.\n"
        f"Definition default_max_batch_size : nat := {d['max_batch_size']}.\n"
        f"Definition default_max_batch_hold_us : N := {us.numerator}%N.\n"
        f"Definition default_use_batching : bool := {'true' if d['use_batching'] else 'false'}.\n"
        "(* basic.py: search() obtains its vector only from _batch_get_embeddings/_get_embeddings and keeps no state of its own *)\n"
        f"Definition search_shape_as_modelled : bool := {'true' if shape_ok else 'false'}.\n"
        "(* cache.py: the identity of the index's embedding model is part of every cache key *)\n"
        f"Definition cache_key_includes_model : bool := {'true' if incl else 'false'}.\n"
    )


GENERATORS = {"C19Consts": emit}
