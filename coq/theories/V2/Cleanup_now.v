(* C11 - theorems about _clean_up_state with the constants of the CURRENT source
   (cfg_now / cleanup_now are defined in V2/CleanupRun.v so that the model runs even if a proof breaks). *)
From Coq Require Import ZArith List String Bool Lia.
From NG Require Import Gen.C11Consts V2.Cleanup V2.Cleanup_proofs V2.Cleanup_clock V2.CleanupRun.
Import ListNotations.
Open Scope string_scope.
Open Scope Z_scope.

Lemma only_done_now now s s' :
  NoDup (map fst (flows s)) -> cleanup_now now s = Some s' ->
  (forall u i, slook (flows s) u = Some i -> slook (flows s') u = None ->
     (i_status i = "FINISHED" \/ i_status i = "STOPPED") /\ i_activated i = 0 /\
     cleanup_age_s * 1000000 < now - i_updated i) /\
  (forall a x, slook (actions s) a = Some x -> slook (actions s') a = None ->
     forall u i, In (u, i) (flows s') -> ~ In a (i_actions i)).
Proof.
  intros Hd Hr. destruct (cleanup_only_done cfg_now now s s' Hd Hr) as [H1 H2]. split; [|exact H2].
  intros u i Hi Hn. exact (removable_meaning _ _ _ now i (H1 u i Hi Hn)).
Qed.

Lemma candidates_now now s s' (ix : index) :
  NoDup (map fst (flows s)) -> cleanup_now now s = Some s' ->
  (forall name es e, slook ix name = Some es -> In e es ->
     exists i, slook (flows s) (fst e) = Some i /\ is_done cfg_now i = false /\ slook (i_heads i) (snd e) <> None) ->
  forall name,
    Forall2 (fun a b => exists fu hu i i', a = Some (fu, hu, i) /\ b = Some (fu, hu, i') /\
                                           frame_rel (fun x => slook (flows s') x = None) i i')
            (candidates ix s name) (candidates ix s' name).
Proof. intros Hd Hr. exact (cleanup_candidates cfg_now now s s' Hd Hr ix eq_refl). Qed.

(* the reference closure (with the per-flow listing) is an invariant of the clean-up; on such
   states the clean-up never raises *)
Definition refs_ok (s : state) : Prop :=
  NoDup (map fst (flows s)) /\ closed_refs s /\ listed_by_flow s.

Lemma refs_okb_ok s : refs_okb s = true -> refs_ok s.
Proof. exact (refs_okb_sound s). Qed.

Example ex_state_refs_ok : refs_ok ex_state.
Proof. apply refs_okb_ok. vm_compute. reflexivity. Qed.

Lemma refs_ok_preserved now s s' : refs_ok s -> cleanup_now now s = Some s' -> refs_ok s'.
Proof.
  intros (Hn & Hc & Hl) Hr. split; [exact (cleanup_keys _ _ _ _ Hn Hr)|]. split.
  - exact (cleanup_preserves_closed cfg_now now s s' Hn Hr eq_refl eq_refl Hc).
  - exact (cleanup_preserves_listed _ _ _ _ Hn Hr Hl).
Qed.

Lemma total_now now s : refs_ok s -> exists s', cleanup_now now s = Some s'.
Proof. intros (Hn & Hc & Hl). exact (cleanup_total cfg_now now s Hn Hc Hl). Qed.

Lemma lookups_now now s s' :
  refs_ok s -> cleanup_now now s = Some s' ->
  forall u i i', slook (flows s) u = Some i -> slook (flows s') u = Some i' ->
    (forall x, In x (i_children i') ->
       exists ix ix', slook (flows s) x = Some ix /\ slook (flows s') x = Some ix' /\
                      frame_rel (fun y => slook (flows s') y = None) ix ix') /\
    (forall x, In x (i_children i) -> ~ In x (i_children i') ->
       exists ix, slook (flows s) x = Some ix /\ removable cfg_now now ix = true /\ slook (flows s') x = None) /\
    (forall k l' x, slook (i_scopes i') k = Some l' -> In x l' ->
       exists ix ix', slook (flows s) x = Some ix /\ slook (flows s') x = Some ix' /\
                      frame_rel (fun y => slook (flows s') y = None) ix ix') /\
    (forall a, In a (i_actions i') -> exists act, slook (actions s) a = Some act /\ slook (actions s') a = Some act).
Proof. intros (Hn & Hc & _) Hr. exact (cleanup_lookups cfg_now now s s' Hn Hr eq_refl eq_refl Hc). Qed.

Lemma later_clock_now t1 t2 s s1 s12 s2 :
  t1 <= t2 -> refs_ok s ->
  cleanup_now t1 s = Some s1 -> cleanup_now t2 s1 = Some s12 -> cleanup_now t2 s = Some s2 ->
  (forall u, slook (flows s12) u = None <-> slook (flows s2) u = None) /\
  (forall u i12 i2, slook (flows s12) u = Some i12 -> slook (flows s2) u = Some i2 ->
     (i_flow i12 = i_flow i2 /\ i_status i12 = i_status i2 /\ i_updated i12 = i_updated i2 /\
      i_activated i12 = i_activated i2 /\ i_parent i12 = i_parent i2 /\ i_actions i12 = i_actions i2 /\
      i_rest i12 = i_rest i2 /\ i_heads i12 = i_heads i2 /\ map fst (i_scopes i12) = map fst (i_scopes i2)) /\
     (forall x, In x (i_children i12) <-> In x (i_children i2)) /\
     (forall k l12 l2, slook (i_scopes i12) k = Some l12 -> slook (i_scopes i2) k = Some l2 ->
                       forall x, In x l12 <-> In x l2)) /\
  (forall a, slook (actions s12) a = slook (actions s2) a) /\
  (forall f l12 l2, slook (by_flow s12) f = Some l12 -> slook (by_flow s2) f = Some l2 -> forall x, In x l12 <-> In x l2) /\
  s_rest s12 = s_rest s2.
Proof.
  intros Ht (Hn & Hc & _) R1 R12 R2. unfold cleanup_now in *. split; [|split; [|split; [|split]]].
  - intro u. exact (later_same_domain cfg_now t1 t2 s s1 s12 s2 eq_refl Ht Hn R1 R12 R2 u).
  - intros u i12 i2 H1 H2. split.
    + exact (later_same_instance cfg_now t1 t2 s s1 s12 s2 Hn R1 R12 R2 u i12 i2 H1 H2).
    + exact (later_same_lists cfg_now t1 t2 s s1 s12 s2 eq_refl Ht Hn R1 R12 R2 u i12 i2 eq_refl eq_refl Hc H1 H2).
  - intro a. exact (later_same_actions cfg_now t1 t2 s s1 s12 s2 eq_refl Ht Hn R1 R12 R2 a).
  - exact (later_same_by_flow cfg_now t1 t2 s s1 s12 s2 eq_refl Ht Hn R1 R12 R2 eq_refl eq_refl Hc).
  - exact (later_same_rest cfg_now t1 t2 s s1 s12 s2 Hn R1 R12 R2).
Qed.

(* the hypotheses are inhabited: the example of Cleanup.v under the constants of the source *)
Example cleanup_now_example :
  exists s', cleanup_now 10000000 ex_state = Some s' /\ slook (flows s') "a1" = None /\
             slook (flows s') "b1" <> None /\ slook (actions s') "act2" = None.
Proof. eexists. split; [vm_compute; reflexivity|]. repeat split; vm_compute; congruence. Qed.
