(* C07 - executable instance used by the correspondence check (harness/c07.py).
   Atoms and events are numbers: atom i is the Spec `E<i>()` (match) or the flow `f<i>` that
   finishes on event E<i> (await/when); event j is the external event `E<j>`; an event matches
   an atom iff the numbers are equal.  Nothing here is used by the theorems, which hold for
   every atom type, event type and matching relation. *)
From Coq Require Import List Bool NArith Arith.
From NG Require Import V2.Dnf V2.Groups.
Import ListNotations.

Fixpoint formula_eqb (f g : formula N) {struct f} : bool :=
  match f, g with
  | Atom a, Atom b => N.eqb a b
  | And l, And l' =>
      (fix go (l l' : list (formula N)) : bool :=
         match l, l' with
         | [], [] => true
         | x :: xs, y :: ys => formula_eqb x y && go xs ys
         | _, _ => false
         end) l l'
  | Or l, Or l' =>
      (fix go (l l' : list (formula N)) : bool :=
         match l, l' with
         | [], [] => true
         | x :: xs, y :: ys => formula_eqb x y && go xs ys
         | _, _ => false
         end) l l'
  | _, _ => false
  end.

Definition opt_formula_eqb (a b : option (formula N)) : bool :=
  match a, b with
  | Some x, Some y => formula_eqb x y
  | None, None => true
  | _, _ => false
  end.

(* X1: (group, result of the real normalize_element_groups; None = it raised) *)
Definition check_norm (c : formula N * option (formula N)) : bool :=
  let '(f, r) := c in opt_formula_eqb (normalize f) r.

(* X3: the skeleton of the real expansion: per alternative the atoms of its `match` elements
   in order and the WaitForHeads number on its success path (None = no WaitForHeads);
   or_fork = whether an or-level ForkHead was emitted *)
Definition skeleton := (bool * list (list N * option nat))%type.

Definition skel_branch (b : branch N) : list N * option nat :=
  match b with
  | BMatch a => ([a], None)
  | BAnd ms n => (ms, Some n)
  end.

Definition skel_of (p : prog N) : skeleton :=
  match p with
  | PSingle b => (false, [skel_branch b])
  | POr bs => (true, map skel_branch bs)
  end.

Fixpoint list_eqb {X} (eqb : X -> X -> bool) (l l' : list X) : bool :=
  match l, l' with
  | [], [] => true
  | x :: xs, y :: ys => eqb x y && list_eqb eqb xs ys
  | _, _ => false
  end.

Definition opt_nat_eqb (a b : option nat) : bool :=
  match a, b with
  | Some x, Some y => Nat.eqb x y
  | None, None => true
  | _, _ => false
  end.

Definition skel_eqb (a b : skeleton) : bool :=
  Bool.eqb (fst a) (fst b)
  && list_eqb (fun x y => list_eqb N.eqb (fst x) (fst y) && opt_nat_eqb (snd x) (snd y)) (snd a) (snd b).

Definition check_compile (c : stmt * formula N * skeleton) : bool :=
  let '(st, f, sk) := c in
  match compile st f with
  | Some p => skel_eqb (skel_of p) sk
  | None => false
  end.

Definition outcome_eqb (a b : outcome) : bool :=
  match a, b with
  | OErr, OErr => true
  | ONever, ONever => true
  | OAt n, OAt m => Nat.eqb n m
  | _, _ => false
  end.

Definition run_c : stmt -> formula N -> list N -> outcome := run N.eqb.
Definition first_sat_c : formula N -> list N -> outcome := first_sat N.eqb.

(* X2: (statement kind, group, [(event sequence, step at which Done was observed on the real
   interpreter)]): the model's run and the first-satisfaction spec must both give that step *)
Definition check_run (c : stmt * formula N * list (list N * outcome)) : bool :=
  let '(st, f, obs) := c in
  forallb (fun eo : list N * outcome =>
             let '(evs, o) := eo in
             outcome_eqb (run_c st f evs) o && outcome_eqb (first_sat_c f evs) o) obs.

(* per-sequence variant, for pinpointing a disagreement *)
Definition check_run1 (c : stmt * formula N * list N * outcome) : bool :=
  let '(st, f, evs, o) := c in outcome_eqb (run_c st f evs) o.

Example check_run_ex :
  check_run (SMatch, Or [And [Atom 0%N; Atom 1%N]; Atom 2%N],
             [([0; 9; 0; 1; 2], OAt 4); ([9; 2], OAt 2); ([1; 9; 1], ONever)]%N) = true.
Proof. vm_compute. reflexivity. Qed.

Example check_norm_ex :
  check_norm (And [Atom 0%N; Or [Atom 1%N; Atom 2%N]], Some (Or [And [Atom 0%N; Atom 1%N]; And [Atom 0%N; Atom 2%N]]))%N = true.
Proof. vm_compute. reflexivity. Qed.

Example check_compile_ex :
  check_compile (SAwait, Or [And [Atom 0%N; Atom 1%N]; Atom 2%N], (true, [([0%N; 1%N], Some 2); ([2%N], None)])) = true.
Proof. vm_compute. reflexivity. Qed.

(* ---------- failure side / `when` with several cases (V2/GroupsFail.v) ---------- *)
From NG Require Import V2.GroupsFail.

(* an event step is (flow number, finishes?) : (i, true) = E<i> arrives and flow f<i> finishes,
   (i, false) = StopFlow(flow_id="f<i>") : the running instances of f<i> fail *)
Definition fmt_c (a : N) (e : N * bool) : bool := N.eqb a (fst e) && snd e.
Definition ffl_c (a : N) (e : N * bool) : bool := N.eqb a (fst e) && negb (snd e).
Definition frun_c : stmt -> list (formula N) -> list (N * bool) -> foutcome := frun fmt_c ffl_c.
Definition fspec_c : list (formula N) -> list (N * bool) -> foutcome := fspec fmt_c ffl_c.

(* X3 with the failure handlers: per case (or-fork emitted?, alternatives as in `skeleton`,
   WaitForHeads number of the case's failure handler), and the WaitForHeads number at the else label *)
Definition fskeleton := (list (bool * list (list N * option nat) * option nat) * option nat)%type.

Definition fskel_of (p : fprog N) : fskeleton :=
  (map (fun c => (cp_fork c, map skel_branch (cp_branches c), cp_fail_wait c)) (fp_cases p),
   fp_else_wait p).

Definition alts_eqb (x y : list (list N * option nat)) : bool :=
  list_eqb (fun a b => list_eqb N.eqb (fst a) (fst b) && opt_nat_eqb (snd a) (snd b)) x y.

Definition fskel_eqb (a b : fskeleton) : bool :=
  list_eqb (fun x y : bool * list (list N * option nat) * option nat =>
              Bool.eqb (fst (fst x)) (fst (fst y))
              && alts_eqb (snd (fst x)) (snd (fst y))
              && opt_nat_eqb (snd x) (snd y)) (fst a) (fst b)
  && opt_nat_eqb (snd a) (snd b).

Definition check_fcompile (c : stmt * list (formula N) * fskeleton) : bool :=
  let '(st, fs, sk) := c in
  match fcompile st fs with
  | Some p => fskel_eqb (fskel_of p) sk
  | None => false
  end.

(* what was observed on the interpreter *)
Inductive fobs := ObsNever | ObsDone (n : nat) (case : nat) | ObsFail (n : nat).

Definition fobs_ok (o : foutcome) (b : fobs) : bool :=
  match o, b with
  | FoNever, ObsNever => true
  | FoDone n w, ObsDone m i => Nat.eqb n m && existsb (Nat.eqb i) w
  | FoFail n, ObsFail m => Nat.eqb n m
  | _, _ => false
  end.

Definition check_frun (c : stmt * list (formula N) * list (list (N * bool) * fobs)) : bool :=
  let '(st, fs, obs) := c in
  forallb (fun eo : list (N * bool) * fobs =>
             let '(evs, o) := eo in
             fobs_ok (frun_c st fs evs) o && fobs_ok (fspec_c fs evs) o) obs.

Definition check_frun1 (c : stmt * list (formula N) * list (N * bool) * fobs) : bool :=
  let '(st, fs, evs, o) := c in fobs_ok (frun_c st fs evs) o.

Example check_frun_ex :
  check_frun (SWhen, [Or [Atom 0%N; Atom 1%N]; Atom 2%N],
              [([(0%N, false); (2%N, false); (1%N, true)], ObsDone 3 0);
               ([(0%N, false); (1%N, false); (2%N, false)], ObsFail 3);
               ([(2%N, true)], ObsDone 1 1);
               ([(0%N, false); (2%N, false)], ObsNever)]) = true.
Proof. vm_compute. reflexivity. Qed.

Example check_fcompile_ex :
  check_fcompile (SWhen, [Or [Atom 0%N; Atom 1%N]; Atom 2%N],
                  ([(true, [([0%N], None); ([1%N], None)], Some 2); (true, [([2%N], None)], Some 1)], Some 2)) = true.
Proof. vm_compute. reflexivity. Qed.
