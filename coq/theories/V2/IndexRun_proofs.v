(* C09 - what the decision procedure IndexRun.exactb (evaluated inside Coq on every distinct
   snapshot of the real State) means: it implies exactness of the index w.r.t. the scan. *)
From Coq Require Import NArith List Bool Lia Arith.
From NG Require Import V2.Index V2.Index_proofs V2.IndexRun.
Import ListNotations.
Open Scope N_scope.

Lemma count_key_cnt k l : count_key k l = count_occ key_dec l k.
Proof.
  unfold count_key. induction l as [|x t IH]; simpl; [reflexivity|].
  destruct (key_dec x k) as [->|Hn].
  - rewrite key_eqb_refl. simpl. rewrite IH. reflexivity.
  - rewrite (key_eqb_neq k x) by (intro; subst; contradiction). exact IH.
Qed.

Lemma existsb_key_in k l : existsb (key_eqb k) l = true <-> In k l.
Proof.
  rewrite existsb_exists. split.
  - intros [x [Hin He]]. apply key_eqb_eq in He. subst. exact Hin.
  - intro H. exists k. split; [exact H | apply key_eqb_refl].
Qed.

Theorem exactb_sound prog s :
  WF s -> exactb prog s = true ->
  forall n k, count_occ key_dec (ix_get s n) k = count_occ key_dec (scan prog s n) k.
Proof.
  intros Hwf He n k. unfold exactb in He.
  apply andb_true_iff in He. destruct He as [He H3].
  apply andb_true_iff in He. destruct He as [H1 H2].
  rewrite forallb_forall in H1, H2.
  rewrite (cnt_scan prog _ _ _ Hwf).
  destruct (in_dec key_dec k (ix_get s n)) as [Hin|Hnin].
  - unfold ix_get in *. destruct (aget N.eqb (index s) n) as [l|] eqn:El; [|contradiction].
    apply Ng_Some_in in El. specialize (H1 _ El). simpl in H1. rewrite forallb_forall in H1.
    specialize (H1 _ Hin). apply andb_true_iff in H1. destruct H1 as [H1 _].
    apply andb_true_iff in H1. destruct H1 as [Hc Hs].
    rewrite Hs. apply Nat.eqb_eq in Hc. rewrite count_key_cnt in Hc. exact Hc.
  - rewrite (proj1 (count_occ_not_In key_dec _ _) Hnin).
    destruct (scanb prog s n k) eqn:Es; [|reflexivity]. exfalso. apply Hnin.
    unfold scanb in Es. apply andb_true_iff in Es. destruct Es as [Hl Hr].
    unfold relevant, find_head, listening in *.
    destruct (find_inst s (fst k)) as [i|] eqn:Ei; [|discriminate].
    destruct (aget N.eqb (i_heads i) (snd k)) as [hd|] eqn:Eh; [|discriminate].
    destruct (rel_of prog (fst k) hd) as [n'|] eqn:Er; [|discriminate].
    apply N.eqb_eq in Hr. subst n'.
    unfold find_inst in Ei. apply Ng_Some_in in Ei. specialize (H2 _ Ei). simpl in H2.
    rewrite Hl in H2. rewrite forallb_forall in H2. apply Ng_Some_in in Eh.
    specialize (H2 _ Eh). simpl in H2. rewrite Er in H2.
    apply existsb_key_in in H2. destruct k; exact H2.
Qed.
