(* C09 - proofs about V2/Index.v: the invariant "index = from-scratch scan, reverse map exactly
   inverse" is established by the empty state and preserved by every operation of the model
   (whose side conditions are the discipline statemachine.py follows), hence by every finite
   sequence of operations. *)
From Coq Require Import NArith List Bool Lia Arith.
From NG Require Import V2.Index.
Import ListNotations.
Open Scope N_scope.

(* ------------------------------------------------------------------ association lists *)

Section AListLemmas.
  Context {K V : Type}.
  Variable eqb : K -> K -> bool.
  Hypothesis eqb_eq : forall a b, eqb a b = true <-> a = b.

  Lemma eqb_refl a : eqb a a = true.
  Proof. apply eqb_eq. reflexivity. Qed.

  Lemma eqb_neq a b : a <> b -> eqb a b = false.
  Proof. intro H. destruct (eqb a b) eqn:E; [apply eqb_eq in E; contradiction | reflexivity]. Qed.

  Lemma eqb_false_neq a b : eqb a b = false -> a <> b.
  Proof. intros E H. subst. rewrite eqb_refl in E. discriminate. Qed.

  Lemma aget_app (l1 l2 : list (K * V)) k :
    aget eqb (l1 ++ l2) k = match aget eqb l1 k with Some v => Some v | None => aget eqb l2 k end.
  Proof.
    induction l1 as [|[k' v'] t IH]; simpl; [reflexivity|].
    destruct (eqb k' k); [reflexivity | exact IH].
  Qed.

  Lemma aget_map_same (l : list (K * V)) k v :
    aget eqb l k <> None ->
    aget eqb (map (fun p => if eqb (fst p) k then (k, v) else p) l) k = Some v.
  Proof.
    induction l as [|[k' v'] t IH]; simpl; intro H; [contradiction|].
    destruct (eqb k' k) eqn:E; simpl.
    - rewrite eqb_refl. reflexivity.
    - rewrite E. apply IH. exact H.
  Qed.

  Lemma aget_map_other (l : list (K * V)) k v k' :
    k' <> k ->
    aget eqb (map (fun p => if eqb (fst p) k then (k, v) else p) l) k' = aget eqb l k'.
  Proof.
    intro Hn. induction l as [|[k0 v0] t IH]; simpl; [reflexivity|].
    destruct (eqb k0 k) eqn:E; simpl.
    - apply eqb_eq in E. subst k0. rewrite (eqb_neq k k') by (intro; subst; contradiction).
      exact IH.
    - destruct (eqb k0 k'); [reflexivity | exact IH].
  Qed.

  Lemma aget_aset_same (l : list (K * V)) k v : aget eqb (aset eqb l k v) k = Some v.
  Proof.
    unfold aset, amem. destruct (aget eqb l k) eqn:E.
    - apply aget_map_same. rewrite E. discriminate.
    - rewrite aget_app, E. simpl. rewrite eqb_refl. reflexivity.
  Qed.

  Lemma aget_aset_other (l : list (K * V)) k v k' :
    k' <> k -> aget eqb (aset eqb l k v) k' = aget eqb l k'.
  Proof.
    intro Hn. unfold aset, amem. destruct (aget eqb l k) eqn:E.
    - apply aget_map_other. exact Hn.
    - rewrite aget_app. destruct (aget eqb l k'); [reflexivity|].
      simpl. rewrite (eqb_neq k k') by (intro; subst; contradiction). reflexivity.
  Qed.

  Lemma aget_adel_same (l : list (K * V)) k : aget eqb (adel eqb l k) k = None.
  Proof.
    unfold adel. induction l as [|[k' v'] t IH]; simpl; [reflexivity|].
    destruct (eqb k' k) eqn:E; simpl; [exact IH|]. rewrite E. exact IH.
  Qed.

  Lemma aget_adel_other (l : list (K * V)) k k' :
    k' <> k -> aget eqb (adel eqb l k) k' = aget eqb l k'.
  Proof.
    intro Hn. unfold adel. induction l as [|[k0 v0] t IH]; simpl; [reflexivity|].
    destruct (eqb k0 k) eqn:E; simpl.
    - apply eqb_eq in E. subst k0. rewrite (eqb_neq k k') by (intro; subst; contradiction). exact IH.
    - destruct (eqb k0 k'); [reflexivity | exact IH].
  Qed.

  Lemma aget_None_notin (l : list (K * V)) k : aget eqb l k = None -> ~ In k (map fst l).
  Proof.
    induction l as [|[k' v'] t IH]; simpl; intro H; [intros []|].
    intros [Hin|Hin].
    - subst. rewrite eqb_refl in H. discriminate.
    - destruct (eqb k' k); [discriminate | exact (IH H Hin)].
  Qed.

  Lemma aget_Some_in (l : list (K * V)) k v : aget eqb l k = Some v -> In (k, v) l.
  Proof.
    induction l as [|[k' v'] t IH]; simpl; intro H; [discriminate|].
    destruct (eqb k' k) eqn:E.
    - apply eqb_eq in E. inversion H; subst. left. reflexivity.
    - right. exact (IH H).
  Qed.

  Lemma in_aget (l : list (K * V)) k v :
    NoDup (map fst l) -> In (k, v) l -> aget eqb l k = Some v.
  Proof.
    induction l as [|[k' v'] t IH]; simpl; intros Hnd Hin; [contradiction|].
    inversion Hnd as [|? ? Hni Hnd']; subst.
    destruct Hin as [Heq|Hin].
    - inversion Heq; subst. rewrite eqb_refl. reflexivity.
    - destruct (eqb k' k) eqn:E.
      + apply eqb_eq in E. subst. exfalso. apply Hni. apply in_map_iff. exists (k, v). split; [reflexivity | exact Hin].
      + exact (IH Hnd' Hin).
  Qed.

  Lemma map_fst_map_same (l : list (K * V)) k v :
    map fst (map (fun p => if eqb (fst p) k then (k, v) else p) l) = map fst l.
  Proof.
    induction l as [|[k' v'] t IH]; simpl; [reflexivity|].
    destruct (eqb k' k) eqn:E; simpl; rewrite IH; [|reflexivity].
    apply eqb_eq in E. subst. reflexivity.
  Qed.

  Lemma nodup_aset (l : list (K * V)) k v :
    NoDup (map fst l) -> NoDup (map fst (aset eqb l k v)).
  Proof.
    intro Hnd. unfold aset, amem. destruct (aget eqb l k) eqn:E.
    - rewrite map_fst_map_same. exact Hnd.
    - rewrite map_app. simpl.
      assert (Hni : ~ In k (map fst l)) by (apply aget_None_notin; exact E).
      clear E. induction (map fst l) as [|a t IH]; simpl.
      + constructor; [intros [] | constructor].
      + inversion Hnd; subst. constructor.
        * rewrite in_app_iff. intros [H|[H|[]]]; [contradiction|]. subst. apply Hni. left. reflexivity.
        * apply IH; [assumption|]. intro H. apply Hni. right. exact H.
  Qed.

  Lemma nodup_adel (l : list (K * V)) k :
    NoDup (map fst l) -> NoDup (map fst (adel eqb l k)).
  Proof.
    unfold adel. induction l as [|[k' v'] t IH]; simpl; intro Hnd; [constructor|].
    inversion Hnd; subst. destruct (eqb k' k); simpl.
    - apply IH. assumption.
    - constructor; [|apply IH; assumption].
      intro Hin. apply in_map_iff in Hin. destruct Hin as [[a b] [Ha Hb]]. simpl in Ha. subst.
      apply filter_In in Hb. destruct Hb as [Hb _]. match goal with H : ~ In _ _ |- _ => apply H end.
      apply in_map_iff. exists (k', b). split; [reflexivity | exact Hb].
  Qed.
End AListLemmas.

Lemma key_eqb_eq (a b : key) : key_eqb a b = true <-> a = b.
Proof.
  destruct a as [a1 a2], b as [b1 b2]. unfold key_eqb. simpl.
  rewrite andb_true_iff, !N.eqb_eq. split.
  - intros [-> ->]. reflexivity.
  - intro H. inversion H. split; reflexivity.
Qed.

Definition key_dec (a b : key) : {a = b} + {a <> b}.
Proof. decide equality; apply N.eq_dec. Defined.
Arguments key_dec : simpl never.

Lemma key_eqb_refl k : key_eqb k k = true.
Proof. apply key_eqb_eq. reflexivity. Qed.

Lemma key_eqb_neq a b : a <> b -> key_eqb a b = false.
Proof. intro H. destruct (key_eqb a b) eqn:E; [apply key_eqb_eq in E; contradiction | reflexivity]. Qed.


Ltac alist_by L := intros; eapply L; try exact N.eqb_eq; try exact key_eqb_eq; eauto.

Section Specialised.
  Context {V : Type}.
  Lemma Ng_set_same (l : list (N * V)) k v : aget N.eqb (aset N.eqb l k v) k = Some v.
  Proof. alist_by @aget_aset_same. Qed.
  Lemma Ng_set_other (l : list (N * V)) k v k' : k' <> k -> aget N.eqb (aset N.eqb l k v) k' = aget N.eqb l k'.
  Proof. alist_by @aget_aset_other. Qed.
  Lemma Ng_del_same (l : list (N * V)) k : aget N.eqb (adel N.eqb l k) k = None.
  Proof. alist_by @aget_adel_same. Qed.
  Lemma Ng_del_other (l : list (N * V)) k k' : k' <> k -> aget N.eqb (adel N.eqb l k) k' = aget N.eqb l k'.
  Proof. alist_by @aget_adel_other. Qed.
  Lemma Ng_Some_in (l : list (N * V)) k v : aget N.eqb l k = Some v -> In (k, v) l.
  Proof. alist_by @aget_Some_in. Qed.
  Lemma Ng_in (l : list (N * V)) k v : NoDup (map fst l) -> In (k, v) l -> aget N.eqb l k = Some v.
  Proof. alist_by @in_aget. Qed.
  Lemma Ng_None_notin (l : list (N * V)) k : aget N.eqb l k = None -> ~ In k (map fst l).
  Proof. alist_by @aget_None_notin. Qed.
  Lemma Nnodup_set (l : list (N * V)) k v : NoDup (map fst l) -> NoDup (map fst (aset N.eqb l k v)).
  Proof. alist_by @nodup_aset. Qed.
  Lemma Nnodup_del (l : list (N * V)) k : NoDup (map fst l) -> NoDup (map fst (adel N.eqb l k)).
  Proof. alist_by @nodup_adel. Qed.
  Lemma Kg_set_same (l : list (key * V)) k v : aget key_eqb (aset key_eqb l k v) k = Some v.
  Proof. alist_by @aget_aset_same. Qed.
  Lemma Kg_set_other (l : list (key * V)) k v k' : k' <> k -> aget key_eqb (aset key_eqb l k v) k' = aget key_eqb l k'.
  Proof. alist_by @aget_aset_other. Qed.
  Lemma Kg_del_same (l : list (key * V)) k : aget key_eqb (adel key_eqb l k) k = None.
  Proof. alist_by @aget_adel_same. Qed.
  Lemma Kg_del_other (l : list (key * V)) k k' : k' <> k -> aget key_eqb (adel key_eqb l k) k' = aget key_eqb l k'.
  Proof. alist_by @aget_adel_other. Qed.
End Specialised.

(* ------------------------------------------------------------------ counting *)

Notation cnt := (count_occ key_dec).

Lemma cnt_app l1 l2 k : cnt (l1 ++ l2) k = (cnt l1 k + cnt l2 k)%nat.
Proof. apply count_occ_app. Qed.

Lemma remove_first_cnt k l l' :
  remove_first k l = Some l' ->
  forall k', cnt l k' = (cnt l' k' + (if key_dec k k' then 1 else 0))%nat.
Proof.
  revert l'. induction l as [|x t IH]; simpl; intros l' H k'; [discriminate|].
  destruct (key_eqb x k) eqn:E.
  - apply key_eqb_eq in E. subst x. inversion H; subst.
    destruct (key_dec k k'); lia.
  - destruct (remove_first k t) as [t'|] eqn:R; [|discriminate]. inversion H; subst. simpl.
    specialize (IH t' eq_refl k').
    destruct (key_dec x k'); lia.
Qed.

Lemma remove_first_None k l : remove_first k l = None -> cnt l k = 0%nat.
Proof.
  induction l as [|x t IH]; simpl; intro H; [reflexivity|].
  destruct (key_eqb x k) eqn:E; [discriminate|].
  destruct (remove_first k t); [discriminate|].
  destruct (key_dec x k) as [->|]; [rewrite key_eqb_refl in E; discriminate | apply IH; reflexivity].
Qed.

(* ------------------------------------------------------------------ state lemmas *)

Section Proofs.
  Variable prog : uid -> N -> option elem.

  Notation relevant := (relevant prog).
  Notation rel_of := (rel_of prog).
  Notation step := (step prog).
  Notation run := (run prog).
  Notation head_changed := (head_changed prog).
  Notation head_changed_with := (head_changed_with prog).
  Notation scan := (scan prog).
  Notation scanb := (scanb prog).

  (* how often k is registered under n according to the reverse map *)
  Definition regd (s : state) (n : name) (k : key) : nat :=
    match rev_get s k with
    | Some n' => if N.eqb n' n then 1%nat else 0%nat
    | None => 0%nat
    end.

  Definition CntOK (s : state) : Prop := forall n k, cnt (ix_get s n) k = regd s n k.

  Definition WF (s : state) : Prop :=
    NoDup (map fst (insts s)) /\
    forall f i, find_inst s f = Some i -> NoDup (map fst (i_heads i)).

  Record Inv (s : state) : Prop := {
    inv_wf : WF s;
    inv_cnt : CntOK s;
    (* no stale entry: whatever is registered is an attached, non-inactive head on that match *)
    inv_sound : forall k n, rev_get s k = Some n -> relevant s k = Some n;
    (* no missed head *)
    inv_complete : forall k n, relevant s k = Some n -> listening s (fst k) = true -> rev_get s k = Some n;
    (* finished / failed instances hold no position *)
    inv_done : forall f i, find_inst s f = Some i -> is_done (i_st i) = true -> i_heads i = []
  }.

  (* ---- index primitives *)

  Lemma ix_get_aset s n l n' :
    match aget N.eqb (aset N.eqb (index s) n l) n' with Some x => x | None => [] end
    = if N.eqb n n' then l else ix_get s n'.
  Proof.
    destruct (N.eqb_spec n n') as [->|Hn].
    - rewrite Ng_set_same. reflexivity.
    - rewrite Ng_set_other by (intro; subst; contradiction). reflexivity.
  Qed.

  Lemma remove_entry_spec s k s' :
    CntOK s -> remove_entry s k = Ok s' ->
    insts s' = insts s /\ CntOK s' /\ rev_get s' k = None /\
    (forall k', k' <> k -> rev_get s' k' = rev_get s k').
  Proof.
    intros Hc H. unfold remove_entry in H.
    destruct (rev_get s k) as [n|] eqn:Er.
    2:{ inversion H; subst. repeat split; auto. }
    destruct (aget N.eqb (index s) n) as [l|] eqn:El; [|discriminate].
    destruct (remove_first k l) as [l'|] eqn:Rf; [|discriminate].
    inversion H; subst; clear H. simpl.
    assert (Hr1 : rev_get (mkS (insts s) (aset N.eqb (index s) n l') (adel key_eqb (rev s) k)) k = None).
    { unfold rev_get. simpl. apply Kg_del_same. }
    assert (Hr2 : forall k', k' <> k ->
              rev_get (mkS (insts s) (aset N.eqb (index s) n l') (adel key_eqb (rev s) k)) k' = rev_get s k').
    { intros k' Hn. unfold rev_get. simpl. apply Kg_del_other. exact Hn. }
    repeat split; auto.
    intros n' k'. unfold ix_get at 1. simpl. rewrite ix_get_aset.
    pose proof (Hc n' k') as Hc'. pose proof (Hc n k') as Hcn.
    unfold regd in *.
    destruct (key_dec k' k) as [->|Hk].
    - rewrite Hr1. rewrite Er in Hc', Hcn.
      destruct (N.eqb_spec n n') as [->|Hn].
      + rewrite N.eqb_refl in Hcn. unfold ix_get in Hcn. rewrite El in Hcn.
        pose proof (remove_first_cnt _ _ _ Rf k) as Hq. destruct (key_dec k k); [lia | contradiction].
      + exact Hc'.
    - rewrite (Hr2 _ Hk).
      destruct (N.eqb_spec n n') as [->|Hn]; [|exact Hc'].
      unfold ix_get in Hc'. rewrite El in Hc'.
      pose proof (remove_first_cnt _ _ _ Rf k') as Hq.
      destruct (key_dec k k') as [->|]; [contradiction|]. lia.
  Qed.

  Lemma add_entry_spec s k n :
    CntOK s -> rev_get s k = None ->
    CntOK (add_entry s k n) /\ rev_get (add_entry s k n) k = Some n /\
    (forall k', k' <> k -> rev_get (add_entry s k n) k' = rev_get s k').
  Proof.
    intros Hc Er.
    assert (Hr1 : rev_get (add_entry s k n) k = Some n).
    { unfold rev_get, add_entry. simpl. apply Kg_set_same. }
    assert (Hr2 : forall k', k' <> k -> rev_get (add_entry s k n) k' = rev_get s k').
    { intros k' Hn. unfold rev_get, add_entry. simpl. apply Kg_set_other. exact Hn. }
    repeat split; auto.
    intros n' k'.
    assert (Hix : ix_get (add_entry s k n) n' = if N.eqb n n' then ix_get s n ++ [k] else ix_get s n').
    { unfold ix_get at 1, add_entry. simpl.
      destruct (aget N.eqb (index s) n) as [l|] eqn:El; rewrite ix_get_aset;
        unfold ix_get; rewrite El; reflexivity. }
    rewrite Hix. pose proof (Hc n' k') as Hc'. unfold regd in *.
    destruct (key_dec k' k) as [->|Hk].
    - rewrite Hr1. rewrite Er in Hc'.
      destruct (N.eqb_spec n n') as [->|Hn].
      + rewrite cnt_app. simpl. destruct (key_dec k k); [lia | contradiction].
      + exact Hc'.
    - rewrite (Hr2 _ Hk).
      destruct (N.eqb_spec n n') as [->|Hn]; [|exact Hc'].
      rewrite cnt_app. simpl. destruct (key_dec k k') as [->|]; [contradiction|]. lia.
  Qed.

  Lemma listening_insts s s' f : insts s' = insts s -> listening s' f = listening s f.
  Proof. intro H. unfold listening, find_inst. rewrite H. reflexivity. Qed.

  Lemma head_changed_with_spec s f h hd s' r :
    CntOK s -> head_changed_with s f h hd = (Ok s', r) ->
    insts s' = insts s /\ CntOK s' /\
    rev_get s' (f, h) = (if listening s f then rel_of f hd else None) /\
    (forall k', k' <> (f, h) -> rev_get s' k' = rev_get s k').
  Proof.
    intros Hc H. unfold head_changed_with in H.
    destruct (remove_entry s (f, h)) as [s1|] eqn:Er; [|inversion H].
    destruct (remove_entry_spec _ _ _ Hc Er) as (Hi & Hc1 & Hr1 & Hr2).
    rewrite (listening_insts _ _ f Hi) in H.
    destruct (listening s f).
    - destruct (rel_of f hd) as [n|] eqn:Erel.
      + inversion H; subst; clear H.
        destruct (add_entry_spec s1 (f, h) n Hc1 Hr1) as (Hc2 & Hr3 & Hr4).
        repeat split; auto.
        intros k' Hk. rewrite (Hr4 _ Hk). apply Hr2. exact Hk.
      + inversion H; subst. repeat split; auto.
    - inversion H; subst. repeat split; auto.
  Qed.

  (* ---- updates of insts *)

  Lemma find_inst_put_inst s f i f' :
    find_inst (put_inst s f i) f' = if N.eqb f f' then Some i else find_inst s f'.
  Proof.
    unfold find_inst, put_inst, set_insts. simpl.
    destruct (N.eqb_spec f f') as [->|Hn].
    - apply Ng_set_same.
    - apply Ng_set_other. intro; subst; contradiction.
  Qed.

  Lemma find_head_put_inst s f i f' h' :
    find_head (put_inst s f i) f' h' = if N.eqb f f' then aget N.eqb (i_heads i) h' else find_head s f' h'.
  Proof. unfold find_head. rewrite find_inst_put_inst. destruct (N.eqb f f'); reflexivity. Qed.

  Lemma listening_put_inst s f i f' :
    listening (put_inst s f i) f' = if N.eqb f f' then is_listening (i_st i) else listening s f'.
  Proof. unfold listening. rewrite find_inst_put_inst. destruct (N.eqb f f'); reflexivity. Qed.

  Lemma rev_get_put_inst s f i k : rev_get (put_inst s f i) k = rev_get s k.
  Proof. reflexivity. Qed.

  Lemma relevant_eq s k :
    relevant s k = match find_head s (fst k) (snd k) with Some hd => rel_of (fst k) hd | None => None end.
  Proof. reflexivity. Qed.

  Lemma WF_put_inst s f i :
    WF s -> NoDup (map fst (i_heads i)) -> WF (put_inst s f i).
  Proof.
    intros [Hn Hh] Hi. split.
    - unfold put_inst, set_insts. simpl. apply Nnodup_set. exact Hn.
    - intros f' i' H. rewrite find_inst_put_inst in H.
      destruct (N.eqb f f'); [inversion H; subst; exact Hi | exact (Hh _ _ H)].
  Qed.

  Lemma CntOK_insts s l : CntOK s -> CntOK (set_insts s l).
  Proof. intros H n k. exact (H n k). Qed.

  (* frame: only `insts` changed *)
  Lemma inv_frame s s1 :
    Inv s -> index s1 = index s -> rev s1 = rev s -> WF s1 ->
    (forall f i, find_inst s1 f = Some i -> is_done (i_st i) = true -> i_heads i = []) ->
    (forall k n, rev_get s k = Some n -> relevant s1 k = Some n) ->
    (forall k n, relevant s1 k = Some n -> listening s1 (fst k) = true -> rev_get s k = Some n) ->
    Inv s1.
  Proof.
    intros HI Hix Hrv Hwf Hd Hs Hcm.
    assert (Hrg : forall k, rev_get s1 k = rev_get s k) by (intro k; unfold rev_get; rewrite Hrv; reflexivity).
    constructor; auto.
    - intros n k. unfold regd. rewrite Hrg. unfold ix_get. rewrite Hix. exact (inv_cnt _ HI n k).
    - intros k n H. rewrite Hrg in H. exact (Hs _ _ H).
    - intros k n H1 H2. rewrite Hrg. exact (Hcm _ _ H1 H2).
  Qed.

  (* frame: `insts` changed, then _flow_head_changed on (f,h) *)
  Lemma inv_after_hc s s1 f h s' r :
    Inv s -> index s1 = index s -> rev s1 = rev s -> WF s1 ->
    (forall f i, find_inst s1 f = Some i -> is_done (i_st i) = true -> i_heads i = []) ->
    (forall k, k <> (f, h) -> relevant s1 k = relevant s k) ->
    (forall k n, k <> (f, h) -> relevant s1 k = Some n -> listening s1 (fst k) = true -> listening s (fst k) = true) ->
    head_changed s1 f h = (Ok s', r) ->
    Inv s'.
  Proof.
    intros HI Hix Hrv Hwf Hd Hrel Hlis Hhc.
    assert (Hc1 : CntOK s1).
    { intros n k. unfold regd, rev_get, ix_get. rewrite Hix, Hrv. exact (inv_cnt _ HI n k). }
    unfold Index.head_changed in Hhc.
    destruct (find_head s1 f h) as [hd|] eqn:Efh; [|inversion Hhc].
    destruct (head_changed_with_spec _ _ _ _ _ _ Hc1 Hhc) as (Hi & Hc' & Hr1 & Hr2).
    assert (Hfi : forall g, find_inst s' g = find_inst s1 g) by (intro g; unfold find_inst; rewrite Hi; reflexivity).
    assert (Hfh : forall g x, find_head s' g x = find_head s1 g x) by (intros g x; unfold find_head; rewrite Hfi; reflexivity).
    assert (Hre : forall k, relevant s' k = relevant s1 k) by (intro k; rewrite !relevant_eq, Hfh; reflexivity).
    assert (Hli : forall g, listening s' g = listening s1 g) by (intro g; apply listening_insts; exact Hi).
    assert (Hrg : forall k, rev_get s1 k = rev_get s k) by (intro k; unfold rev_get; rewrite Hrv; reflexivity).
    constructor.
    - destruct Hwf as [Hn Hh]. split; [rewrite Hi; exact Hn|]. intros g i H. rewrite Hfi in H. exact (Hh _ _ H).
    - exact Hc'.
    - intros k n H. rewrite Hre. destruct (key_dec k (f, h)) as [->|Hk].
      + rewrite Hr1 in H. rewrite relevant_eq. simpl. rewrite Efh.
        destruct (listening s1 f); [exact H | discriminate].
      + rewrite (Hr2 _ Hk), Hrg in H. rewrite (Hrel _ Hk). exact (inv_sound _ HI _ _ H).
    - intros k n H1 H2. rewrite Hre in H1. rewrite Hli in H2. destruct (key_dec k (f, h)) as [->|Hk].
      + rewrite Hr1. simpl in H2. rewrite H2. rewrite relevant_eq in H1. simpl in H1. rewrite Efh in H1. exact H1.
      + rewrite (Hr2 _ Hk), Hrg. apply (inv_complete _ HI).
        * rewrite <- (Hrel _ Hk). exact H1.
        * exact (Hlis _ _ Hk H1 H2).
    - intros g i H. rewrite Hfi in H. exact (Hd _ _ H).
  Qed.

  Lemma empty_inv : Inv empty_state.
  Proof.
    constructor.
    - split; [constructor | intros f i H; discriminate].
    - intros n k. reflexivity.
    - intros k n H. discriminate.
    - intros k n H. discriminate.
    - intros f i H. discriminate.
  Qed.

  (* a head of an instance that is put back with one head record changed *)
  Lemma put_head_facts s f i h hd :
    find_inst s f = Some i ->
    put_head s f h hd = put_inst s f (mkI (i_st i) (aset N.eqb (i_heads i) h hd)).
  Proof. intro H. unfold put_head. rewrite H. reflexivity. Qed.

  Lemma find_head_put_head s f i h hd g x :
    find_inst s f = Some i ->
    find_head (put_head s f h hd) g x
    = if N.eqb f g && N.eqb h x then Some hd else find_head s g x.
  Proof.
    intro H. rewrite (put_head_facts _ _ _ _ _ H), find_head_put_inst. simpl.
    destruct (N.eqb_spec f g) as [->|Hn]; simpl; [|reflexivity].
    destruct (N.eqb_spec h x) as [->|Hx].
    - apply Ng_set_same.
    - rewrite Ng_set_other by (intro; subst; contradiction).
      unfold find_head. rewrite H. reflexivity.
  Qed.

  Lemma listening_put_head s f i h hd g :
    find_inst s f = Some i -> listening (put_head s f h hd) g = listening s g.
  Proof.
    intro H. rewrite (put_head_facts _ _ _ _ _ H), listening_put_inst. simpl.
    destruct (N.eqb_spec f g) as [->|]; [|reflexivity]. unfold listening. rewrite H. reflexivity.
  Qed.

  Lemma WF_put_head s f i h hd :
    WF s -> find_inst s f = Some i -> WF (put_head s f h hd).
  Proof.
    intros Hwf H. rewrite (put_head_facts _ _ _ _ _ H). apply WF_put_inst; [exact Hwf|]. simpl.
    apply Nnodup_set. exact (proj2 Hwf _ _ H).
  Qed.

  Lemma done_put_head s f i h hd :
    Inv s -> find_inst s f = Some i -> is_done (i_st i) = false ->
    forall g j, find_inst (put_head s f h hd) g = Some j -> is_done (i_st j) = true -> i_heads j = [].
  Proof.
    intros HI H Hnd g j Hg Hd. rewrite (put_head_facts _ _ _ _ _ H), find_inst_put_inst in Hg.
    destruct (N.eqb f g).
    - inversion Hg; subst. simpl in Hd. rewrite Hd in Hnd. discriminate.
    - exact (inv_done _ HI _ _ Hg Hd).
  Qed.

  Lemma key_neq_cases (f h : uid) (k : key) :
    k <> (f, h) -> N.eqb f (fst k) && N.eqb h (snd k) = false.
  Proof.
    intro Hk. destruct k as [g x]. simpl.
    destruct (N.eqb_spec f g) as [->|]; [|reflexivity].
    destruct (N.eqb_spec h x) as [->|]; [exfalso; apply Hk; reflexivity | reflexivity].
  Qed.

  (* an instance with attached heads is not done *)
  Lemma has_head_not_done s f i h hd :
    Inv s -> find_inst s f = Some i -> aget N.eqb (i_heads i) h = Some hd -> is_done (i_st i) = false.
  Proof.
    intros HI H Hh. destruct (is_done (i_st i)) eqn:E; [|reflexivity].
    rewrite (inv_done _ HI _ _ H E) in Hh. discriminate.
  Qed.

  (* a setter on an attached head *)
  Lemma do_set_inv s f h hd' changed fr s' :
    Inv s -> find_head s f h <> None ->
    do_set prog s f h hd' changed fr = Ok s' -> Inv s'.
  Proof.
    intros HI Hat H. unfold do_set in H. destruct changed.
    2:{ destruct (fire_eqb fr NoFire); inversion H; subst. exact HI. }
    destruct (head_changed (put_head s f h hd') f h) as [[s1|e] raised] eqn:Ehc; [|inversion H].
    destruct (fire_eqb fr (expect_fire true raised)); inversion H; subst; clear H.
    unfold find_head in Hat. destruct (find_inst s f) as [i|] eqn:Ei; [|contradiction].
    destruct (aget N.eqb (i_heads i) h) as [hd|] eqn:Eh; [|contradiction].
    pose proof (has_head_not_done _ _ _ _ _ HI Ei Eh) as Hnd.
    eapply (inv_after_hc s (put_head s f h hd')); [exact HI | | | | | | | exact Ehc].
    - rewrite (put_head_facts _ _ _ _ _ Ei). reflexivity.
    - rewrite (put_head_facts _ _ _ _ _ Ei). reflexivity.
    - apply (WF_put_head _ _ i); [exact (inv_wf _ HI) | exact Ei].
    - apply (done_put_head _ _ i); assumption.
    - intros k Hk. rewrite !relevant_eq, (find_head_put_head _ _ i) by exact Ei.
      rewrite (key_neq_cases _ _ _ Hk). reflexivity.
    - intros k n Hk _ Hl. rewrite (listening_put_head _ _ i) in Hl by exact Ei. exact Hl.
  Qed.

  (* remove_entries: explicit removal for a list of heads of f *)
  Lemma remove_entries_spec s f hs s' :
    CntOK s -> remove_entries s f hs = Ok s' ->
    insts s' = insts s /\ CntOK s' /\
    (forall k, rev_get s' k = if existsb (fun h => key_eqb (f, h) k) hs then None else rev_get s k).
  Proof.
    revert s. induction hs as [|h t IH]; simpl; intros s Hc H.
    - inversion H; subst. repeat split; auto.
    - destruct (remove_entry s (f, h)) as [s1|] eqn:Er; [|discriminate].
      destruct (remove_entry_spec _ _ _ Hc Er) as (Hi & Hc1 & Hr1 & Hr2).
      destruct (IH _ Hc1 H) as (Hi' & Hc' & Hr').
      repeat split; [congruence | exact Hc' |].
      intro k. rewrite Hr'. destruct (existsb (fun h0 => key_eqb (f, h0) k) t) eqn:Ex.
      + rewrite orb_true_r. reflexivity.
      + rewrite orb_false_r. destruct (key_eqb (f, h) k) eqn:Ek.
        * apply key_eqb_eq in Ek. subst. exact Hr1.
        * apply Hr2. intro; subst. rewrite key_eqb_refl in Ek. discriminate.
  Qed.

  Lemma none_registered_spec s f (hs : list (uid * head)) (h : uid) hd :
    none_registered s f hs = true -> aget N.eqb hs h = Some hd -> rev_get s (f, h) = None.
  Proof.
    intros Hn Hh. unfold none_registered in Hn. rewrite forallb_forall in Hn.
    apply Ng_Some_in in Hh. specialize (Hn _ Hh). cbn [fst snd] in Hn.
    destruct (rev_get s (f, h)) eqn:E; [|reflexivity].
    discriminate Hn.
  Qed.

  (* ------------------------------------------------------------------ preservation *)

  Lemma key_eq_pair (f h : uid) (k : key) : f = fst k -> h = snd k -> k = (f, h).
  Proof. destruct k; simpl; intros; subst; reflexivity. Qed.

  Lemma step_reset s s' : Inv s -> step s OResetInsts = Ok s' -> Inv s'.
  Proof.
    intros HI H. unfold Index.step in H.
    destruct (forallb _ (index s) && _) eqn:E; inversion H; subst; clear H.
    apply andb_true_iff in E. destruct E as [E1 E2].
    destruct (rev s) eqn:Erev; [|discriminate].
    apply (inv_frame s); auto.
    - split; [constructor | intros f i Hf; discriminate].
    - intros f i Hf. discriminate.
    - intros k n Hk. unfold rev_get in Hk. rewrite Erev in Hk. discriminate.
    - intros k n Hk. discriminate.
  Qed.

  Lemma step_new_inst s f st h hd cbp cbs s' :
    Inv s -> step s (ONewInst f st h hd cbp cbs) = Ok s' -> Inv s'.
  Proof.
    intros HI H. unfold Index.step in H.
    destruct (find_inst s f) eqn:Ef; [inversion H|].
    destruct (is_done st) eqn:Ed; [inversion H|].
    destruct (cbp && cbs); [|inversion H].
    destruct (head_changed (put_inst s f (mkI st [(h, hd)])) f h) as [[s1|e] [|]] eqn:Ehc; inversion H; subst; clear H.
    eapply (inv_after_hc s (put_inst s f (mkI st [(h, hd)]))); [exact HI | reflexivity | reflexivity | | | | | exact Ehc].
    - apply WF_put_inst; [exact (inv_wf _ HI)|]. simpl. constructor; [intros [] | constructor].
    - intros g j Hg Hd. rewrite find_inst_put_inst in Hg. destruct (N.eqb f g).
      + inversion Hg; subst. simpl in Hd. rewrite Hd in Ed. discriminate.
      + exact (inv_done _ HI _ _ Hg Hd).
    - intros k Hk. rewrite !relevant_eq, find_head_put_inst.
      destruct (N.eqb_spec f (fst k)) as [Hfk|Hfk]; [|reflexivity].
      simpl. destruct (N.eqb_spec h (snd k)) as [Hhk|Hhk].
      + exfalso. apply Hk. apply key_eq_pair; assumption.
      + unfold find_head. rewrite <- Hfk, Ef. reflexivity.
    - intros k n Hk Hr Hl. rewrite relevant_eq, find_head_put_inst in Hr.
      rewrite listening_put_inst in Hl.
      destruct (N.eqb_spec f (fst k)) as [Hfk|Hfk]; [|exact Hl].
      simpl in Hr. destruct (N.eqb_spec h (snd k)) as [Hhk|Hhk]; [|discriminate].
      exfalso. apply Hk. apply key_eq_pair; assumption.
  Qed.

  Lemma step_set_pos s f h p fr s' : Inv s -> step s (OSetPos f h p fr) = Ok s' -> Inv s'.
  Proof.
    intros HI H. unfold Index.step in H.
    destruct (find_head s f h) as [hd|] eqn:Eh; [|inversion H].
    eapply do_set_inv; [exact HI | | exact H]. rewrite Eh. discriminate.
  Qed.

  Lemma step_set_status s f h st fr s' : Inv s -> step s (OSetStatus f h st fr) = Ok s' -> Inv s'.
  Proof.
    intros HI H. unfold Index.step in H.
    destruct (find_head s f h) as [hd|] eqn:Eh; [|inversion H].
    eapply do_set_inv; [exact HI | | exact H]. rewrite Eh. discriminate.
  Qed.

  Lemma step_head_changed s f h raised s' : Inv s -> step s (OHeadChanged f h raised) = Ok s' -> Inv s'.
  Proof.
    intros HI H. unfold Index.step in H.
    destruct (head_changed s f h) as [[s1|e] r] eqn:Ehc; [|inversion H].
    destruct (Bool.eqb r raised); inversion H; subst; clear H.
    eapply (inv_after_hc s s); [exact HI | reflexivity | reflexivity | exact (inv_wf _ HI) | exact (inv_done _ HI) | | | exact Ehc].
    - intros; reflexivity.
    - intros k n _ _ Hl. exact Hl.
  Qed.

  (* attaching a head record nobody registers *)
  Lemma attach_unregistered s f i h hd :
    Inv s -> find_inst s f = Some i -> find_head s f h = None -> is_done (i_st i) = false ->
    (is_listening (i_st i) && match rel_of f hd with Some _ => true | None => false end) = false ->
    rev_get s (f, h) = None ->
    Inv (put_head s f h hd).
  Proof.
    intros HI Ei Eh Hnd Hun Hrv.
    apply (inv_frame s); auto.
    - rewrite (put_head_facts _ _ _ _ _ Ei). reflexivity.
    - rewrite (put_head_facts _ _ _ _ _ Ei). reflexivity.
    - apply (WF_put_head _ _ i); [exact (inv_wf _ HI) | exact Ei].
    - apply (done_put_head _ _ i); assumption.
    - intros k n Hk. rewrite relevant_eq, (find_head_put_head _ _ i) by exact Ei.
      destruct (key_dec k (f, h)) as [->|Hne]; [rewrite Hrv in Hk; discriminate|].
      rewrite (key_neq_cases _ _ _ Hne). exact (inv_sound _ HI _ _ Hk).
    - intros k n Hr Hl. rewrite relevant_eq, (find_head_put_head _ _ i) in Hr by exact Ei.
      rewrite (listening_put_head _ _ i) in Hl by exact Ei.
      destruct (key_dec k (f, h)) as [->|Hne].
      + simpl in Hr, Hl. rewrite !N.eqb_refl in Hr. simpl in Hr.
        unfold listening in Hl. rewrite Ei in Hl. rewrite Hl, Hr in Hun. discriminate.
      + rewrite (key_neq_cases _ _ _ Hne) in Hr. exact (inv_complete _ HI _ _ Hr Hl).
  Qed.

  Lemma step_attach_head s f h hd cbp cbs s' : Inv s -> step s (OAttachHead f h hd cbp cbs) = Ok s' -> Inv s'.
  Proof.
    intros HI H. unfold Index.step in H.
    destruct (find_inst s f) as [i|] eqn:Ei; [|inversion H].
    destruct (find_head s f h) eqn:Eh; [inversion H|].
    destruct (is_done (i_st i)) eqn:Ed; [inversion H|].
    destruct (cbp && cbs); [|inversion H].
    destruct (is_listening (i_st i) && _) eqn:Eu; [inversion H|].
    destruct (rev_get s (f, h)) eqn:Er; inversion H; subst; clear H.
    apply (attach_unregistered _ _ i); assumption.
  Qed.

  Lemma step_fork_head s f h hd cbp cbs p fr s' : Inv s -> step s (OForkHead f h hd cbp cbs p fr) = Ok s' -> Inv s'.
  Proof.
    intros HI H. unfold Index.step in H.
    destruct (find_inst s f) as [i|] eqn:Ei; [|inversion H].
    destruct (find_head s f h) eqn:Eh; [inversion H|].
    destruct (is_done (i_st i)) eqn:Ed; [inversion H|].
    destruct (cbp && cbs); [|inversion H].
    destruct (N.eqb p (h_pos hd)).
    - destruct (is_listening (i_st i) && _) eqn:Eu; [inversion H|].
      destruct (rev_get s (f, h)) eqn:Er; [inversion H|].
      destruct (fire_eqb fr NoFire); inversion H; subst; clear H.
      apply (attach_unregistered _ _ i); assumption.
    - (* created, then moved through the setter: the callback registers it *)
      unfold do_set in H.
      destruct (head_changed (put_head (put_head s f h hd) f h (mkH p (h_st hd))) f h) as [[s1|e] raised] eqn:Ehc; [|inversion H].
      destruct (fire_eqb fr (expect_fire true raised)); inversion H; subst; clear H.
      assert (Ei2 : find_inst (put_head s f h hd) f = Some (mkI (i_st i) (aset N.eqb (i_heads i) h hd))).
      { rewrite (put_head_facts _ _ _ _ _ Ei), find_inst_put_inst, N.eqb_refl. reflexivity. }
      eapply (inv_after_hc s (put_head (put_head s f h hd) f h (mkH p (h_st hd)))); [exact HI | | | | | | | exact Ehc].
      + rewrite (put_head_facts _ _ _ _ _ Ei2), (put_head_facts _ _ _ _ _ Ei). reflexivity.
      + rewrite (put_head_facts _ _ _ _ _ Ei2), (put_head_facts _ _ _ _ _ Ei). reflexivity.
      + eapply WF_put_head; [|exact Ei2]. apply (WF_put_head _ _ i); [exact (inv_wf _ HI) | exact Ei].
      + intros g j Hg Hd. rewrite (put_head_facts _ _ _ _ _ Ei2), find_inst_put_inst in Hg.
        destruct (N.eqb_spec f g) as [->|Hfg].
        * inversion Hg; subst. simpl in Hd. rewrite Hd in Ed. discriminate.
        * rewrite (put_head_facts _ _ _ _ _ Ei), find_inst_put_inst in Hg.
          rewrite (proj2 (N.eqb_neq f g) Hfg) in Hg. exact (inv_done _ HI _ _ Hg Hd).
      + intros k Hk. rewrite !relevant_eq.
        rewrite (find_head_put_head _ _ _ _ _ _ _ Ei2), (find_head_put_head _ _ _ _ _ _ _ Ei).
        rewrite (key_neq_cases _ _ _ Hk). reflexivity.
      + intros k n Hk _ Hl.
        rewrite (listening_put_head _ _ _ _ _ _ Ei2), (listening_put_head _ _ _ _ _ _ Ei) in Hl. exact Hl.
  Qed.

  Lemma step_del_head s f h s' : Inv s -> step s (ODelHead f h) = Ok s' -> Inv s'.
  Proof.
    intros HI H. unfold Index.step in H.
    destruct (find_inst s f) as [i|] eqn:Ei; [|inversion H].
    destruct (find_head s f h) as [hd|] eqn:Eh; [|inversion H].
    destruct (rev_get s (f, h)) eqn:Er; inversion H; subst; clear H.
    assert (Hfh : forall g x, find_head (put_inst s f (mkI (i_st i) (adel N.eqb (i_heads i) h))) g x
                              = if N.eqb f g && N.eqb h x then None else find_head s g x).
    { intros g x. rewrite find_head_put_inst. simpl.
      destruct (N.eqb_spec f g) as [->|]; simpl; [|reflexivity].
      destruct (N.eqb_spec h x) as [->|Hx].
      - apply Ng_del_same.
      - rewrite Ng_del_other by (intro; subst; contradiction). unfold find_head. rewrite Ei. reflexivity. }
    assert (Hli : forall g, listening (put_inst s f (mkI (i_st i) (adel N.eqb (i_heads i) h))) g = listening s g).
    { intro g. rewrite listening_put_inst. simpl. destruct (N.eqb_spec f g) as [->|]; [|reflexivity].
      unfold listening. rewrite Ei. reflexivity. }
    apply (inv_frame s); auto.
    - apply WF_put_inst; [exact (inv_wf _ HI)|]. simpl. apply Nnodup_del. exact (proj2 (inv_wf _ HI) _ _ Ei).
    - intros g j Hg Hd. rewrite find_inst_put_inst in Hg. destruct (N.eqb f g).
      + inversion Hg; subst. simpl in *. rewrite (inv_done _ HI _ _ Ei Hd). reflexivity.
      + exact (inv_done _ HI _ _ Hg Hd).
    - intros k n Hk. rewrite relevant_eq, Hfh.
      destruct (key_dec k (f, h)) as [->|Hne]; [rewrite Er in Hk; discriminate|].
      rewrite (key_neq_cases _ _ _ Hne). exact (inv_sound _ HI _ _ Hk).
    - intros k n Hr Hl. rewrite relevant_eq, Hfh in Hr. rewrite Hli in Hl.
      destruct (N.eqb f (fst k) && N.eqb h (snd k)); [discriminate|].
      exact (inv_complete _ HI _ _ Hr Hl).
  Qed.

  Lemma existsb_removed_fst f hs k : existsb (fun h => key_eqb (f, h) k) hs = true -> fst k = f.
  Proof.
    intro H. apply existsb_exists in H. destruct H as [h [_ Hk]]. apply key_eqb_eq in Hk. subst. reflexivity.
  Qed.

  Lemma step_clear_heads s f removed s' : Inv s -> step s (OClearHeads f removed) = Ok s' -> Inv s'.
  Proof.
    intros HI H. unfold Index.step in H.
    destruct (find_inst s f) as [i|] eqn:Ei; [|inversion H].
    destruct (forallb (fun h : N => amem N.eqb (i_heads i) h) removed); [|inversion H].
    destruct (remove_entries s f removed) as [s1|] eqn:Er; [|inversion H].
    destruct (none_registered s1 f (i_heads i)) eqn:En; inversion H; subst; clear H.
    destruct (remove_entries_spec _ _ _ _ (inv_cnt _ HI) Er) as (Hi & Hc1 & Hr).
    assert (Hfi1 : forall g, find_inst s1 g = find_inst s g) by (intro g; unfold find_inst; rewrite Hi; reflexivity).
    assert (Hfh : forall g x, find_head (put_inst s1 f (mkI (i_st i) [])) g x
                              = if N.eqb f g then None else find_head s g x).
    { intros g x. rewrite find_head_put_inst. simpl. destruct (N.eqb f g); [reflexivity|].
      unfold find_head. rewrite Hfi1. reflexivity. }
    assert (Hli : forall g, listening (put_inst s1 f (mkI (i_st i) [])) g = listening s g).
    { intro g. rewrite listening_put_inst. simpl. destruct (N.eqb_spec f g) as [->|].
      - unfold listening. rewrite Ei. reflexivity.
      - unfold listening. rewrite Hfi1. reflexivity. }
    constructor.
    - apply WF_put_inst; [|constructor]. destruct (inv_wf _ HI) as [Hn Hh]. split; [rewrite Hi; exact Hn|].
      intros g j Hg. rewrite Hfi1 in Hg. exact (Hh _ _ Hg).
    - intros n k. exact (Hc1 n k).
    - intros k n Hk. rewrite rev_get_put_inst, Hr in Hk.
      destruct (existsb (fun h => key_eqb (f, h) k) removed) eqn:Ex; [discriminate|].
      pose proof (inv_sound _ HI _ _ Hk) as Hs. rewrite relevant_eq, Hfh.
      destruct (N.eqb_spec f (fst k)) as [Hfk|Hfk]; [|exact Hs].
      exfalso. rewrite relevant_eq in Hs. unfold find_head in Hs. rewrite <- Hfk, Ei in Hs.
      destruct (aget N.eqb (i_heads i) (snd k)) as [hd|] eqn:Eh; [|discriminate].
      pose proof (none_registered_spec _ _ _ _ _ En Eh) as Hnone.
      assert (Hkk : (f, snd k) = k) by (destruct k; simpl in *; subst; reflexivity).
      rewrite Hkk, Hr, Ex, Hk in Hnone. discriminate.
    - intros k n Hrl Hl. rewrite relevant_eq, Hfh in Hrl. rewrite Hli in Hl.
      destruct (N.eqb_spec f (fst k)) as [Hfk|Hfk]; [discriminate|].
      rewrite rev_get_put_inst, Hr.
      destruct (existsb (fun h => key_eqb (f, h) k) removed) eqn:Ex.
      + apply existsb_removed_fst in Ex. exfalso. apply Hfk. symmetry. exact Ex.
      + exact (inv_complete _ HI _ _ Hrl Hl).
    - intros g j Hg Hd. rewrite find_inst_put_inst in Hg. destruct (N.eqb f g).
      + inversion Hg; subst. reflexivity.
      + rewrite Hfi1 in Hg. exact (inv_done _ HI _ _ Hg Hd).
  Qed.

  Lemma step_main_restart s f h hd cbp cbs raised s' :
    Inv s -> step s (OMainRestart f h hd cbp cbs raised) = Ok s' -> Inv s'.
  Proof.
    intros HI H. unfold Index.step in H.
    destruct (find_inst s f) as [i|] eqn:Ei; [|inversion H].
    destruct (is_done (i_st i)) eqn:Ed; [inversion H|].
    destruct (cbp && cbs); [|inversion H].
    destruct (none_registered s f (i_heads i)) eqn:En; [|inversion H].
    destruct (head_changed (put_inst s f (mkI (i_st i) [(h, hd)])) f h) as [[s1|e] r] eqn:Ehc; [|inversion H].
    destruct (Bool.eqb r raised); inversion H; subst; clear H.
    (* first drop the old heads (none of them is registered), then register the new one *)
    set (s0 := put_inst s f (mkI (i_st i) [])).
    assert (HI0 : Inv s0).
    { apply (inv_frame s); auto.
      - apply WF_put_inst; [exact (inv_wf _ HI) | constructor].
      - intros g j Hg Hd. unfold s0 in Hg. rewrite find_inst_put_inst in Hg. destruct (N.eqb f g).
        + inversion Hg; subst. reflexivity.
        + exact (inv_done _ HI _ _ Hg Hd).
      - intros k n Hk. pose proof (inv_sound _ HI _ _ Hk) as Hs.
        rewrite relevant_eq. unfold s0. rewrite find_head_put_inst. simpl.
        destruct (N.eqb_spec f (fst k)) as [Hfk|Hfk]; [|exact Hs].
        exfalso. rewrite relevant_eq in Hs. unfold find_head in Hs. rewrite <- Hfk, Ei in Hs.
        destruct (aget N.eqb (i_heads i) (snd k)) as [hd0|] eqn:Eh; [|discriminate].
        pose proof (none_registered_spec _ _ _ _ _ En Eh) as Hnone.
        assert (Hkk : (f, snd k) = k) by (destruct k; simpl in *; subst; reflexivity).
        rewrite Hkk, Hk in Hnone. discriminate.
      - intros k n Hr Hl. rewrite relevant_eq in Hr. unfold s0 in Hr, Hl.
        rewrite find_head_put_inst in Hr. rewrite listening_put_inst in Hl. simpl in Hr, Hl.
        destruct (N.eqb f (fst k)); [discriminate|]. exact (inv_complete _ HI _ _ Hr Hl). }
    eapply (inv_after_hc s0 (put_inst s f (mkI (i_st i) [(h, hd)]))); [exact HI0 | reflexivity | reflexivity | | | | | exact Ehc].
    - apply WF_put_inst; [exact (inv_wf _ HI)|]. simpl. constructor; [intros [] | constructor].
    - intros g j Hg Hd. rewrite find_inst_put_inst in Hg. destruct (N.eqb f g).
      + inversion Hg; subst. simpl in Hd. rewrite Hd in Ed. discriminate.
      + exact (inv_done _ HI _ _ Hg Hd).
    - intros k Hk. rewrite !relevant_eq. unfold s0. rewrite !find_head_put_inst. simpl.
      destruct (N.eqb_spec f (fst k)) as [Hfk|Hfk]; [|reflexivity].
      destruct (N.eqb_spec h (snd k)) as [Hhk|Hhk]; [|reflexivity].
      exfalso. apply Hk. apply key_eq_pair; assumption.
    - intros k n Hk _ Hl. unfold s0. rewrite listening_put_inst in *. simpl in *. exact Hl.
  Qed.

  Lemma step_inst_status s f st s' : Inv s -> step s (OInstStatus f st) = Ok s' -> Inv s'.
  Proof.
    intros HI H. unfold Index.step in H.
    destruct (find_inst s f) as [i|] eqn:Ei; [|inversion H].
    assert (Hkeep : forall st', (cls st' = Done -> i_heads i = []) ->
              (is_listening st' = true -> is_listening (i_st i) = false -> i_heads i = []) ->
              Inv (put_inst s f (mkI st' (i_heads i)))).
    { intros st' Hdone Hback.
      assert (Hfh : forall g x, find_head (put_inst s f (mkI st' (i_heads i))) g x = find_head s g x).
      { intros g x. rewrite find_head_put_inst. simpl. destruct (N.eqb_spec f g) as [->|]; [|reflexivity].
        unfold find_head. rewrite Ei. reflexivity. }
      apply (inv_frame s); auto.
      - apply WF_put_inst; [exact (inv_wf _ HI) | exact (proj2 (inv_wf _ HI) _ _ Ei)].
      - intros g j Hg Hd. rewrite find_inst_put_inst in Hg. destruct (N.eqb f g).
        + inversion Hg; subst. simpl in *. apply Hdone. unfold is_done in Hd. destruct (cls st'); try discriminate. reflexivity.
        + exact (inv_done _ HI _ _ Hg Hd).
      - intros k n Hk. rewrite relevant_eq, Hfh. exact (inv_sound _ HI _ _ Hk).
      - intros k n Hr Hl. rewrite relevant_eq, Hfh in Hr. rewrite listening_put_inst in Hl. simpl in Hl.
        destruct (N.eqb_spec f (fst k)) as [Hfk|Hfk]; [|exact (inv_complete _ HI _ _ Hr Hl)].
        destruct (is_listening (i_st i)) eqn:El.
        + apply (inv_complete _ HI _ _ Hr). unfold listening. rewrite <- Hfk, Ei. exact El.
        + exfalso. unfold find_head in Hr. rewrite <- Hfk, Ei in Hr.
          rewrite (Hback Hl eq_refl) in Hr. discriminate. }
    assert (Hempty : forall st', i_heads i = [] -> Inv (put_inst s f (mkI st' []))).
    { intros st' Eh. rewrite <- Eh. apply Hkeep; intros; exact Eh. }
    assert (Hk2 : (cls st = Listening /\ cls (i_st i) = Listening) \/ cls st = Stopping ->
                  Inv (put_inst s f (mkI st (i_heads i)))).
    { intro Hc. apply Hkeep.
      - intro X. destruct Hc as [[Y _]|Y]; rewrite X in Y; discriminate Y.
      - intros X Y. unfold is_listening in X, Y. destruct Hc as [[_ Z]|Z].
        + rewrite Z in Y. discriminate Y.
        + rewrite Z in X. discriminate X. }
    destruct (cls st) eqn:Ec; destruct (cls (i_st i)) eqn:Eci.
    - inversion H; subst. apply Hk2. left. split; reflexivity.
    - destruct (i_heads i) eqn:Eh; inversion H; subst; clear H. apply Hempty. reflexivity.
    - destruct (i_heads i) eqn:Eh; inversion H; subst; clear H. apply Hempty. reflexivity.
    - inversion H; subst. apply Hk2. right. reflexivity.
    - inversion H; subst. apply Hk2. right. reflexivity.
    - inversion H; subst. apply Hk2. right. reflexivity.
    - destruct (i_heads i) eqn:Eh; inversion H; subst; clear H. apply Hempty. reflexivity.
    - destruct (i_heads i) eqn:Eh; inversion H; subst; clear H. apply Hempty. reflexivity.
    - destruct (i_heads i) eqn:Eh; inversion H; subst; clear H. apply Hempty. reflexivity.
  Qed.

  Lemma step_del_inst s f s' : Inv s -> step s (ODelInst f) = Ok s' -> Inv s'.
  Proof.
    intros HI H. unfold Index.step in H.
    destruct (find_inst s f) as [i|] eqn:Ei; [|inversion H].
    destruct (is_done (i_st i)) eqn:Ed; inversion H; subst; clear H.
    pose proof (inv_done _ HI _ _ Ei Ed) as Hnil.
    assert (Hfi : forall g, find_inst (set_insts s (adel N.eqb (insts s) f)) g = if N.eqb f g then None else find_inst s g).
    { intro g. unfold find_inst, set_insts. simpl. destruct (N.eqb_spec f g) as [->|Hn].
      - apply Ng_del_same.
      - apply Ng_del_other. intro; subst; contradiction. }
    assert (Hfh : forall g x, find_head (set_insts s (adel N.eqb (insts s) f)) g x = find_head s g x).
    { intros g x. unfold find_head. rewrite Hfi. destruct (N.eqb_spec f g) as [->|]; [|reflexivity].
      rewrite Ei, Hnil. reflexivity. }
    apply (inv_frame s); auto.
    - destruct (inv_wf _ HI) as [Hn Hh]. split.
      + unfold set_insts. simpl. apply Nnodup_del. exact Hn.
      + intros g j Hg. rewrite Hfi in Hg. destruct (N.eqb f g); [discriminate | exact (Hh _ _ Hg)].
    - intros g j Hg Hd. rewrite Hfi in Hg. destruct (N.eqb f g); [discriminate | exact (inv_done _ HI _ _ Hg Hd)].
    - intros k n Hk. rewrite relevant_eq, Hfh. exact (inv_sound _ HI _ _ Hk).
    - intros k n Hr Hl. rewrite relevant_eq, Hfh in Hr. apply (inv_complete _ HI _ _ Hr).
      unfold listening in *. rewrite Hfi in Hl. destruct (N.eqb f (fst k)); [discriminate | exact Hl].
  Qed.

  Lemma step_detached s f h hd raised s' : Inv s -> step s (ODetachedChanged f h hd raised) = Ok s' -> Inv s'.
  Proof.
    intros HI H. unfold Index.step in H.
    destruct (find_head s f h) eqn:Eh; [inversion H|].
    destruct (listening s f && _) eqn:Eu; [inversion H|].
    destruct (head_changed_with s f h hd) as [[s1|e] r] eqn:Ehc; [|inversion H].
    destruct (Bool.eqb r raised); inversion H; subst; clear H.
    destruct (head_changed_with_spec _ _ _ _ _ _ (inv_cnt _ HI) Ehc) as (Hi & Hc' & Hr1 & Hr2).
    assert (Hfi : forall g, find_inst s' g = find_inst s g) by (intro g; unfold find_inst; rewrite Hi; reflexivity).
    assert (Hfh : forall g x, find_head s' g x = find_head s g x) by (intros g x; unfold find_head; rewrite Hfi; reflexivity).
    assert (Hnone : rev_get s' (f, h) = None).
    { rewrite Hr1. destruct (listening s f); [|reflexivity]. simpl in Eu. destruct (rel_of f hd); [discriminate | reflexivity]. }
    constructor.
    - destruct (inv_wf _ HI) as [Hn Hh]. split; [rewrite Hi; exact Hn|]. intros g j Hg. rewrite Hfi in Hg. exact (Hh _ _ Hg).
    - exact Hc'.
    - intros k n Hk. rewrite relevant_eq, Hfh. destruct (key_dec k (f, h)) as [->|Hne].
      + rewrite Hnone in Hk. discriminate.
      + rewrite (Hr2 _ Hne) in Hk. exact (inv_sound _ HI _ _ Hk).
    - intros k n Hr Hl. rewrite relevant_eq, Hfh in Hr. rewrite (listening_insts _ _ _ Hi) in Hl.
      destruct (key_dec k (f, h)) as [->|Hne].
      + simpl in Hr. rewrite Eh in Hr. discriminate.
      + rewrite (Hr2 _ Hne). exact (inv_complete _ HI _ _ Hr Hl).
    - intros g j Hg Hd. rewrite Hfi in Hg. exact (inv_done _ HI _ _ Hg Hd).
  Qed.

  Theorem step_inv s o s' : Inv s -> step s o = Ok s' -> Inv s'.
  Proof.
    destruct o; intros HI H.
    - eapply step_reset; eassumption.
    - eapply step_new_inst; eassumption.
    - eapply step_set_pos; eassumption.
    - eapply step_set_status; eassumption.
    - eapply step_head_changed; eassumption.
    - eapply step_attach_head; eassumption.
    - eapply step_fork_head; eassumption.
    - eapply step_del_head; eassumption.
    - eapply step_clear_heads; eassumption.
    - eapply step_main_restart; eassumption.
    - eapply step_inst_status; eassumption.
    - eapply step_del_inst; eassumption.
    - eapply step_detached; eassumption.
    - unfold Index.step in H. discriminate.
  Qed.

  Theorem run_inv ops : forall s s', Inv s -> run s ops = Ok s' -> Inv s'.
  Proof.
    induction ops as [|o t IH]; simpl; intros s s' HI H.
    - inversion H; subst. exact HI.
    - destruct (step s o) as [s1|e] eqn:E; [|discriminate].
      exact (IH _ _ (step_inv _ _ _ HI E) H).
  Qed.

  (* ------------------------------------------------------------------ the scan, counted *)

  Definition rel_is (f : uid) (n : name) (o : option head) : bool :=
    match o with
    | Some hd => match rel_of f hd with Some n' => N.eqb n' n | None => false end
    | None => false
    end.

  Lemma cnt_scan_heads f n (hs : list (uid * head)) (k : key) :
    NoDup (map fst hs) ->
    cnt (scan_heads prog f n hs) k
    = if N.eqb f (fst k) && rel_is f n (aget N.eqb hs (snd k)) then 1%nat else 0%nat.
  Proof.
    induction hs as [|[h0 hd0] t IH]; simpl; intro Hnd.
    - rewrite andb_false_r. reflexivity.
    - inversion Hnd as [|? ? Hni Hnd']; subst. rewrite cnt_app, (IH Hnd'). clear IH.
      destruct (N.eqb_spec h0 (snd k)) as [Hh|Hh].
      + assert (Hnone : aget N.eqb t (snd k) = None).
        { destruct (aget N.eqb t (snd k)) eqn:E; [|reflexivity]. exfalso. apply Hni.
          apply Ng_Some_in in E. rewrite Hh. apply in_map_iff. exists (snd k, h). split; [reflexivity | exact E]. }
        rewrite Hnone. simpl. rewrite andb_false_r.
        destruct (rel_of f hd0) as [n'|]; simpl; [|rewrite andb_false_r; reflexivity].
        destruct (N.eqb n' n); simpl; [|rewrite andb_false_r; reflexivity].
        rewrite andb_true_r. destruct (N.eqb_spec f (fst k)) as [Hf|Hf].
        * destruct (key_dec (f, h0) k) as [_|Hk]; [reflexivity|]. exfalso. apply Hk. destruct k; simpl in *; subst; reflexivity.
        * destruct (key_dec (f, h0) k) as [Hk|_]; [|reflexivity]. exfalso. apply Hf. subst k. reflexivity.
      + match goal with |- (?a + _)%nat = _ => assert (Hz : a = 0%nat) end.
        { destruct (rel_of f hd0) as [n'|]; [|reflexivity]. destruct (N.eqb n' n); [|reflexivity].
          simpl. destruct (key_dec (f, h0) k) as [Hk|_]; [|reflexivity]. exfalso. apply Hh. subst k. reflexivity. }
        rewrite Hz. reflexivity.
  Qed.

  Lemma cnt_scan_list (l : list (uid * inst)) n (k : key) :
    NoDup (map fst l) ->
    (forall f i, In (f, i) l -> NoDup (map fst (i_heads i))) ->
    cnt (flat_map (fun p => if is_listening (i_st (snd p))
                            then scan_heads prog (fst p) n (i_heads (snd p)) else []) l) k
    = match aget N.eqb l (fst k) with
      | Some i => if is_listening (i_st i) && rel_is (fst k) n (aget N.eqb (i_heads i) (snd k)) then 1%nat else 0%nat
      | None => 0%nat
      end.
  Proof.
    induction l as [|[f0 i0] t IH]; simpl; intros Hnd Hh; [reflexivity|].
    inversion Hnd as [|? ? Hni Hnd']; subst.
    rewrite cnt_app, (IH Hnd') by (intros f i Hin; apply (Hh f i); right; exact Hin). clear IH.
    assert (Hblock : cnt (if is_listening (i_st i0) then scan_heads prog f0 n (i_heads i0) else []) k
                     = if is_listening (i_st i0) && (N.eqb f0 (fst k) && rel_is f0 n (aget N.eqb (i_heads i0) (snd k)))
                       then 1%nat else 0%nat).
    { destruct (is_listening (i_st i0)); simpl; [|reflexivity].
      apply cnt_scan_heads. apply (Hh f0 i0). left. reflexivity. }
    rewrite Hblock. destruct (N.eqb_spec f0 (fst k)) as [Hf|Hf].
    - assert (Hnone : aget N.eqb t (fst k) = None).
      { destruct (aget N.eqb t (fst k)) eqn:E; [|reflexivity]. exfalso. apply Hni.
        apply Ng_Some_in in E. rewrite Hf. apply in_map_iff. exists (fst k, i). split; [reflexivity | exact E]. }
      rewrite Hnone, Hf. simpl. rewrite Nat.add_0_r. reflexivity.
    - simpl. rewrite andb_false_r. reflexivity.
  Qed.

  Lemma cnt_scan s n k : WF s -> cnt (scan s n) k = if scanb s n k then 1%nat else 0%nat.
  Proof.
    intros [Hn Hh]. unfold Index.scan. rewrite cnt_scan_list; [|exact Hn|].
    2:{ intros f i Hin. apply (Hh f). unfold find_inst. apply Ng_in; assumption. }
    unfold Index.scanb, listening, Index.relevant, find_head, find_inst.
    destruct (aget N.eqb (insts s) (fst k)) as [i|]; [|reflexivity].
    unfold rel_is. destruct (is_listening (i_st i)); [|reflexivity]. simpl.
    destruct (aget N.eqb (i_heads i) (snd k)); reflexivity.
  Qed.

  (* ------------------------------------------------------------------ consequences of Inv *)

  Lemma inv_count s n k : Inv s -> cnt (ix_get s n) k = regd s n k.
  Proof. intro HI. exact (inv_cnt _ HI n k). Qed.

  (* always: no duplicates, no entry a scan ignoring `stopping` would not find, no missed head *)
  Theorem index_sandwich s :
    Inv s ->
    forall n k,
      (cnt (ix_get s n) k <= 1)%nat /\
      (scanb s n k = true -> cnt (ix_get s n) k = 1%nat) /\
      (cnt (ix_get s n) k = 1%nat -> relevant s k = Some n).
  Proof.
    intros HI n k. rewrite (inv_count _ _ _ HI). unfold regd. repeat split.
    - destruct (rev_get s k); [destruct (N.eqb n0 n)|]; lia.
    - intro Hs. unfold Index.scanb in Hs. apply andb_true_iff in Hs. destruct Hs as [Hl Hr].
      destruct (relevant s k) as [n'|] eqn:Er; [|discriminate]. apply N.eqb_eq in Hr. subst n'.
      rewrite (inv_complete _ HI _ _ Er Hl), N.eqb_refl. reflexivity.
    - destruct (rev_get s k) as [n'|] eqn:Er; [|discriminate].
      destruct (N.eqb_spec n' n) as [->|]; [|discriminate]. intros _. exact (inv_sound _ HI _ _ Er).
  Qed.

  (* an instance that holds a head is listening unless some instance is `stopping` *)
  Theorem index_exact s :
    Inv s -> no_stopping s ->
    forall n k, cnt (ix_get s n) k = cnt (scan s n) k.
  Proof.
    intros HI Hns n k. rewrite (cnt_scan _ _ _ (inv_wf _ HI)), (inv_count _ _ _ HI). unfold regd.
    destruct (scanb s n k) eqn:Es.
    - unfold Index.scanb in Es. apply andb_true_iff in Es. destruct Es as [Hl Hr].
      destruct (relevant s k) as [n'|] eqn:Er; [|discriminate]. apply N.eqb_eq in Hr. subst n'.
      rewrite (inv_complete _ HI _ _ Er Hl), N.eqb_refl. reflexivity.
    - destruct (rev_get s k) as [n'|] eqn:Er; [|reflexivity].
      destruct (N.eqb_spec n' n) as [->|]; [|reflexivity]. exfalso.
      pose proof (inv_sound _ HI _ _ Er) as Hs.
      unfold Index.scanb in Es. rewrite Hs, N.eqb_refl, andb_true_r in Es.
      rewrite relevant_eq in Hs. unfold find_head in Hs. unfold listening in Es.
      destruct (find_inst s (fst k)) as [i|] eqn:Ei; [|discriminate].
      destruct (aget N.eqb (i_heads i) (snd k)) as [hd|] eqn:Eh; [|discriminate].
      pose proof (has_head_not_done _ _ _ _ _ HI Ei Eh) as Hnd.
      pose proof (Hns _ _ Ei) as Hst. unfold is_listening in Es. unfold is_done in Hnd.
      destruct (cls (i_st i)); [discriminate | apply Hst; reflexivity | discriminate].
  Qed.

  Lemma cnt_pos_in (l : list key) k : (cnt l k >= 1)%nat <-> In k l.
  Proof. split; intro H; [apply (count_occ_In key_dec); lia | apply (count_occ_In key_dec) in H; lia]. Qed.

  (* the reverse map is exactly the inverse of the index *)
  Theorem rev_exact s : Inv s -> forall k n, rev_get s k = Some n <-> In k (ix_get s n).
  Proof.
    intros HI k n. rewrite <- cnt_pos_in, (inv_count _ _ _ HI). unfold regd. split.
    - intro H. rewrite H, N.eqb_refl. lia.
    - destruct (rev_get s k) as [n'|]; [|lia]. destruct (N.eqb_spec n' n) as [->|]; [reflexivity | lia].
  Qed.

  (* dispatch never reaches a dead instance or a missing head *)
  Theorem no_dispatch_to_dead s :
    Inv s ->
    forall n k, In k (ix_get s n) ->
      exists i hd, find_inst s (fst k) = Some i /\ is_done (i_st i) = false /\
                   aget N.eqb (i_heads i) (snd k) = Some hd /\ h_st hd <> HInactive /\
                   prog (fst k) (h_pos hd) = Some (EMatch n).
  Proof.
    intros HI n k Hin. apply (rev_exact _ HI) in Hin. pose proof (inv_sound _ HI _ _ Hin) as Hs.
    rewrite relevant_eq in Hs. unfold find_head in Hs.
    destruct (find_inst s (fst k)) as [i|] eqn:Ei; [|discriminate].
    destruct (aget N.eqb (i_heads i) (snd k)) as [hd|] eqn:Eh; [|discriminate].
    exists i, hd. repeat split; auto.
    - exact (has_head_not_done _ _ _ _ _ HI Ei Eh).
    - unfold Index.rel_of in Hs. intro X. rewrite X in Hs. discriminate.
    - unfold Index.rel_of in Hs. destruct (h_st hd); try discriminate;
        destruct (prog (fst k) (h_pos hd)) as [[]|]; try discriminate; inversion Hs; reflexivity.
  Qed.

  Theorem done_no_heads s : Inv s -> forall f i, find_inst s f = Some i -> is_done (i_st i) = true -> i_heads i = [].
  Proof. intro HI. exact (inv_done _ HI). Qed.

  (* quiescence excludes `stopping` instances, so at a quiescent state the index is exact *)
  Lemma quiescent_no_stopping sn : quiescentb prog sn = true -> no_stopping (sn_state sn).
  Proof.
    intros Hq f i Hf Hst. unfold quiescentb in Hq. apply andb_true_iff in Hq. destruct Hq as [_ Hq].
    rewrite forallb_forall in Hq. unfold find_inst in Hf. apply Ng_Some_in in Hf.
    specialize (Hq _ Hf). unfold inst_quiescent in Hq. rewrite Hst in Hq. discriminate.
  Qed.

  Theorem quiescent_exact sn :
    Inv (sn_state sn) -> quiescentb prog sn = true ->
    forall n k, cnt (ix_get (sn_state sn) n) k = cnt (scan (sn_state sn) n) k.
  Proof. intros HI Hq. apply index_exact; [exact HI | exact (quiescent_no_stopping _ Hq)]. Qed.

  (* every finite sequence of operations from the empty state *)
  Theorem reachable_inv ops s : run empty_state ops = Ok s -> Inv s.
  Proof. apply run_inv. exact empty_inv. Qed.
End Proofs.

(* ------------------------------------------------------------------ statements over all finite runs *)

Lemma reachable_index_exact prog ops s :
  run prog empty_state ops = Ok s -> no_stopping s ->
  forall n k, count_occ key_dec (ix_get s n) k = count_occ key_dec (scan prog s n) k.
Proof. intros H. apply index_exact. exact (reachable_inv prog ops s H). Qed.

Lemma reachable_index_sandwich prog ops s :
  run prog empty_state ops = Ok s ->
  forall n k,
    (count_occ key_dec (ix_get s n) k <= 1)%nat /\
    (scanb prog s n k = true -> count_occ key_dec (ix_get s n) k = 1%nat) /\
    (count_occ key_dec (ix_get s n) k = 1%nat -> relevant prog s k = Some n).
Proof. intros H. apply index_sandwich. exact (reachable_inv prog ops s H). Qed.

Lemma reachable_rev_exact prog ops s :
  run prog empty_state ops = Ok s ->
  forall k n, rev_get s k = Some n <-> In k (ix_get s n).
Proof. intros H. apply (rev_exact prog). exact (reachable_inv prog ops s H). Qed.

Lemma reachable_no_dispatch_to_dead prog ops s :
  run prog empty_state ops = Ok s ->
  forall n k, In k (ix_get s n) ->
    exists i hd, find_inst s (fst k) = Some i /\ is_done (i_st i) = false /\
                 aget N.eqb (i_heads i) (snd k) = Some hd /\ h_st hd <> HInactive /\
                 prog (fst k) (h_pos hd) = Some (EMatch n).
Proof. intros H. apply no_dispatch_to_dead. exact (reachable_inv prog ops s H). Qed.

Lemma reachable_done_no_heads prog ops s :
  run prog empty_state ops = Ok s ->
  forall f i, find_inst s f = Some i -> is_done (i_st i) = true -> i_heads i = [].
Proof. intros H. apply (done_no_heads prog). exact (reachable_inv prog ops s H). Qed.

Lemma reachable_quiescent_exact prog ops sn :
  run prog empty_state ops = Ok (sn_state sn) -> quiescentb prog sn = true ->
  forall n k, count_occ key_dec (ix_get (sn_state sn) n) k = count_occ key_dec (scan prog (sn_state sn) n) k.
Proof. intros H. apply quiescent_exact. exact (reachable_inv prog ops _ H). Qed.

(* a run may also continue from any state that satisfies the invariant (a snapshot) *)
Lemma continued_index_exact prog s0 ops s :
  Inv prog s0 -> run prog s0 ops = Ok s -> no_stopping s ->
  forall n k, count_occ key_dec (ix_get s n) k = count_occ key_dec (scan prog s n) k.
Proof. intros H0 H. apply index_exact. exact (run_inv prog ops s0 s H0 H). Qed.
