(* V2/Life_fuel.v - running out of fuel is excluded by the well-foundedness of the children
   relation: with fuel above the rank of f, abort / finish / end_scope never return EFuel. *)
From Coq Require Import ZArith NArith List Bool Lia.
From NG Require Import V2.Life V2.Life_proofs.
Import ListNotations.
Open Scope N_scope.

Lemma bind_fuel : forall A B (r : res A) (k : A -> res B),
  bind r k = Err EFuel -> r = Err EFuel \/ exists a, r = Ok a /\ k a = Err EFuel.
Proof. intros A B [a|e] k H; simpl in H; [right; eauto|left; inversion H; auto]. Qed.

Lemma stop_action_nofuel : forall s a, stop_action s a <> Err EFuel.
Proof.
  unfold stop_action; intros s a. destruct (geta s a); try discriminate.
  destruct (active (a_status a0)); try discriminate. destruct (a_count a0 - 1 =? 0)%Z; discriminate.
Qed.

Lemma stop_actions_nofuel : forall l s, stop_actions l s <> Err EFuel.
Proof.
  induction l as [|a l IH]; simpl; intros s H; try discriminate.
  apply bind_fuel in H. destruct H as [H|(s0 & _ & H)]; [eapply stop_action_nofuel; eauto|eapply IH; eauto].
Qed.

Lemma unlink_nofuel : forall s f, unlink s f <> Err EFuel.
Proof.
  unfold unlink; intros s f. destruct (getf s f); try discriminate.
  destruct (i_activated i =? 0)%Z; try discriminate. destruct (i_parent i); try discriminate.
  destruct (getf s u); try discriminate. destruct (remove1 f (i_children i0)); discriminate.
Qed.

Lemma restart_nofuel : forall s f d, restart s f d <> Err EFuel.
Proof.
  unfold restart; intros s f d. destruct (getf s f); try discriminate.
  destruct (negb d && (0 <? i_activated i)%Z && negb (i_nis i)); try discriminate.
  destruct (i_parent i); simpl; try discriminate. destruct (getf s u); simpl; discriminate.
Qed.

Lemma epilogue_abort_nofuel : forall s f d, epilogue_abort s f d <> Err EFuel.
Proof.
  unfold epilogue_abort; intros s f d H. apply bind_fuel in H.
  destruct H as [H|(s0 & _ & H)]; [eapply unlink_nofuel; eauto|eapply restart_nofuel; eauto].
Qed.

Lemma epilogue_finish_nofuel : forall s f d, epilogue_finish s f d <> Err EFuel.
Proof.
  unfold epilogue_finish; intros s f d H. destruct (getf s f); try discriminate.
  destruct (N.eqb (i_flow i) main_id); try discriminate. apply bind_fuel in H.
  destruct H as [H|(s0 & _ & H)]; [eapply unlink_nofuel; eauto|eapply restart_nofuel; eauto].
Qed.

Section Fuel.
  Variable rk : uid -> nat.
  Variable m : nat.
  Variable ab : st -> uid -> bool -> res st.
  Hypothesis Hab1 : forall (R A : uid -> Prop) s c d s',
    ranked rk s -> closed R s -> owns R A s -> R c -> ab s c d = Ok s' -> Srel R A s s'.
  Hypothesis Habf : forall s c d, ranked rk s -> (rk c < m)%nat -> ab s c d <> Err EFuel.

  Lemma ab_ranked : forall s c d s', ranked rk s -> ab s c d = Ok s' -> ranked rk s'.
  Proof.
    intros s c d s' Hr H. eapply srel_ranked; [|exact Hr].
    eapply (Hab1 anyR anyA); eauto using anyR_closed, anyA_owns. exact I.
  Qed.

  Lemma abort_same_nofuel : forall fid l s,
    ranked rk s -> Forall (fun c => (rk c < m)%nat) l -> abort_same ab fid l s <> Err EFuel.
  Proof.
    induction l as [|c l IH]; simpl; intros s Hr Hl H; try discriminate.
    inversion Hl; subst. destruct (getf s c) as [ci|]; try discriminate.
    destruct (N.eqb (i_flow ci) fid); [|eapply IH; eauto].
    apply bind_fuel in H. destruct H as [H|(s0 & H0 & H)]; [eapply Habf; eauto|].
    eapply IH; [| |exact H]; auto.
    eapply srel_ranked; [apply (modf_srel_activated0 anyR anyA); exact I|]. eapply ab_ranked; eauto.
  Qed.

  Lemma abort_children_nofuel : forall l s,
    ranked rk s -> Forall (fun c => (rk c < m)%nat) l -> abort_children ab l s <> Err EFuel.
  Proof.
    induction l as [|c l IH]; simpl; intros s Hr Hl H; try discriminate.
    inversion Hl; subst. destruct (getf s c) as [ci|]; [|eapply IH; eauto].
    destruct (is_child_activated s ci); [eapply IH; eauto|].
    apply bind_fuel in H. destruct H as [H|(s0 & H0 & H)]; [eapply Habf; eauto|].
    eapply IH; [| |exact H]; auto. eapply ab_ranked; eauto.
  Qed.

  Lemma scope_flows_nofuel : forall l s,
    ranked rk s -> Forall (fun c => (rk c < m)%nat) l -> scope_flows ab l s <> Err EFuel.
  Proof.
    induction l as [|c l IH]; simpl; intros s Hr Hl H; try discriminate.
    inversion Hl; subst. destruct (getf s c) as [ci|]; [|eapply IH; eauto].
    destruct (listening (i_status ci)); [|eapply IH; eauto].
    apply bind_fuel in H. destruct H as [H|(s0 & H0 & H)]; [eapply Habf; eauto|].
    eapply IH; [| |exact H]; auto. eapply ab_ranked; eauto.
  Qed.

  Lemma prologue_nofuel : forall skip s f d,
    ranked rk s -> (rk f <= m)%nat -> prologue ab skip s f d <> Err EFuel.
  Proof.
    unfold prologue; intros skip s f d Hr Hf H.
    apply bind_fuel in H. destruct H as [H|([s1 b] & Hd & H)].
    - unfold deactivate in H. destruct (getf s f) as [i|] eqn:E; try discriminate.
      apply bind_fuel in H. destruct H as [H|(isref & Hi & H)].
      + destruct d; try discriminate. unfold is_ref_activated in H.
        destruct (0 <? i_activated i)%Z; try discriminate. destruct (i_parent i); try discriminate.
        destruct (getf s u); discriminate.
      + destruct isref; try discriminate. destruct (i_activated i - 1 =? 0)%Z; try discriminate.
        apply bind_fuel in H. destruct H as [H|(s2 & _ & H)]; try discriminate.
        eapply abort_same_nofuel; [| |exact H].
        * eapply srel_ranked; [|exact Hr]. rewrite (modf_some _ _ _ _ E).
          apply (srel_set_activated anyR anyA); unfold anyR; auto.
          destruct d; try discriminate. unfold is_ref_activated in Hi.
          destruct (0 <? i_activated i)%Z eqn:Ez; [apply Z.ltb_lt in Ez; right; split; auto|discriminate].
        * apply Forall_forall. intros c Hin. specialize (Hr _ _ _ E Hin). lia.
    - simpl in H. destruct b; try discriminate.
      assert (Hr1 : ranked rk s1).
      { eapply srel_ranked; [|exact Hr].
        eapply (deactivate_srel rk ab Hab1 anyR anyA); eauto using anyR_closed, anyA_owns; exact I. }
      destruct (getf s1 f) as [i1|] eqn:E1; try discriminate.
      destruct (skip (i_status i1)); try discriminate.
      apply bind_fuel in H. destruct H as [H|(s2 & _ & H)].
      + eapply abort_children_nofuel; [| |exact H]; auto.
        apply Forall_forall. intros c Hin. specialize (Hr1 _ _ _ E1 Hin). lia.
      + destruct (getf s2 f); try discriminate.
        apply bind_fuel in H. destruct H as [H|(s3 & _ & H)]; try discriminate.
        eapply stop_actions_nofuel; eauto.
  Qed.
End Fuel.

Theorem abort_nofuel : forall rk n s f d,
  ranked rk s -> (rk f < n)%nat -> abort n s f d <> Err EFuel.
Proof.
  induction n as [|n IH]; simpl; intros s f d Hr Hf H; [lia|].
  apply bind_fuel in H. destruct H as [H|([s3 go] & _ & H)].
  - eapply (prologue_nofuel rk n (abort n) (abort_srel rk n)); [| | |exact H]; auto. lia.
  - simpl in H. destruct go; try discriminate. eapply epilogue_abort_nofuel; eauto.
Qed.

Theorem finish_nofuel : forall rk n s f d,
  ranked rk s -> (rk f <= n)%nat -> finish n s f d <> Err EFuel.
Proof.
  unfold finish; intros rk n s f d Hr Hf H.
  apply bind_fuel in H. destruct H as [H|([s3 go] & _ & H)].
  - eapply (prologue_nofuel rk n (abort n) (abort_srel rk n)); [| | |exact H]; auto.
    intros. apply (abort_nofuel rk); auto.
  - simpl in H. destruct go; try discriminate. eapply epilogue_finish_nofuel; eauto.
Qed.
