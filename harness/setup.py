"""Clean build of everything under coq/theories (full .vo build, never -vos)."""
import os
import shutil
import sys

sys.path.insert(0, os.path.dirname(os.path.dirname(os.path.abspath(__file__))))
from harness import common as C  # noqa: E402


def main():
    clean = "--no-clean" not in sys.argv
    with C.BuildLock():
        if clean:
            for root, _d, files in os.walk(C.THEORIES):
                for fn in files:
                    if fn.endswith((".vo", ".vok", ".vos", ".glob", ".aux")):
                        os.remove(os.path.join(root, fn))
            shutil.rmtree(os.path.join(C.BUILD, "cases"), ignore_errors=True)
            for fn in ("Makefile", "Makefile.conf", ".Makefile.d", "_CoqProject"):
                p = os.path.join(C.COQ, fn)
                if os.path.exists(p):
                    os.remove(p)
        g = C.regen(None)
        bad = {k: v for k, v in g.items() if v}
        for k, v in bad.items():
            print(f"[setup] translator {k} failed: {v}")
        C.write_coqproject()
        targets = [f[:-2] + ".vo" for f in C.all_theory_files()]
        rc, out = C.sh(["make", "-k", "-j", str(C.NPROC)] + targets, cwd=C.COQ, timeout=3600)
        print(out[-4000:])
        # a failing proof is reported by the property's own check; setup only needs the toolchain to work
        print(f"[setup] make rc={rc}; {len(targets)} targets")
    return 0


if __name__ == "__main__":
    sys.exit(main())
