(* C12 (Colang 1.0) - executable checks used by the correspondence (harness/c12.py):
   check_compile : the model's `compile` on an item tree equals what the real
                   parse_flow_elements returned (types, every offset, _absolute, _label; or the
                   same exception class);
   offsets_okb   : boolean reading of the closedness predicate on a flat element list, run on
                   the elements the real parser produced for every shipped .co file. *)
From Coq Require Import ZArith List String Bool.
From NG Require Import V1.CompileItems V1.Compile.
Import ListNotations.
Open Scope Z_scope.

Definition res_eqb (r x : res (list elem)) : bool :=
  match r, x with
  | Ok a, Ok b => list_eqb elem_eqb a b
  | Err DupLabel, Err DupLabel => true
  | Err UndefLabel, Err UndefLabel => true
  | _, _ => false
  end.

Definition check_compile (c : list item * res (list elem)) : bool :=
  let '(items, expected) := c in res_eqb (compile items) expected.

Definition inb (lo hi x : Z) : bool := (lo <=? x) && (x <=? hi).

Definition opt_allb (o : option Z) (p : Z -> bool) : bool :=
  match o with Some n => p n | None => true end.

Definition shape_okb (e : elem) : bool :=
  (negb (e_abs e) || match e_type e with TJump => true | _ => false end) &&
  match e_type e with
  | TIf => match e_else e with Some _ => true | None => false end
  | TWhile => match e_brk e with Some _ => true | None => false end
  | TJump => match e_next e with Some _ => true | None => false end
  | TLabel _ | TGoto _ => false
  | _ => true
  end.

Definition in_rangeb (len i : Z) (e : elem) : bool :=
  opt_allb (e_next e) (fun n => if e_abs e then inb (-1) len n else inb 0 len (i + n)) &&
  opt_allb (e_else e) (fun n => inb 0 len (i + n)) &&
  opt_allb (e_brk e) (fun n => inb 0 len (i + n)) &&
  opt_allb (e_cont e) (fun n => inb 0 len (i + n)) &&
  forallb (fun h => inb 0 (len - 1) (i + h)) (e_heads e) &&
  shape_okb e.

Fixpoint wf_fromb (len i : Z) (es : list elem) : bool :=
  match es with
  | [] => true
  | e :: r => in_rangeb len i e && wf_fromb len (i + 1) r
  end.

Definition offsets_okb (es : list elem) : bool := wf_fromb (zlen es) 0 es.

(* one case of the shipped-file check: the elements of a real compiled flow *)
Definition check_offsets (es : list elem) : bool := offsets_okb es.
