(* C10 part 2 proofs: with the repaired restart logic every event cascade of a program accepted by
   cascade_cert_ok ends within phi(state) steps; with the unchanged logic it does not. *)
From Coq Require Import List Arith Bool Lia.
From NG Require Import V2.Term V2.Term_proofs V2.Cascade.
Import ListNotations.

Definition starts_cost (prog : program) (certs : list fcert) (l : list (flowid * bool)) : nat :=
  list_sum (map (fun fa => 1 + newpot prog certs (fst fa)) l).

Lemma starts_cost_app : forall prog certs a b,
  starts_cost prog certs (a ++ b) = starts_cost prog certs a + starts_cost prog certs b.
Proof. intros. unfold starts_cost. rewrite map_app, list_sum_app. reflexivity. Qed.

Lemma exec_cont_cost : forall prog certs f es o pos cs e pos' cs' st ni,
  exec_elem es o pos cs e = Cont pos' cs' st ni ->
  (match st with Some ga => 1 + newpot prog certs (fst ga) | None => 0 end) +
  (if ni then 1 + newpot prog certs f else 0) <= ecost prog certs f e /\
  (forall g, st = Some (g, true) -> e = EStart g true).
Proof.
  intros prog certs f es o pos cs e pos' cs' st ni H.
  destruct o; [| |simpl in H; discriminate];
    destruct e; simpl in H;
    repeat match type of H with
           | context [match ?x with _ => _ end] => destruct x eqn:?; try discriminate
           end; inversion H; subst; simpl; (split; [lia|]); intros g Hg; try discriminate;
    inversion Hg; subst; reflexivity.
Qed.

Lemma exec_cont_pos : forall es o pos cs e pos' cs' st ni,
  exec_elem es o pos cs e = Cont pos' cs' st ni -> 1 <= pos'.
Proof.
  intros es o pos cs e pos' cs' st ni H.
  destruct o; [| |simpl in H; discriminate];
    destruct e; simpl in H;
    repeat match type of H with
           | context [match ?x with _ => _ end] => destruct x eqn:?; try discriminate
           end; inversion H; subst; lia.
Qed.

Lemma exec_stop_kinds : forall es o pos cs e s,
  exec_elem es o pos cs e = Stop s ->
  match s with
  | Blocked p => p = pos /\ is_stop e = true
  | Forked _ _ => exists ls, e = EFork ls
  | OutOfFuel => False
  | _ => True
  end.
Proof.
  intros es o pos cs e s H.
  destruct o; destruct e; simpl in H;
    repeat match type of H with
           | context [match ?x with _ => _ end] => destruct x eqn:?; try discriminate
           end; inversion H; subst; simpl; auto; eauto.
Qed.

Lemma no_fork_nth : forall es p ls, no_fork es = true -> nth_error es p = Some (EFork ls) -> False.
Proof.
  intros es p ls H Hn. unfold no_fork in H. rewrite forallb_forall in H.
  apply nth_error_In in Hn. specialize (H _ Hn). discriminate.
Qed.

Lemma wat_lt : forall w len p, p < len -> wat w len p = nth p w 0.
Proof. intros. unfold wat. destruct (Nat.ltb_spec p len); [reflexivity|lia]. Qed.
Lemma wat_ge : forall w len p, len <= p -> wat w len p = 0.
Proof. intros. unfold wat. destruct (Nat.ltb_spec p len); [lia|reflexivity]. Qed.

(* what the weight check says about one cascade step *)
Lemma check_w_step : forall prog certs f es ct p e q s,
  check_w prog certs f es ct = true -> nth_error es p = Some e ->
  In (q, s) (succ_cfg true es (f_stk ct) p) ->
  1 + ecost prog certs f e + wat (f_w ct) (length es) q <= wat (f_w ct) (length es) p.
Proof.
  intros prog certs f es ct p e q s Hc Hn Hin.
  assert (Hlt : p < length es) by (apply nth_error_Some; congruence).
  unfold check_w in Hc. rewrite forallb_forall in Hc.
  assert (Hi : In p (seq 0 (length es))) by (apply in_seq; lia).
  specialize (Hc p Hi). rewrite Hn in Hc. rewrite forallb_forall in Hc.
  specialize (Hc _ Hin). apply Nat.leb_le in Hc. simpl in Hc. simpl. lia.
Qed.

Lemma check_clean_step : forall es stk cl p q s,
  check_clean es stk cl = true -> p < length es -> nth p cl false = true ->
  In (q, s) (succ_cfg true es stk p) -> q < length es -> nth q cl false = true.
Proof.
  intros es stk cl p q s Hc Hp Hcl Hin Hq.
  unfold check_clean in Hc. rewrite forallb_forall in Hc.
  assert (Hi : In p (seq 0 (length es))) by (apply in_seq; lia).
  specialize (Hc p Hi). rewrite Hcl in Hc. simpl in Hc.
  apply andb_true_iff in Hc. destruct Hc as [_ Hc]. rewrite forallb_forall in Hc.
  specialize (Hc _ Hin). simpl in Hc. apply orb_true_iff in Hc. destruct Hc as [Hc|Hc]; [|assumption].
  apply Nat.leb_le in Hc. lia.
Qed.

Lemma check_clean_not_waitint : forall es stk cl p,
  check_clean es stk cl = true -> nth p cl false = true -> nth_error es p = Some (EWaitInt true) -> p = 0.
Proof.
  intros es stk cl p Hc Hcl Hn.
  assert (Hp : p < length es) by (apply nth_error_Some; congruence).
  unfold check_clean in Hc. rewrite forallb_forall in Hc.
  assert (Hi : In p (seq 0 (length es))) by (apply in_seq; lia).
  specialize (Hc p Hi). rewrite Hcl, Hn in Hc. simpl in Hc.
  apply andb_true_iff in Hc. destruct Hc as [Hc _]. apply Nat.eqb_eq in Hc. assumption.
Qed.

Lemma conts_in_succ : forall ti es stk p e s q s',
  nth_error es p = Some e -> stk_at stk p = Some s -> In (q, s') (conts es s p e) ->
  In (q, s') (succ_cfg ti es stk p).
Proof. intros. unfold succ_cfg. rewrite H, H0. apply in_or_app. left. assumption. Qed.

Lemma resume_in_succ : forall es stk p e s,
  nth_error es p = Some e -> stk_at stk p = Some s -> is_stop e = true -> wakes e = true ->
  In (S p, s) (succ_cfg true es stk p).
Proof.
  intros es stk p e s Hn Hs Hst Hw. unfold succ_cfg. rewrite Hn, Hs. apply in_or_app. right.
  simpl. rewrite Hw. destruct e; simpl in *; try discriminate.
  - destruct k; simpl; auto.
  - left; reflexivity.
  - left; reflexivity.
Qed.

Section SlidePot.
  Variables (prog : program) (certs : list fcert) (f : flowid) (es : list elem) (ct : fcert) (cl : list bool).
  Hypothesis Hprog : nth_error prog f = Some es.
  Hypothesis Hcert : check_cert true es (f_rank ct) (f_stk ct) = true.
  Hypothesis Hw : check_w prog certs f es ct = true.
  Hypothesis Hclean : check_clean es (f_stk ct) cl = true.
  Hypothesis Hnf : no_fork es = true.

  Local Notation len := (length es).
  Local Notation w := (f_w ct).

  Lemma slide_pot : forall fuel orc k pos cs starts ni,
    (pos < len -> stk_at (f_stk ct) pos = Some cs) ->
    (pos < len -> rank_at (f_rank ct) pos < fuel) -> 0 < fuel ->
    let res := slide_fuel fuel es orc k pos cs starts ni in
    s_stop res <> OutOfFuel /\
    (forall p ts, s_stop res <> Forked p ts) /\
    (exists new, s_starts res = starts ++ new /\
       (forall g, In (g, true) new -> activatable prog g = true) /\
       starts_cost prog certs new + (if s_newinst res && negb ni then 1 + newpot prog certs f else 0)
       + (match s_stop res with Blocked p => wat w len p | _ => 0 end) <= wat w len pos) /\
    (forall p, s_stop res = Blocked p ->
       p < len /\ stk_at (f_stk ct) p = Some (s_catch res) /\
       (exists e, nth_error es p = Some e /\ is_stop e = true) /\
       ((pos < len -> nth pos cl false = true) -> nth p cl false = true) /\
       (1 <= pos -> 1 <= p)).
  Proof.
    induction fuel as [|fuel IH]; intros orc k pos cs starts ni Hcs Hrk Hpos; [lia|].
    simpl. destruct (nth_error es pos) as [e|] eqn:Hnth.
    2:{ simpl. split; [discriminate|]. split; [discriminate|]. split.
        - exists []. rewrite app_nil_r. split; [reflexivity|]. split; [intros g []|].
          rewrite andb_negb_r. unfold starts_cost. simpl. lia.
        - intros p Hp. discriminate. }
    assert (Hlt : pos < len) by (apply nth_error_Some; congruence).
    destruct (exec_elem es (orc k) pos cs e) as [pos' cs' st ni'|s] eqn:Hex.
    - (* continue *)
      destruct (cert_step true es (f_rank ct) (f_stk ct) (orc k) pos cs e pos' cs' st ni' Hcert Hnth (Hcs Hlt) Hex)
        as [Hdec [Hle Hstk']].
      pose proof (exec_cont_in_conts _ _ _ _ _ _ _ _ _ Hex) as Hinc.
      pose proof (conts_in_succ true _ _ _ _ _ _ _ Hnth (Hcs Hlt) Hinc) as Hins.
      pose proof (check_w_step _ _ _ _ _ _ _ _ _ Hw Hnth Hins) as Hwstep.
      destruct (exec_cont_cost prog certs f _ _ _ _ _ _ _ _ _ Hex) as [Hcost Hact].
      specialize (Hrk Hlt).
      assert (Hrk' : pos' < len -> rank_at (f_rank ct) pos' < fuel).
      { intros Hp'. rewrite Nat.min_l in Hdec by lia. lia. }
      assert (Hfuel : 0 < fuel) by lia.
      specialize (IH orc (S k) pos' cs'
                     (match st with Some x => starts ++ [x] | None => starts end) (ni || ni') Hstk' Hrk' Hfuel).
      cbv zeta in IH. destruct IH as [I1 [I2 [[new [Hs [Hact' Hc]]] I4]]].
      split; [assumption|]. split; [assumption|]. split.
      + exists (match st with Some x => [x] | None => [] end ++ new). split; [|split].
        * rewrite Hs. destruct st; [rewrite <- app_assoc; reflexivity | reflexivity].
        * intros g Hg. apply in_app_or in Hg. destruct Hg as [Hg|Hg]; [|apply Hact'; assumption].
          destruct st as [[g0 a0]|]; [|destruct Hg]. destruct Hg as [Hg|[]]. inversion Hg; subst.
          specialize (Hact g eq_refl). subst e.
          unfold activatable. apply existsb_exists. exists es. split; [eapply nth_error_In; eassumption|].
          apply existsb_exists. exists (EStart g true). split; [eapply nth_error_In; eassumption|].
          apply Nat.eqb_refl.
        * rewrite starts_cost_app.
          assert (Hst : starts_cost prog certs (match st with Some x => [x] | None => [] end)
                        = match st with Some ga => 1 + newpot prog certs (fst ga) | None => 0 end).
          { destruct st; unfold starts_cost; simpl; lia. }
          rewrite Hst.
          set (R := slide_fuel fuel es orc (S k) pos' cs'
                               (match st with Some x => starts ++ [x] | None => starts end) (ni || ni')) in *.
          destruct (s_newinst R), ni, ni'; simpl in *; lia.
      + intros p Hp. destruct (I4 p Hp) as [J1 [J2 [J3 [J4 J5]]]].
        split; [assumption|]. split; [assumption|]. split; [assumption|]. split.
        * intros Hcl. apply J4. intros Hp'.
          eapply (check_clean_step es (f_stk ct) cl pos pos' cs' Hclean Hlt (Hcl Hlt) Hins Hp').
        * intros _. apply J5. eapply exec_cont_pos; eassumption.
    - (* stop *)
      simpl. pose proof (exec_stop_kinds _ _ _ _ _ _ Hex) as Hk.
      split; [destruct s; try discriminate; contradiction|].
      split.
      { intros p ts Heq. subst s. destruct Hk as [ls Hk]. subst e. eapply no_fork_nth; eauto. }
      split.
      + exists []. rewrite app_nil_r. split; [reflexivity|]. split; [intros g []|].
        rewrite andb_negb_r. unfold starts_cost. simpl.
        destruct s; try lia. destruct Hk as [Hk _]. subst. lia.
      + intros p Hp. subst s. destruct Hk as [Hk1 Hk2]. subst p.
        split; [assumption|]. split; [apply Hcs; assumption|]. split; [exists e; auto|]. split.
        * intros Hcl. apply Hcl. assumption.
        * auto.
  Qed.
End SlidePot.

(* ------------------------------------------------------------------------------------------ *)
(* unpacking cascade_cert_ok *)

Lemma forallb_i_nth : forall A (f : nat -> A -> bool) l i k a,
  forallb_i f l i = true -> nth_error l k = Some a -> f (i + k) a = true.
Proof.
  induction l as [|x l IH]; intros i k a H Hn; [destruct k; discriminate|].
  simpl in H. apply andb_true_iff in H. destruct H as [H1 H2].
  destruct k as [|k]; simpl in Hn.
  - inversion Hn; subst. rewrite Nat.add_0_r. assumption.
  - replace (i + S k) with (S i + k) by lia. eapply IH; eauto.
Qed.

Record flow_ok (prog : program) (certs : list fcert) (f : flowid) (es : list elem) (ct : fcert) (cl : list bool) : Prop := {
  fo_cert : nth_error certs f = Some ct;
  fo_nofork : no_fork es = true;
  fo_head : exists tl, es = EWaitInt true :: tl;
  fo_stk0 : stk_at (f_stk ct) 0 = Some [];
  fo_check : check_cert true es (f_rank ct) (f_stk ct) = true;
  fo_w : check_w prog certs f es ct = true;
  fo_clean : check_clean es (f_stk ct) cl = true;
  fo_act : activatable prog f = true -> nth 0 cl false = true
}.

Lemma cert_ok_flow : forall prog certs cleans f es,
  cascade_cert_ok prog certs cleans = true -> nth_error prog f = Some es ->
  exists ct cl, flow_ok prog certs f es ct cl.
Proof.
  intros prog certs cleans f es H Hn. unfold cascade_cert_ok in H.
  apply andb_true_iff in H. destruct H as [_ H].
  pose proof (forallb_i_nth _ _ _ 0 f es H Hn) as Hf. simpl in Hf.
  destruct (nth_error certs f) as [ct|] eqn:Hc; [|discriminate].
  destruct (nth_error cleans f) as [cl|] eqn:Hcl; [|discriminate].
  repeat (apply andb_true_iff in Hf; let H' := fresh "H" in destruct Hf as [Hf H']).
  exists ct, cl. constructor; auto.
  - destruct es as [|e tl]; [discriminate|]. destruct e; try discriminate. destruct started_making; try discriminate. eauto.
  - destruct (stk_at (f_stk ct) 0) as [[|]|]; try discriminate. reflexivity.
  - intros Ha. rewrite Ha in H0. simpl in H0. assumption.
Qed.

(* ------------------------------------------------------------------------------------------ *)
(* well-formed states *)

Section Inv.
  Variables (prog : program) (certs : list fcert) (cleans : list (list bool)).
  Hypothesis Hok : cascade_cert_ok prog certs cleans = true.

  Definition iwf (c : cinst) : Prop :=
    (c_act c = true -> activatable prog (c_flow c) = true) /\
    (listening c = true -> c_inert c = false ->
     exists es ct cl, nth_error prog (c_flow c) = Some es /\ flow_ok prog certs (c_flow c) es ct cl /\
       c_pos c < length es /\ stk_at (f_stk ct) (c_pos c) = Some (c_catch c) /\
       (exists e, nth_error es (c_pos c) = Some e /\ is_stop e = true /\
          (started c = false -> c_act c = true -> nth (c_pos c) cl false = true /\ wakes e = true))).

  Definition ewf (e : cev) : Prop :=
    match e with CStart g true => activatable prog g = true | _ => True end.

  Definition swf (st : cstate) : Prop :=
    Forall iwf (c_insts st) /\ Forall ewf (c_queue st).

  Definition qcost (l : list cev) : nat := list_sum (map (ev_cost prog certs) l).

  Lemma qcost_app : forall a b, qcost (a ++ b) = qcost a + qcost b.
  Proof. intros. unfold qcost. rewrite map_app, list_sum_app. reflexivity. Qed.

  Lemma qcost_starts : forall l,
    qcost (map (fun fa : flowid * bool => CStart (fst fa) (snd fa)) l) = starts_cost prog certs l.
  Proof.
    induction l as [|a l IH]; [reflexivity|]. unfold qcost, starts_cost in *. simpl. rewrite IH. reflexivity.
  Qed.

  Lemma ewf_starts : forall l, (forall g, In (g, true) l -> activatable prog g = true) ->
    Forall ewf (map (fun fa : flowid * bool => CStart (fst fa) (snd fa)) l).
  Proof.
    intros l H. apply Forall_forall. intros e He. apply in_map_iff in He. destruct He as [[g a] [He Hin]].
    subst e. simpl. destruct a; [apply H; assumption | exact I].
  Qed.

  (* the resting potential dominates what a run from the position behind it can cause *)
  Lemma rest_pot : forall f es ct cl p e s,
    flow_ok prog certs f es ct cl -> nth_error es p = Some e -> is_stop e = true -> wakes e = true ->
    stk_at (f_stk ct) p = Some s ->
    1 + wat (f_w ct) (length es) (S p) <= wat (f_w ct) (length es) p.
  Proof.
    intros f es ct cl p e s Hf Hn Hs Hw Hst.
    pose proof (resume_in_succ es (f_stk ct) p e s Hn Hst Hs Hw) as Hin.
    pose proof (check_w_step prog certs f es ct p e (S p) s (fo_w _ _ _ _ _ _ Hf) Hn Hin). lia.
  Qed.

  Lemma resume_stk : forall f es ct cl p e s,
    flow_ok prog certs f es ct cl -> nth_error es p = Some e -> is_stop e = true ->
    stk_at (f_stk ct) p = Some s -> S p < length es -> stk_at (f_stk ct) (S p) = Some s.
  Proof.
    intros f es ct cl p e s Hf Hn Hs Hst Hlt.
    assert (Hp : p < length es) by lia.
    pose proof (check_cert_pos true es _ _ p (fo_check _ _ _ _ _ _ Hf) Hp) as Hc.
    unfold check_pos in Hc. rewrite Hn, Hst in Hc.
    apply andb_true_iff in Hc. destruct Hc as [_ Hc]. rewrite forallb_forall in Hc.
    assert (Hin : In (S p, s) (conts es s p e ++ resumes es s p e)).
    { apply in_or_app. right. destruct e; simpl in Hs; try discriminate; simpl.
      - destruct k; simpl; auto.
      - left; reflexivity.
      - left; reflexivity. }
    specialize (Hc _ Hin). simpl in Hc. unfold stk_ok in Hc.
    apply orb_true_iff in Hc. destruct Hc as [Hc|Hc]; [apply Nat.leb_le in Hc; lia|].
    destruct (stk_at (f_stk ct) (S p)) as [s'|]; [|discriminate]. apply eqb_labels_eq in Hc. congruence.
  Qed.

  Lemma resume_clean : forall f es ct cl p e s,
    flow_ok prog certs f es ct cl -> nth_error es p = Some e -> is_stop e = true -> wakes e = true ->
    stk_at (f_stk ct) p = Some s -> nth p cl false = true -> S p < length es -> nth (S p) cl false = true.
  Proof.
    intros f es ct cl p e s Hf Hn Hs Hw Hst Hcl Hlt.
    pose proof (resume_in_succ es (f_stk ct) p e s Hn Hst Hs Hw) as Hin.
    assert (Hp : p < length es) by lia.
    exact (check_clean_step es (f_stk ct) cl p (S p) s (fo_clean _ _ _ _ _ _ Hf) Hp Hcl Hin Hlt).
  Qed.
End Inv.

Section Steps.
  Variables (prog : program) (certs : list fcert) (cleans : list (list bool)).
  Hypothesis Hok : cascade_cert_ok prog certs cleans = true.

  Local Notation iwf := (iwf prog certs).
  Local Notation ewf := (ewf prog).
  Local Notation qcost := (qcost prog certs).
  Local Notation ipot := (ipot prog certs).

  Lemma ewf_start_if : forall b f a, (a = true -> activatable prog f = true) -> Forall ewf (start_if b f a).
  Proof.
    intros b f a H. destruct b; simpl; [|constructor]. constructor; [|constructor].
    simpl. destruct a; [apply H; reflexivity | exact I].
  Qed.

  Lemma ewf_note_if : forall b, Forall ewf (note_if b).
  Proof. intros []; simpl; repeat constructor. Qed.

  Lemma qcost_note_if : forall b, qcost (note_if b) = if b then 1 else 0.
  Proof. intros []; reflexivity. Qed.

  Lemma qcost_start_if : forall b f a, qcost (start_if b f a) = if b then 1 + newpot prog certs f else 0.
  Proof. intros [] f a; unfold Cascade_proofs.qcost; simpl; lia. Qed.

  Lemma qcost_note : qcost [CNote] = 1. Proof. reflexivity. Qed.

  Lemma wakes_not_bmatch : forall e, is_stop e = true -> e <> EBlock BMatch -> wakes e = true.
  Proof. intros e H Hn. destruct e; simpl in *; try discriminate; auto. destruct k; auto; congruence. Qed.

  Lemma iwf_inert : forall c', (c_act c' = true -> activatable prog (c_flow c') = true) -> c_inert c' = true -> iwf c'.
  Proof. intros c' H Hi. split; [assumption|]. intros _ Hn. congruence. Qed.

  Lemma iwf_dead : forall c', (c_act c' = true -> activatable prog (c_flow c') = true) -> c_status c' = CDead -> iwf c'.
  Proof. intros c' H Hd. split; [assumption|]. unfold listening. rewrite Hd. discriminate. Qed.

  Definition good (c : cinst) (ro : rout) : Prop :=
    iwf (r_inst ro) /\ Forall ewf (r_right ro) /\ Forall ewf (r_left ro) /\
    ipot (r_inst ro) + qcost (r_right ro) + qcost (r_left ro) + 1 <= ipot c.

  Ltac ewf_tac Hnew Hself :=
    repeat (apply Forall_app; split); try exact Hnew; try apply Hself; try apply ewf_note_if;
    try (repeat constructor).

  (* advancing a movable instance: it stays well-formed, pays for everything it emits, and the
     potential drops by at least one *)
  Lemma run_inst_pot : forall c es o,
    iwf c -> listening c = true -> c_inert c = false -> nth_error prog (c_flow c) = Some es ->
    exists ro, run_inst true es o c = Some ro /\ good c ro.
  Proof.
    intros c es o [Hactv Hwf] Hl Hi Hprog.
    destruct (Hwf Hl Hi) as [es' [ct [cl [Hp' [Hf [Hpos [Hstk [e [He [Hse Hcl]]]]]]]]]].
    rewrite Hprog in Hp'. inversion Hp'; subst es'. clear Hp'.
    pose proof (fo_cert _ _ _ _ _ _ Hf) as Hct.
    assert (Hipot : ipot c = 2 + (if started c then 0 else 1) + 1 + wat (f_w ct) (length es) (S (c_pos c)) +
                            (if c_act c && negb (c_restarted c) && started c then 1 + newpot prog certs (c_flow c) else 0)).
    { unfold Cascade.ipot. rewrite Hl, Hi, Hprog, Hct. lia. }
    assert (Hs1 : S (c_pos c) < length es -> stk_at (f_stk ct) (S (c_pos c)) = Some (c_catch c)).
    { intros Hlt. eapply resume_stk; eauto. }
    assert (Hs2 : S (c_pos c) < length es -> rank_at (f_rank ct) (S (c_pos c)) < length es + 1).
    { intros Hlt. pose proof (cert_rank_le true es _ _ _ _ (fo_check _ _ _ _ _ _ Hf) Hlt (Hs1 Hlt)). lia. }
    assert (Hs3 : 0 < length es + 1) by lia.
    pose proof (slide_pot prog certs (c_flow c) es ct cl Hprog (fo_check _ _ _ _ _ _ Hf) (fo_w _ _ _ _ _ _ Hf)
                          (fo_clean _ _ _ _ _ _ Hf) (fo_nofork _ _ _ _ _ _ Hf)
                          (length es + 1) o 0 (S (c_pos c)) (c_catch c) [] false Hs1 Hs2 Hs3) as HS.
    cbv zeta in HS. fold (slide (length es + 1) es o (S (c_pos c)) (c_catch c)) in HS.
    destruct HS as [Hno [Hnf [[new [Hnew [Hnact Hcost]]] Hblk]]].
    simpl in Hnew. rewrite andb_true_r in Hcost.
    unfold run_inst.
    set (r := slide (length es + 1) es o (S (c_pos c)) (c_catch c)) in *.
    rewrite Hnew.
    assert (Hq : qcost (map (fun fa : flowid * bool => CStart (fst fa) (snd fa)) new) = starts_cost prog certs new)
      by apply qcost_starts.
    assert (Hewf_new : Forall ewf (map (fun fa : flowid * bool => CStart (fst fa) (snd fa)) new))
      by (apply ewf_starts; assumption).
    assert (Hewf_self : forall b, Forall ewf (start_if b (c_flow c) (c_act c)))
      by (intros b; apply ewf_start_if; assumption).
    assert (Hcl0 : started c = false -> c_act c = true -> S (c_pos c) < length es -> nth (S (c_pos c)) cl false = true).
    { intros H1 H2 H3. destruct (Hcl H1 H2) as [Hc1 Hc2]. eapply resume_clean; eauto. }
    unfold good.
    destruct (s_stop r) as [p|p ts| | |p|] eqn:Hstop.
    - (* Blocked p *)
      destruct (Hblk p eq_refl) as [Hp [Hstkp [[e' [He' Hse']] [Hclp Hp1]]]].
      specialize (Hp1 ltac:(lia)).
      rewrite He'.
      assert (Hrestp : e' <> EBlock BMatch -> 1 + wat (f_w ct) (length es) (S p) <= wat (f_w ct) (length es) p).
      { intros Hnb. eapply rest_pot; eauto. apply wakes_not_bmatch; assumption. }
      assert (Hnowi : started c = false -> c_act c = true -> e' = EWaitInt true -> False).
      { intros H1 H2 H3. subst e'.
        assert (Hcp : nth p cl false = true) by (apply Hclp; intros; apply Hcl0; assumption).
        pose proof (check_clean_not_waitint es (f_stk ct) cl p (fo_clean _ _ _ _ _ _ Hf) Hcp He'). lia. }
      assert (Hiwf_rest : forall status rst,
                 (status = CStarted \/ (status = c_status c /\ e' <> EBlock BMatch)) ->
                 iwf {| c_flow := c_flow c; c_pos := p; c_catch := s_catch r; c_status := status;
                        c_act := c_act c; c_restarted := rst; c_inert := false |}).
      { intros status rst Hst. split; [simpl; assumption|]. intros _ _. cbn [c_flow c_pos c_catch c_act].
        exists es, ct, cl. repeat (split; [assumption|]). exists e'. split; [assumption|]. split; [assumption|].
        unfold started. cbn [c_status]. intros Hns Ha.
        destruct Hst as [Hst|[Hst Hnb]]; subst status; [discriminate|].
        assert (Hns' : started c = false) by (unfold started; assumption).
        split.
        - apply Hclp. intros Hlt. apply Hcl0; assumption.
        - apply wakes_not_bmatch; assumption. }
      idtac.
      unfold listening in Hl.
      destruct e' as [k|b| | | | | | | | | |]; simpl in Hse'; try discriminate.
      + destruct k.
        * (* BMatch *)
          eexists; split; [reflexivity|]. cbn [r_inst r_right r_left].
          split; [apply iwf_inert; [simpl; assumption|reflexivity]|].
          split; [apply Forall_app; split; [assumption|apply ewf_note_if]|].
          split; [apply Hewf_self|].
          rewrite Hipot, qcost_app, Hq, qcost_note_if, qcost_start_if. unfold Cascade.ipot, listening, started in *.
          cbn [c_status c_inert].
          destruct (c_status c); try discriminate; destruct (c_act c), (c_restarted c), (s_newinst r); simpl in *; lia.
        * eexists; split; [reflexivity|]. cbn [r_inst r_right r_left].
          split; [apply Hiwf_rest; right; split; [reflexivity|discriminate]|].
          split; [assumption|]. split; [apply Hewf_self|].
          specialize (Hrestp ltac:(discriminate)).
          rewrite Hipot, Hq, qcost_start_if. unfold Cascade.ipot, listening, started in *.
          cbn [c_status c_inert c_flow c_pos c_act c_restarted]. rewrite Hprog, Hct.
          destruct (c_status c); try discriminate; destruct (c_act c), (c_restarted c), (s_newinst r); simpl in *; lia.
        * eexists; split; [reflexivity|]. cbn [r_inst r_right r_left].
          split; [apply Hiwf_rest; right; split; [reflexivity|discriminate]|].
          split; [assumption|]. split; [apply Hewf_self|].
          specialize (Hrestp ltac:(discriminate)).
          rewrite Hipot, Hq, qcost_start_if. unfold Cascade.ipot, listening, started in *.
          cbn [c_status c_inert c_flow c_pos c_act c_restarted]. rewrite Hprog, Hct.
          destruct (c_status c); try discriminate; destruct (c_act c), (c_restarted c), (s_newinst r); simpl in *; lia.
      + destruct b.
        * (* EWaitInt true: becomes STARTED, stays movable *)
          eexists; split; [reflexivity|]. cbn [r_inst r_right r_left].
          split; [apply Hiwf_rest; left; reflexivity|].
          split; [apply Forall_app; split; [assumption|apply ewf_note_if]|].
          split; [apply Hewf_self|].
          specialize (Hrestp ltac:(discriminate)).
          rewrite Hipot, qcost_app, Hq, qcost_note_if, qcost_start_if. unfold Cascade.ipot, listening, started in *.
          cbn [c_status c_inert c_flow c_pos c_act c_restarted]. rewrite Hprog, Hct.
          destruct (c_status c) eqn:Hcs; try discriminate.
          -- destruct (c_act c) eqn:Ha; [exfalso; apply Hnowi; auto|].
             destruct (c_restarted c), (s_newinst r); simpl in *; lia.
          -- destruct (c_act c), (c_restarted c), (s_newinst r); simpl in *; lia.
        * eexists; split; [reflexivity|]. cbn [r_inst r_right r_left].
          split; [apply Hiwf_rest; right; split; [reflexivity|discriminate]|].
          split; [assumption|]. split; [apply Hewf_self|].
          specialize (Hrestp ltac:(discriminate)).
          rewrite Hipot, Hq, qcost_start_if. unfold Cascade.ipot, listening, started in *.
          cbn [c_status c_inert c_flow c_pos c_act c_restarted]. rewrite Hprog, Hct.
          destruct (c_status c); try discriminate; destruct (c_act c), (c_restarted c), (s_newinst r); simpl in *; lia.
      + eexists; split; [reflexivity|]. cbn [r_inst r_right r_left].
        split; [apply Hiwf_rest; right; split; [reflexivity|discriminate]|].
        split; [assumption|]. split; [apply Hewf_self|].
        specialize (Hrestp ltac:(discriminate)).
        rewrite Hipot, Hq, qcost_start_if. unfold Cascade.ipot, listening, started in *.
        cbn [c_status c_inert c_flow c_pos c_act c_restarted]. rewrite Hprog, Hct.
        destruct (c_status c); try discriminate; destruct (c_act c), (c_restarted c), (s_newinst r); simpl in *; lia.
    - exfalso. eapply Hnf; reflexivity.
    - (* Ended *)
      unfold listening in Hl.
      destruct (negb (started c) && c_act c) eqn:Hg.
      + eexists; split; [reflexivity|]. cbn [r_inst r_right r_left].
        split; [apply iwf_inert; [simpl; assumption|reflexivity]|].
        split; [apply Forall_app; split; [assumption|repeat constructor]|].
        split; [apply Hewf_self|].
        rewrite Hipot, qcost_app, Hq, qcost_note, qcost_start_if. unfold Cascade.ipot, listening, started in *.
        cbn [c_status c_inert].
        destruct (c_status c); try discriminate; destruct (c_act c), (c_restarted c), (s_newinst r); simpl in *; try discriminate; lia.
      + eexists; split; [reflexivity|]. cbn [r_inst r_right r_left].
        split; [apply iwf_dead; [simpl; assumption|reflexivity]|].
        split; [apply Forall_app; split; [assumption|apply Forall_app; split; [apply ewf_note_if|repeat constructor]]|].
        split; [apply Forall_app; split; apply Hewf_self|].
        rewrite Hipot, !qcost_app, Hq, qcost_note, qcost_note_if, !qcost_start_if. unfold Cascade.ipot, listening, started in *.
        cbn [c_status].
        destruct (c_status c); try discriminate; destruct (c_act c), (c_restarted c), (s_newinst r); simpl in *; try discriminate; lia.
    - (* Aborted *)
      unfold listening in Hl.
      eexists; split; [reflexivity|]. cbn [r_inst r_right r_left fail_inst].
      split; [apply iwf_dead; [simpl; assumption|reflexivity]|].
      split; [apply Forall_app; split; [assumption|repeat constructor]|].
      split; [apply Forall_app; split; apply Hewf_self|].
      rewrite Hipot, !qcost_app, Hq, !qcost_start_if. unfold Cascade.ipot, listening, started in *.
      cbn [c_status].
      destruct (c_status c); try discriminate; destruct (c_act c), (c_restarted c), (s_newinst r); simpl in *; try discriminate;
        unfold Cascade_proofs.qcost; simpl; lia.
    - (* Raised *)
      unfold listening in Hl.
      eexists; split; [reflexivity|]. cbn [r_inst r_right r_left fail_inst].
      split; [apply iwf_dead; [simpl; assumption|reflexivity]|].
      split; [apply Forall_app; split; [assumption|repeat constructor]|].
      split; [apply Forall_app; split; apply Hewf_self|].
      rewrite Hipot, !qcost_app, Hq, !qcost_start_if. unfold Cascade.ipot, listening, started in *.
      cbn [c_status].
      destruct (c_status c); try discriminate; destruct (c_act c), (c_restarted c), (s_newinst r); simpl in *; try discriminate;
        unfold Cascade_proofs.qcost; simpl; lia.
    - exfalso. apply Hno. reflexivity.
  Qed.

  Lemma sum_set_nth : forall (f : cinst -> nat) l i a b,
    nth_error l i = Some a -> list_sum (map f (set_nth l i b)) + f a = list_sum (map f l) + f b.
  Proof.
    induction l as [|x l IH]; intros i a b H; [destruct i; discriminate|].
    destruct i as [|i]; simpl in *.
    - inversion H; subst. lia.
    - specialize (IH i a b H). lia.
  Qed.

  Lemma Forall_set_nth : forall (P : cinst -> Prop) l i b, Forall P l -> P b -> Forall P (set_nth l i b).
  Proof.
    induction l as [|x l IH]; intros i b Hl Hb; [constructor|].
    inversion Hl; subst. destruct i; simpl; constructor; auto.
  Qed.

  Local Notation swf := (swf prog certs).
  Local Notation phi := (phi prog certs).

  Lemma apply_good : forall st i c ro,
    swf st -> nth_error (c_insts st) i = Some c -> good c ro ->
    swf (apply_rout st i ro) /\ phi (apply_rout st i ro) + 1 <= phi st.
  Proof.
    intros st i c ro [Hi Hq] Hn [G1 [G2 [G3 G4]]]. split.
    - split; simpl.
      + apply Forall_set_nth; assumption.
      + apply Forall_app. split; [assumption|]. apply Forall_app. split; assumption.
    - unfold Cascade.phi. simpl.
      pose proof (sum_set_nth ipot (c_insts st) i c (r_inst ro) Hn) as Hs.
      change (list_sum (map (ev_cost prog certs) (r_left ro ++ c_queue st ++ r_right ro)))
        with (qcost (r_left ro ++ c_queue st ++ r_right ro)).
      rewrite !qcost_app.
      change (list_sum (map (ev_cost prog certs) (c_queue st))) with (qcost (c_queue st)).
      lia.
  Qed.

  Lemma movable_es : forall c, movable prog c = true ->
    listening c = true /\ c_inert c = false /\ exists es, nth_error prog (c_flow c) = Some es.
  Proof.
    intros c H. unfold movable in H. apply andb_true_iff in H. destruct H as [H H3].
    apply andb_true_iff in H. destruct H as [H1 H2]. apply negb_true_iff in H2.
    split; [assumption|]. split; [assumption|].
    unfold at_stop in H3. destruct (nth_error prog (c_flow c)); [eauto|discriminate].
  Qed.

  Lemma kill_good : forall c, iwf c -> listening c = true -> good c (kill_inst c).
  Proof.
    intros c [Ha Hw] Hl. unfold good, kill_inst. cbn [r_inst r_right r_left].
    split; [apply iwf_dead; [simpl; assumption|reflexivity]|].
    split; [repeat constructor|]. split; [constructor|].
    unfold Cascade.ipot at 1. unfold listening at 1. cbn [c_status].
    unfold Cascade.ipot. rewrite Hl. unfold Cascade_proofs.qcost. simpl. lia.
  Qed.

  Lemma fail_good : forall c, iwf c -> movable prog c = true ->
    good c (fail_inst true c false (c_restarted c) (c_pos c) (c_catch c)).
  Proof.
    intros c [Ha Hw] Hm. destruct (movable_es c Hm) as [Hl [Hi [es Hes]]].
    destruct (Hw Hl Hi) as [es' [ct [cl [Hp' [Hf _]]]]].
    pose proof (fo_cert _ _ _ _ _ _ Hf) as Hct.
    unfold good, fail_inst. cbn [r_inst r_right r_left].
    split; [apply iwf_dead; [simpl; assumption|reflexivity]|].
    split; [repeat constructor|]. split; [apply ewf_start_if; assumption|].
    unfold Cascade.ipot at 1. unfold listening at 1. cbn [c_status].
    rewrite qcost_start_if.
    unfold Cascade.ipot. rewrite Hl, Hi, Hp', Hct. unfold Cascade_proofs.qcost. simpl.
    destruct (c_act c), (c_restarted c), (started c); simpl; lia.
  Qed.

  Lemma react_inst_ok : forall orc rc st i,
    swf st -> exists st', react_inst true prog orc rc st i = COk st' /\ swf st' /\ phi st' <= phi st /\
                          length (c_insts st') = length (c_insts st).
  Proof.
    intros orc rc st i Hs. unfold react_inst.
    destruct (nth_error (c_insts st) i) as [c|] eqn:Hn; [|exists st; auto].
    assert (Hc : iwf c).
    { destruct Hs as [Hs _]. rewrite Forall_forall in Hs. apply Hs. eapply nth_error_In; eauto. }
    assert (Hlen : forall ro, length (c_insts (apply_rout st i ro)) = length (c_insts st)).
    { intros ro. simpl. clear. generalize i. induction (c_insts st); destruct i0; simpl; auto. }
    destruct rc.
    - exists st; auto.
    - destruct (movable prog c) eqn:Hm; [|exists st; auto].
      destruct (movable_es c Hm) as [Hl [Hi [es Hes]]]. rewrite Hes.
      destruct (run_inst_pot c es (orc (c_tick st)) Hc Hl Hi Hes) as [ro [Hr Hg]].
      rewrite Hr. destruct (apply_good st i c ro Hs Hn Hg) as [A B].
      eexists; split; [reflexivity|]. split; [assumption|]. split; [lia|apply Hlen].
    - destruct (movable prog c) eqn:Hm; [|exists st; auto].
      destruct (apply_good st i c _ Hs Hn (fail_good c Hc Hm)) as [A B].
      eexists; split; [reflexivity|]. split; [assumption|]. split; [lia|apply Hlen].
    - destruct (listening c) eqn:Hl; [|exists st; auto].
      destruct (apply_good st i c _ Hs Hn (kill_good c Hc Hl)) as [A B].
      eexists; split; [reflexivity|]. split; [assumption|]. split; [lia|apply Hlen].
  Qed.

  Lemma react_advance_dec : forall orc st i c,
    swf st -> nth_error (c_insts st) i = Some c -> movable prog c = true ->
    exists st', react_inst true prog orc RAdvance st i = COk st' /\ swf st' /\ phi st' + 1 <= phi st.
  Proof.
    intros orc st i c Hs Hn Hm. unfold react_inst. rewrite Hn, Hm.
    assert (Hc : iwf c).
    { destruct Hs as [Hs _]. rewrite Forall_forall in Hs. apply Hs. eapply nth_error_In; eauto. }
    destruct (movable_es c Hm) as [Hl [Hi [es Hes]]]. rewrite Hes.
    destruct (run_inst_pot c es (orc (c_tick st)) Hc Hl Hi Hes) as [ro [Hr Hg]].
    rewrite Hr. destruct (apply_good st i c ro Hs Hn Hg) as [A B].
    eexists; split; [reflexivity|]. split; assumption.
  Qed.

  Lemma react_all_ok : forall orc react idx st,
    swf st -> exists st', react_all true prog orc react idx st = COk st' /\ swf st' /\ phi st' <= phi st.
  Proof.
    intros orc react. induction idx as [|i idx IH]; intros st Hs; simpl.
    - exists st; auto.
    - destruct (react_inst_ok orc (react i) st i Hs) as [st1 [H1 [S1 [P1 _]]]]. rewrite H1.
      destruct (IH st1 S1) as [st2 [H2 [S2 P2]]]. exists st2. split; [assumption|]. split; [assumption|lia].
  Qed.

  Lemma find_actionable_spec : forall l i k,
    find_actionable prog l i = Some k ->
    exists c, nth_error l (k - i) = Some c /\ i <= k /\ movable prog c = true.
  Proof.
    induction l as [|c l IH]; intros i k H; simpl in H; [discriminate|].
    match type of H with (if ?b then _ else _) = _ => destruct b eqn:Hb end.
    - inversion H; subst. rewrite Nat.sub_diag. exists c. split; [reflexivity|]. split; [lia|].
      apply andb_true_iff in Hb. destruct Hb as [Hb1 Hb2]. unfold movable. rewrite Hb1. simpl.
      unfold at_stop. destruct (nth_error prog (c_flow c)) as [es|]; [|discriminate].
      destruct (nth_error es (c_pos c)) as [e|]; [|discriminate].
      destruct e; try discriminate. reflexivity.
    - destruct (IH (S i) k H) as [c' [Hn [Hle Hm]]]. exists c'. split; [|split; [lia|assumption]].
      replace (k - i) with (S (k - S i)) by lia. simpl. assumption.
  Qed.

  Lemma fresh_iwf : forall f a es, nth_error prog f = Some es -> (a = true -> activatable prog f = true) -> iwf (fresh f a).
  Proof.
    intros f a es Hes Ha. split; [simpl; assumption|]. intros _ _. cbn [fresh c_flow c_pos c_catch c_act].
    destruct (cert_ok_flow prog certs cleans f es Hok Hes) as [ct [cl Hf]].
    exists es, ct, cl. split; [assumption|]. split; [assumption|].
    destruct (fo_head _ _ _ _ _ _ Hf) as [tl Htl].
    split; [subst es; simpl; lia|]. split; [apply (fo_stk0 _ _ _ _ _ _ Hf)|].
    exists (EWaitInt true). split; [subst es; reflexivity|]. split; [reflexivity|].
    intros _ Hact. split; [|reflexivity]. apply (fo_act _ _ _ _ _ _ Hf). apply Ha. assumption.
  Qed.

  Lemma fresh_pot : forall f a es, nth_error prog f = Some es -> ipot (fresh f a) = newpot prog certs f.
  Proof.
    intros f a es Hes. destruct (cert_ok_flow prog certs cleans f es Hok Hes) as [ct [cl Hf]].
    pose proof (fo_cert _ _ _ _ _ _ Hf) as Hct.
    unfold Cascade.ipot, newpot. cbn [fresh listening started c_status c_inert c_flow c_pos c_act c_restarted].
    rewrite Hes, Hct. destruct a; simpl; lia.
  Qed.

  (* one step of the cascade strictly decreases the potential *)
  Lemma step_dec : forall orc react st,
    swf st ->
    step true prog orc react st = None \/
    exists st', step true prog orc react st = Some (COk st') /\ swf st' /\ phi st' + 1 <= phi st.
  Proof.
    intros orc react st Hs. unfold step.
    destruct (c_queue st) as [|ev q] eqn:Hq.
    - destruct (find_actionable prog (c_insts st) 0) as [i|] eqn:Hf; [|left; reflexivity]. right.
      destruct (find_actionable_spec _ _ _ Hf) as [c [Hn [_ Hm]]]. rewrite Nat.sub_0_r in Hn.
      destruct (react_advance_dec orc st i c Hs Hn Hm) as [st' [H1 [H2 H3]]].
      exists st'. rewrite H1. auto.
    - right. destruct Hs as [Hi Hqw]. rewrite Hq in Hqw. inversion Hqw as [|x l Hev Hq']; subst.
      destruct ev as [f a|].
      + destruct (nth_error prog f) as [es|] eqn:Hes.
        * set (st1 := {| c_insts := c_insts st ++ [fresh f a]; c_queue := q; c_tick := S (c_tick st) |}).
          assert (Hs1 : swf st1).
          { split; simpl; [|assumption]. apply Forall_app. split; [assumption|]. constructor; [|constructor].
            eapply fresh_iwf; eauto. intros ->. exact Hev. }
          assert (Hn : nth_error (c_insts st1) (length (c_insts st)) = Some (fresh f a)).
          { simpl. rewrite nth_error_app2 by lia. rewrite Nat.sub_diag. reflexivity. }
          assert (Hm : movable prog (fresh f a) = true).
          { unfold movable, at_stop. cbn [fresh listening c_status c_inert c_flow c_pos]. rewrite Hes.
            destruct (cert_ok_flow prog certs cleans f es Hok Hes) as [ct [cl Hf]].
            destruct (fo_head _ _ _ _ _ _ Hf) as [tl Htl]. subst es. reflexivity. }
          destruct (react_advance_dec orc st1 _ _ Hs1 Hn Hm) as [st' [H1 [H2 H3]]].
          exists st'. split; [rewrite H1; reflexivity|]. split; [assumption|].
          assert (Hp1 : phi st1 + 1 = phi st).
          { unfold Cascade.phi. cbn [st1 c_insts c_queue]. rewrite Hq, map_app, list_sum_app.
            cbn [map list_sum fold_right ev_cost]. rewrite (fresh_pot f a es Hes). unfold list_sum. lia. }
          lia.
        * eexists. split; [reflexivity|]. split; [split; simpl; assumption|].
          unfold Cascade.phi. simpl. rewrite Hq. simpl. lia.
      + set (st1 := {| c_insts := c_insts st; c_queue := q; c_tick := S (c_tick st) |}).
        assert (Hs1 : swf st1) by (split; simpl; assumption).
        destruct (react_all_ok orc (react (c_tick st)) (seq 0 (length (c_insts st))) st1 Hs1) as [st' [H1 [H2 H3]]].
        exists st'. split; [rewrite H1; reflexivity|]. split; [assumption|].
        assert (Hp1 : phi st1 + 1 = phi st) by (unfold Cascade.phi; simpl; rewrite Hq; simpl; lia).
        lia.
  Qed.

  (* MAIN: with the repaired restart logic the cascade of a well-formed state ends within phi steps *)
  Theorem cascade_terminates : forall orc react fuel st,
    swf st -> phi st <= fuel ->
    exists st', cascade true prog orc react fuel st = COk st' /\ swf st' /\
                step true prog orc react st' = None.
  Proof.
    intros orc react. induction fuel as [|fuel IH]; intros st Hs Hp.
    - destruct (step_dec orc react st Hs) as [Hn|[st' [H1 [H2 H3]]]].
      + exists st. simpl. rewrite Hn. auto.
      + lia.
    - destruct (step_dec orc react st Hs) as [Hn|[st' [H1 [H2 H3]]]].
      + exists st. simpl. rewrite Hn. auto.
      + simpl. rewrite H1. apply IH; [assumption|lia].
  Qed.
End Steps.

(* ------------------------------------------------------------------------------------------ *)
(* the bound in terms of program size and number of live instances *)

Definition live (st : cstate) : nat := length (filter listening (c_insts st)).

Lemma list_max_nth : forall l p, nth p l 0 <= list_max l.
Proof.
  induction l as [|x l IH]; intros p; destruct p; simpl; try lia.
  specialize (IH p). lia.
Qed.

Lemma list_max_in : forall l x, In x l -> x <= list_max l.
Proof.
  induction l as [|y l IH]; intros x H; [destruct H|]. simpl. destruct H as [->|H]; [lia|].
  specialize (IH x H). lia.
Qed.

Lemma wat_le_max : forall w len p, wat w len p <= list_max w.
Proof. intros. unfold wat. destruct (Nat.ltb p len); [apply list_max_nth|lia]. Qed.

Lemma flow_cost_le : forall prog certs f es, nth_error prog f = Some es ->
  flow_cost prog certs f + 3 <= max_flow_cost prog certs.
Proof.
  intros prog certs f es H. unfold max_flow_cost.
  assert (Hin : In (flow_cost prog certs f) (map (flow_cost prog certs) (seq 0 (length prog)))).
  { apply in_map. apply in_seq. split; [lia|]. simpl. apply nth_error_Some. congruence. }
  pose proof (list_max_in _ _ Hin). lia.
Qed.

Lemma ipot_le : forall prog certs c, ipot prog certs c <= if listening c then max_flow_cost prog certs else 0.
Proof.
  intros prog certs c. unfold ipot. destruct (listening c); [|lia].
  destruct (c_inert c).
  - unfold max_flow_cost. destruct (started c); lia.
  - destruct (nth_error prog (c_flow c)) as [es|] eqn:He; [|unfold max_flow_cost; destruct (started c); lia].
    destruct (nth_error certs (c_flow c)) as [ct|] eqn:Hc; [|unfold max_flow_cost; destruct (started c); lia].
    pose proof (flow_cost_le prog certs (c_flow c) es He) as Hf. unfold flow_cost in Hf. rewrite He, Hc in Hf.
    pose proof (wat_le_max (f_w ct) (length es) (S (c_pos c))).
    destruct (started c), (c_act c && negb (c_restarted c)); simpl; lia.
Qed.

Lemma ev_cost_le : forall prog certs e, ev_cost prog certs e <= max_flow_cost prog certs.
Proof.
  intros prog certs [g a|]; simpl; [|unfold max_flow_cost; lia].
  unfold newpot. destruct (nth_error prog g) as [es|] eqn:He; [|unfold max_flow_cost; lia].
  destruct (nth_error certs g) as [ct|] eqn:Hc; [|unfold max_flow_cost; lia].
  pose proof (flow_cost_le prog certs g es He) as Hf. unfold flow_cost, newpot in Hf. rewrite He, Hc in Hf. lia.
Qed.

Lemma phi_le_bound : forall prog certs st,
  phi prog certs st <= rtc_bound prog certs (live st) (length (c_queue st)).
Proof.
  intros prog certs st. unfold phi, rtc_bound, live.
  assert (H1 : list_sum (map (ipot prog certs) (c_insts st)) <= length (filter listening (c_insts st)) * max_flow_cost prog certs).
  { induction (c_insts st) as [|c l IH]; simpl; [lia|].
    pose proof (ipot_le prog certs c). destruct (listening c); simpl; lia. }
  assert (H2 : list_sum (map (ev_cost prog certs) (c_queue st)) <= length (c_queue st) * max_flow_cost prog certs).
  { induction (c_queue st) as [|e l IH]; simpl; [lia|]. pose proof (ev_cost_le prog certs e). lia. }
  lia.
Qed.

Theorem rtc_bound_thm : forall prog certs cleans,
  cascade_cert_ok prog certs cleans = true ->
  forall orc react st, swf prog certs st ->
  exists st', cascade true prog orc react (rtc_bound prog certs (live st) (length (c_queue st))) st = COk st' /\
              step true prog orc react st' = None.
Proof.
  intros prog certs cleans Hok orc react st Hs.
  destruct (cascade_terminates prog certs cleans Hok orc react _ st Hs (phi_le_bound prog certs st)) as [st' [H1 [_ H2]]].
  eauto.
Qed.

(* a decidable version of well-formedness, for examples and for the harness *)
Definition iwfb (prog : program) (certs : list fcert) (cleans : list (list bool)) (c : cinst) : bool :=
  (negb (c_act c) || activatable prog (c_flow c)) &&
  (negb (listening c) || c_inert c ||
   match nth_error prog (c_flow c), nth_error certs (c_flow c), nth_error cleans (c_flow c) with
   | Some es, Some ct, Some cl =>
       Nat.ltb (c_pos c) (length es) &&
       match stk_at (f_stk ct) (c_pos c) with Some s => eqb_labels s (c_catch c) | None => false end &&
       match nth_error es (c_pos c) with
       | Some e => is_stop e && (started c || negb (c_act c) || (nth (c_pos c) cl false && wakes e))
       | None => false
       end
   | _, _, _ => false
   end).

Definition swfb (prog : program) (certs : list fcert) (cleans : list (list bool)) (st : cstate) : bool :=
  forallb (iwfb prog certs cleans) (c_insts st) &&
  forallb (fun e => match e with CStart g true => activatable prog g | _ => true end) (c_queue st).

Lemma cert_ok_flow' : forall prog certs cleans f es ct cl,
  cascade_cert_ok prog certs cleans = true -> nth_error prog f = Some es ->
  nth_error certs f = Some ct -> nth_error cleans f = Some cl -> flow_ok prog certs f es ct cl.
Proof.
  intros prog certs cleans f es ct cl H Hn Hc Hcl. unfold cascade_cert_ok in H.
  apply andb_true_iff in H. destruct H as [_ H].
  pose proof (forallb_i_nth _ _ _ 0 f es H Hn) as Hf. simpl in Hf. rewrite Hc, Hcl in Hf.
  repeat (apply andb_true_iff in Hf; let H' := fresh "H" in destruct Hf as [Hf H']).
  constructor; auto.
  - destruct es as [|e tl]; [discriminate|]. destruct e; try discriminate. destruct started_making; try discriminate. eauto.
  - destruct (stk_at (f_stk ct) 0) as [[|]|]; try discriminate. reflexivity.
  - intros Ha. rewrite Ha in H0. simpl in H0. assumption.
Qed.

Lemma swfb_sound : forall prog certs cleans st,
  cascade_cert_ok prog certs cleans = true -> swfb prog certs cleans st = true -> swf prog certs st.
Proof.
  intros prog certs cleans st Hok H. unfold swfb in H. apply andb_true_iff in H. destruct H as [H1 H2].
  rewrite forallb_forall in H1, H2. split; apply Forall_forall.
  - intros c Hc. specialize (H1 c Hc). unfold iwfb in H1. apply andb_true_iff in H1. destruct H1 as [Ha Hb].
    split.
    + intros Hact. rewrite Hact in Ha. simpl in Ha. assumption.
    + intros Hl Hi. rewrite Hl, Hi in Hb. simpl in Hb.
      destruct (nth_error prog (c_flow c)) as [es|] eqn:He; [|discriminate].
      destruct (nth_error certs (c_flow c)) as [ct|] eqn:Hct; [|discriminate].
      destruct (nth_error cleans (c_flow c)) as [cl|] eqn:Hcl; [|discriminate].
      apply andb_true_iff in Hb. destruct Hb as [Hb H3]. apply andb_true_iff in Hb. destruct Hb as [Hp Hs].
      apply Nat.ltb_lt in Hp.
      destruct (stk_at (f_stk ct) (c_pos c)) as [s|] eqn:Hst; [|discriminate]. apply eqb_labels_eq in Hs. subst s.
      destruct (nth_error es (c_pos c)) as [e|] eqn:Hn; [|discriminate].
      apply andb_true_iff in H3. destruct H3 as [Hstop Hcl'].
      exists es, ct, cl. split; [reflexivity|]. split; [eapply cert_ok_flow'; eauto|].
      split; [assumption|]. split; [assumption|]. exists e. split; [assumption|]. split; [assumption|].
      intros Hns Hact. rewrite Hns, Hact in Hcl'. simpl in Hcl'. apply andb_true_iff in Hcl'. assumption.
  - intros e He. specialize (H2 e He). destruct e as [g [|]|]; simpl; auto.
Qed.

(* ------------------------------------------------------------------------------------------ *)
(* the unchanged restart logic: an activated flow that aborts at once keeps the cascade busy forever *)

Definition f4_after_send (insts : list cinst) (q : list cev) (tick : nat) : cstate :=
  {| c_insts := insts; c_queue := CStart 1 true :: q; c_tick := tick |}.

Lemma f4_spins : forall n insts q tick,
  cascade false f4_prog all_true all_advance n (f4_after_send insts q tick) = COut.
Proof.
  induction n as [|n IH]; intros insts q tick; [reflexivity|].
  unfold f4_after_send. simpl cascade. unfold step. cbn [c_queue c_insts c_tick].
  change (nth_error f4_prog 1) with (Some [EWaitInt true; EAbort]). cbv iota beta.
  unfold react_inst. cbn [c_insts].
  rewrite nth_error_app2 by lia. rewrite Nat.sub_diag. cbn [nth_error].
  change (movable f4_prog (fresh 1 true)) with true. cbv iota.
  change (nth_error f4_prog (c_flow (fresh 1 true))) with (Some [EWaitInt true; EAbort]). cbv iota beta.
  match goal with |- context [run_inst false ?es ?o ?c] =>
    replace (run_inst false es o c) with
      (Some {| r_inst := {| c_flow := 1; c_pos := 2; c_catch := []; c_status := CDead; c_act := true;
                            c_restarted := true; c_inert := true |};
               r_right := [CNote]; r_left := [CStart 1 true] |}) by reflexivity end.
  cbv iota beta. unfold apply_rout. cbn [r_inst r_right r_left c_insts c_queue c_tick app].
  apply (IH _ (q ++ [CNote]) _).
Qed.

Theorem activated_abort_refuted :
  cascade_guardedb f4_prog = true /\
  (forall n, cascade false f4_prog all_true all_advance n
               (f4_after_send [ {| c_flow := 0; c_pos := 3; c_catch := []; c_status := CStarting; c_act := false;
                                   c_restarted := false; c_inert := false |} ] [] 0) = COut) /\
  (exists st', cascade true f4_prog all_true all_advance 20
               (f4_after_send [ {| c_flow := 0; c_pos := 3; c_catch := []; c_status := CStarting; c_act := false;
                                   c_restarted := false; c_inert := false |} ] [] 0) = COk st').
Proof.
  split; [vm_compute; reflexivity|]. split.
  - intros n. apply f4_spins.
  - eexists. vm_compute. reflexivity.
Qed.

(* the hypotheses of rtc_bound_thm are inhabited: the state right after `activate a` was sent *)
Example rtc_bound_inhabited :
  let '(certs, cleans) := compute_certs f4_prog 3 in
  let st := f4_after_send [ {| c_flow := 0; c_pos := 3; c_catch := []; c_status := CStarting; c_act := false;
                               c_restarted := false; c_inert := false |} ] [] 0 in
  cascade_cert_ok f4_prog certs cleans = true /\ swfb f4_prog certs cleans st = true /\
  rtc_bound f4_prog certs (live st) (length (c_queue st)) = 58.
Proof. vm_compute. repeat split. Qed.
