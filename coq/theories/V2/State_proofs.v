(* C11 - json_to_state o state_to_json on State-shaped graphs: the round trip of the object
   graph composed with the re-creation of the head callbacks. *)
From Coq Require Import ZArith List String Bool Lia.
From NG Require Import V2.Serial V2.Serial_proofs V2.Callbacks_proofs.
Import ListNotations.
Open Scope string_scope.
Open Scope Z_scope.

(* ---------------------------------------------------------------------------------- *)
(* the decoder only allocates fresh identities *)

Definition fresh_ok (st : dstate) : Prop := below (dh st) (nxt st).

Lemma alloc_fresh n st : fresh_ok st -> fresh_ok (snd (alloc n st)).
Proof.
  unfold fresh_ok, below, alloc. simpl. intros H i nd. destruct (nxt st =? i) eqn:E.
  - apply Z.eqb_eq in E. intros _. lia.
  - intro Hl. specialize (H i nd Hl). lia.
Qed.

Lemma map_st_pres {S A B} (P : S -> Prop) (f : S -> A -> option (B * S)) :
  (forall s x y s', P s -> f s x = Some (y, s') -> P s') ->
  forall l s ys s', P s -> map_st f s l = Some (ys, s') -> P s'.
Proof.
  intros Hf l. induction l as [|x r IH]; intros s ys s' Hp H; simpl in H.
  - inversion H. now subst.
  - destruct (f s x) as [[y s1]|] eqn:E; [|discriminate].
    destruct (map_st f s1 r) as [[ys' s2]|] eqn:E2; [|discriminate].
    inversion H; subst. eapply IH; [eapply Hf; eauto|eauto].
Qed.

Lemma dec_fresh fl C : forall f st j v st', fresh_ok st -> dec fl C f st j = Some (v, st') -> fresh_ok st'.
Proof.
  induction f as [|f IH]; intros st j v st' Hp H; [discriminate|].
  assert (Hm : forall l st0 vs st1, fresh_ok st0 -> map_st (dec fl C f) st0 l = Some (vs, st1) -> fresh_ok st1).
  { intros l st0 vs st1. apply (map_st_pres fresh_ok). intros s x y s'. apply IH. }
  destruct j as [| b | z | x | s | l | kvs]; simpl in H; try (inversion H; now subst).
  - destruct (map_st (dec fl C f) st l) as [[vs st1]|] eqn:E; [|discriminate].
    inversion H; subst. apply (alloc_fresh (mk HList vs)). eapply Hm; eauto.
  - destruct (jget "__type" kvs) as [[| | | | t | |]|]; try discriminate.
    + destruct (String.eqb t "ref").
      * destruct (jget "__id" kvs) as [[| | i | | | |]|]; try discriminate.
        destruct (lookup (drefs st) i); [|discriminate]. inversion H; now subst.
      * destruct (parse_head fl C t kvs) as [[hd' kjs]|]; [|discriminate].
        destruct (map_st (dec fl C f) st kjs) as [[vs st1]|] eqn:E; [|discriminate].
        pose proof (Hm _ _ _ _ Hp E) as H1. pose proof (alloc_fresh (mk hd' vs) st1 H1) as H2.
        simpl in H. inversion H; subst.
        destruct (jget "__id" kvs) as [[| | old | | | |]|]; exact H2.
    + destruct (map_st (dec fl C f) st (map snd kvs)) as [[vs st1]|] eqn:E; [|discriminate].
      inversion H; subst. apply (alloc_fresh (mk _ vs)). eapply Hm; eauto.
Qed.

Lemma st0_fresh : fresh_ok st0.
Proof. intros i nd H. discriminate. Qed.

(* ---------------------------------------------------------------------------------- *)
(* list lemmas *)

Lemma Forall2_nth {A B} (R : A -> B -> Prop) l l' : Forall2 R l l' ->
  forall k x, nth_error l k = Some x -> exists y, nth_error l' k = Some y /\ R x y.
Proof.
  induction 1 as [|a b l l' Hab _ IH]; intros [|k] x Hx; simpl in *; try discriminate.
  - inversion Hx; subst. eauto.
  - eauto.
Qed.

Lemma Forall2_of_nth {A B} (R : A -> B -> Prop) : forall l l',
  List.length l = List.length l' ->
  (forall k x y, nth_error l k = Some x -> nth_error l' k = Some y -> R x y) -> Forall2 R l l'.
Proof.
  induction l as [|a l IH]; intros [|b l'] Hl H; simpl in *; try discriminate; constructor.
  - exact (H O a b eq_refl eq_refl).
  - apply IH; [lia|]. intros k x y Hx Hy. exact (H (S k) x y Hx Hy).
Qed.

Lemma Forall2_in_l {A B} (R : A -> B -> Prop) l l' a : Forall2 R l l' -> In a l -> exists b, In b l' /\ R a b.
Proof.
  induction 1 as [|x y l l' Hxy _ IH]; intros Hin; [contradiction|].
  destruct Hin as [<-|Hin]; [exists y; split; [now left|auto]|].
  destruct (IH Hin) as (b & Hb & Hr). exists b. split; [now right|auto].
Qed.

Lemma Forall2_in_r {A B} (R : A -> B -> Prop) l l' b : Forall2 R l l' -> In b l' -> exists a, In a l /\ R a b.
Proof.
  induction 1 as [|x y l l' Hxy _ IH]; intros Hin; [contradiction|].
  destruct Hin as [<-|Hin]; [exists x; split; [now left|auto]|].
  destruct (IH Hin) as (a & Ha & Hr). exists a. split; [now right|auto].
Qed.

Lemma Forall2_len2 {A B} (R : A -> B -> Prop) l l' : Forall2 R l l' -> List.length l = List.length l'.
Proof. induction 1; simpl; auto. Qed.

Lemma Forall2_app2 {A B} (R : A -> B -> Prop) l1 l1' l2 l2' :
  Forall2 R l1 l1' -> Forall2 R l2 l2' -> Forall2 R (l1 ++ l2) (l1' ++ l2').
Proof. induction 1; simpl; auto. Qed.

Lemma length_of_nth_none {A} : forall (l l' : list A),
  (forall m, nth_error l m = None <-> nth_error l' m = None) -> List.length l = List.length l'.
Proof.
  induction l as [|a l IH]; intros [|b l'] H; simpl; auto.
  - destruct (H O) as [H1 _]. specialize (H1 eq_refl). discriminate.
  - destruct (H O) as [_ H1]. specialize (H1 eq_refl). discriminate.
  - f_equal. apply IH. intro m. exact (H (S m)).
Qed.

Lemma index_of_lt s : forall l n, index_of s l = Some n -> (n < List.length l)%nat.
Proof.
  induction l as [|x r IH]; intros n H; simpl in *; [discriminate|].
  destruct (String.eqb x s); [inversion H; lia|].
  destruct (index_of s r) as [m|]; [|discriminate]. inversion H. specialize (IH m eq_refl). lia.
Qed.

(* ---------------------------------------------------------------------------------- *)
(* isomorphism that also relates callbacks: a functools.partial corresponds to a partial of the
   same function whose bound arguments correspond *)

Inductive vrel2 (h h2 : heap) (M : rel) : val -> val -> Prop :=
| v2_prim p : vrel2 h h2 M (VP p) (VP p)
| v2_obj i i' : In (i, i') M -> vrel2 h h2 M (VO i) (VO i')
| v2_cb j j' fn ks ks' :
    lookup h j = Some (mk (HPartial fn) ks) -> lookup h2 j' = Some (mk (HPartial fn) ks') ->
    Forall2 (vrel false h M) ks ks' -> vrel2 h h2 M (VO j) (VO j').

Record bisim2 (h : heap) (r : val) (h2 : heap) (r2 : val) (M : rel) : Prop := {
  b2_root : vrel2 h h2 M r r2;
  b2_step : forall i i', In (i, i') M ->
            exists n n', lookup h i = Some n /\ lookup h2 i' = Some n' /\ hd n = hd n' /\
                         Forall2 (vrel2 h h2 M) (kids n) (kids n')
}.

Definition is_partial (h : heap) (j : id) : Prop := exists fn ks, lookup h j = Some (mk (HPartial fn) ks).

Definition pairrel (h : heap) (M : rel) (a b : val * val) : Prop :=
  vrel true h M (fst a) (fst b) /\ vrel true h M (snd a) (snd b).

Section Transfer.
  Variables (h h' : heap) (M : rel).
  Hypothesis Bstep : forall i i', In (i, i') M ->
     exists n n', lookup h i = Some n /\ lookup h' i' = Some n' /\ node_rel true h M n n'.

  Lemma field_tr v v' f x : vrel true h M v v' -> field h v f = Some x ->
    exists x', field h' v' f = Some x' /\ vrel true h M x x'.
  Proof.
    intros Hv Hf. destruct Hv as [p|i i' Hin|i n fn _ Hl Hp]; simpl in Hf; try discriminate.
    - destruct (Bstep _ _ Hin) as ([hn ks] & [hn' ks'] & H1 & H2 & H3 & H4). simpl in *. subst hn'.
      rewrite H1 in Hf. rewrite H2. destruct hn; try discriminate.
      destruct (index_of f fs) as [k|]; [|discriminate].
      destruct (Forall2_nth _ _ _ H4 k x Hf) as (y & Hy & Hr). eauto.
    - rewrite Hl in Hf. destruct n as [hn ks]. simpl in Hp. subst hn. discriminate.
  Qed.

  Lemma dict_values_tr v v' vs : vrel true h M v v' -> dict_values h v = Some vs ->
    exists vs', dict_values h' v' = Some vs' /\ Forall2 (vrel true h M) vs vs'.
  Proof.
    intros Hv Hf. destruct Hv as [p|i i' Hin|i n fn _ Hl Hp]; simpl in Hf; try discriminate.
    - destruct (Bstep _ _ Hin) as ([hn ks] & [hn' ks'] & H1 & H2 & H3 & H4). simpl in *. subst hn'.
      rewrite H1 in Hf. rewrite H2. destruct hn; try discriminate. inversion Hf; subst. eauto.
    - rewrite Hl in Hf. destruct n as [hn ks]. simpl in Hp. subst hn. discriminate.
  Qed.

  Lemma collect_flows_tr : forall fss fss' W, Forall2 (vrel true h M) fss fss' ->
    collect_flows h fss = Some W -> exists W', collect_flows h' fss' = Some W' /\ Forall2 (pairrel h M) W W'.
  Proof.
    intros fss fss' W HF. revert W. induction HF as [|fs fs' r r' Hfs _ IH]; intros W H; simpl in *.
    - inversion H. exists []. split; [reflexivity|constructor].
    - destruct (field h fs "heads") as [hv|] eqn:E1; [|discriminate].
      destruct (dict_values h hv) as [heads|] eqn:E2; [|discriminate].
      destruct (collect_flows h r) as [rest|] eqn:E3; [|discriminate].
      inversion H; subst W.
      destruct (field_tr _ _ _ _ Hfs E1) as (hv' & F1 & V1).
      destruct (dict_values_tr _ _ _ V1 E2) as (heads' & F2 & V2).
      destruct (IH rest eq_refl) as (rest' & F3 & V3).
      rewrite F1, F2, F3. eexists. split; [reflexivity|]. apply Forall2_app2; [|exact V3].
      clear -V2 Hfs. induction V2; simpl; constructor; auto. split; auto.
  Qed.

  Lemma collect_heads_tr v v' W : vrel true h M v v' -> collect_heads h v = Some W ->
    exists W', collect_heads h' v' = Some W' /\ Forall2 (pairrel h M) W W'.
  Proof.
    intros Hv H. unfold collect_heads in *.
    destruct (field h v "flow_states") as [fv|] eqn:E1; [|discriminate].
    destruct (dict_values h fv) as [fss|] eqn:E2; [|discriminate].
    destruct (field_tr _ _ _ _ Hv E1) as (fv' & F1 & V1).
    destruct (dict_values_tr _ _ _ V1 E2) as (fss' & F2 & V2).
    rewrite F1, F2. eapply collect_flows_tr; eauto.
  Qed.
End Transfer.

(* ---------------------------------------------------------------------------------- *)
(* the composed theorem *)

Section StateRoundtrip.
  Variables (fl : flags) (C : classes) (h : heap) (rk : id -> nat) (limit : nat) (s : id).
  Variable W0 : list (val * val).

  Hypothesis Hact : fx_action fl = true.
  Hypothesis Hlate : late_tags_free C.
  Hypothesis Hsup : supported fl C h (VO s) = true.
  Hypothesis Hacyc : acyclic h rk.
  Hypothesis Hrank : (rank_of rk (VO s) < limit)%nat.
  (* State shape: state.flow_states[*].heads[*] exist; the heads are distinct FlowHead-like objects *)
  Hypothesis HW : collect_heads h (VO s) = Some W0.
  Hypothesis Hok : heads_ok h W0.
  (* canonical callbacks of a live state: both callback attributes of every head are
     partial(_flow_head_changed, state, its flow state) ... *)
  Hypothesis Hcb : forall fs x, In (fs, VO x) W0 ->
    exists c fds ks p q a b,
      lookup h x = Some (mk (HData c fds) ks) /\ index_of pos_f fds = Some p /\ index_of stat_f fds = Some q /\
      nth_error ks p = Some (VO a) /\ nth_error ks q = Some (VO b) /\
      lookup h a = Some (partial_node (VO s) fs) /\ lookup h b = Some (partial_node (VO s) fs).
  (* ... and no other object refers to a functools.partial *)
  Hypothesis Honly : forall i n k j, lookup h i = Some n -> nth_error (kids n) k = Some (VO j) -> is_partial h j ->
    exists fs c fds ks p q, In (fs, VO i) W0 /\ n = mk (HData c fds) ks /\
                            index_of pos_f fds = Some p /\ index_of stat_f fds = Some q /\ (k = p \/ k = q).

  Lemma heads_ok_tr h' M W' :
    (forall i i', In (i, i') M -> exists n n', lookup h i = Some n /\ lookup h' i' = Some n' /\ node_rel true h M n n') ->
    (forall i1 i2 i', In (i1, i') M -> In (i2, i') M -> i1 = i2) ->
    forall W, heads_ok h W -> Forall2 (pairrel h M) W W' -> heads_ok h' W'.
  Proof.
    intros Bstep Sinj W Hk. revert W'.
    induction Hk as [|fs x W nd c fds ks p q Hl Hc Hn Hk IH]; intros W' HF; inversion HF as [|a b l l' Hab HF']; subst.
    - constructor.
    - destruct b as [fs' hv']. destruct Hab as [_ Hv]. simpl in Hv.
      destruct Hc as (-> & Hp & Hq & Hpq & Hlp & Hlq).
      inversion Hv as [|i i' Hin|i n fn _ Hl2 Hp2]; subst.
      + destruct (Bstep _ _ Hin) as (n & [hn' ks'] & H1 & H2 & H3 & H4). rewrite Hl in H1. inversion H1; subst n.
        simpl in H3, H4. subst hn'. pose proof (Forall2_len2 _ _ _ H4) as Hlen.
        econstructor; [exact H2| |  |apply IH; exact HF'].
        * repeat split; eauto; lia.
        * intros fs'' Hin2. destruct (Forall2_in_r _ _ _ _ HF' Hin2) as ([fs2 hv2] & Hin3 & [_ Hv2]). simpl in Hv2.
          inversion Hv2 as [|i2 i2' Hin4|]; subst. rewrite (Sinj _ _ _ Hin4 Hin) in Hin3. exact (Hn fs2 Hin3).
      + rewrite Hl in Hl2. inversion Hl2; subst n. simpl in Hp2. discriminate.
  Qed.

  Theorem state_roundtrip :
    exists j h2 s' M,
      encode fl limit h (VO s) = Some j /\
      json_to_state fl C limit j = Some (h2, VO s') /\
      bisim2 h (VO s) h2 (VO s') M /\ sharing_preserved h M /\
      (* every head of the restored state carries callbacks bound to the restored State and to
         its own restored FlowState *)
      (forall fs x x', In (fs, VO x) W0 -> In (x, x') M ->
         exists fs' c fds ks p q a b,
           vrel true h M fs fs' /\ lookup h2 x' = Some (mk (HData c fds) ks) /\
           index_of pos_f fds = Some p /\ index_of stat_f fds = Some q /\
           nth_error ks p = Some (VO a) /\ nth_error ks q = Some (VO b) /\ a <> b /\
           lookup h2 a = Some (partial_node (VO s') fs') /\ lookup h2 b = Some (partial_node (VO s') fs')).
  Proof.
    destruct (roundtrip_graph_st fl C h (VO s) rk limit Hact Hlate Hsup Hacyc Hrank)
      as (j & r' & M & st' & Henc & Hdec & [Broot Bstep] & [Sinj Sfun] & Hlt).
    pose proof (dec_fresh fl C _ _ _ _ _ st0_fresh Hdec) as Hfresh.
    (* the root is a State object *)
    assert (Hs : exists c fds ks, lookup h s = Some (mk (HData c fds) ks)).
    { unfold collect_heads, field in HW. destruct (lookup h s) as [[[] ks]|]; try discriminate. eauto. }
    destruct Hs as (cs & fdss & kss & Hs).
    inversion Broot as [|i i' Hsin|i n fn _ Hl Hp]; subst; [|rewrite Hs in Hl; inversion Hl; subst; discriminate].
    rename i' into s'.
    destruct (collect_heads_tr h (dh st') M Bstep _ _ _ Broot HW) as (W' & HW' & HF).
    pose proof (heads_ok_tr (dh st') M W' Bstep Sinj W0 Hok HF) as Hok'.
    destruct (redo_callbacks_spec (dh st') (nxt st') (VO s') W' HW' Hfresh Hok')
      as (h2 & n2 & Hredo & _ & Hheads & Hframe).
    (* heads of the original and of the decoded state correspond *)
    assert (Hhead_l : forall fs x x', In (fs, VO x) W0 -> In (x, x') M ->
                      exists fs', In (fs', VO x') W' /\ vrel true h M fs fs').
    { intros fs x x' Hin HM. destruct (Forall2_in_l _ _ _ _ HF Hin) as ([fs' hv'] & Hin' & [Hv1 Hv2]). simpl in *.
      destruct (Hcb fs x Hin) as (c & fds & ks & p & q & a & b & Hlx & _).
      inversion Hv2 as [|i i2' Hin2|i n fn _ Hl Hp]; subst; [|rewrite Hlx in Hl; inversion Hl; subst; discriminate].
      assert (i2' = x') by (eapply Sfun; eauto; unfold is_list; rewrite Hlx; reflexivity). subst i2'.
      exists fs'. auto. }
    assert (Hhead_r : forall fs' x', In (fs', VO x') W' ->
                      exists fs x, In (fs, VO x) W0 /\ In (x, x') M /\ vrel true h M fs fs').
    { intros fs' x' Hin'. destruct (Forall2_in_r _ _ _ _ HF Hin') as ([fs hv] & Hin & [Hv1 Hv2]). simpl in *.
      inversion Hv2 as [|i i2' Hin2|]; subst. exists fs, i. auto. }
    (* a flow state of W0 is an object related by M *)
    assert (Hfs_obj : forall fs hv fs', In (fs, hv) W0 -> vrel true h M fs fs' -> vrel false h M fs fs').
    { intros fs hv fs' Hin Hv. inversion Hv as [pp|i i' Hi|i n fn _ Hl Hp]; subst; [constructor|now constructor|].
      exfalso. clear -HW Hin Hl Hp. unfold collect_heads in HW.
      destruct (field h (VO s) "flow_states") as [fv|]; [|discriminate].
      destruct (dict_values h fv) as [fss|]; [|discriminate].
      revert W0 HW Hin. induction fss as [|f r IH]; intros W HW Hin; simpl in HW.
      - inversion HW; subst. contradiction.
      - destruct (field h f "heads") as [hv0|] eqn:E; [|discriminate].
        destruct (dict_values h hv0) as [heads|]; [|discriminate].
        destruct (collect_flows h r) as [rest|]; [|discriminate]. inversion HW; subst W.
        apply in_app_or in Hin as [Hin|Hin]; [|eapply IH; eauto].
        apply in_map_iff in Hin as (x0 & Heq & _). inversion Heq; subst f.
        simpl in E. rewrite Hl in E. destruct n as [hn ks]. simpl in Hp. subst hn. discriminate. }
    exists j, h2, s', M. split; [exact Henc|]. split.
    { unfold json_to_state. rewrite Hdec, Hredo. reflexivity. }
    (* the callbacks of a restored head *)
    assert (Hcbs : forall fs x x', In (fs, VO x) W0 -> In (x, x') M ->
         exists fs' c fds ks0 ks p q a b,
           vrel true h M fs fs' /\ lookup (dh st') x' = Some (mk (HData c fds) ks0) /\
           lookup h2 x' = Some (mk (HData c fds) ks) /\
           index_of pos_f fds = Some p /\ index_of stat_f fds = Some q /\
           nth_error ks p = Some (VO a) /\ nth_error ks q = Some (VO b) /\ a <> b /\
           lookup h2 a = Some (partial_node (VO s') fs') /\ lookup h2 b = Some (partial_node (VO s') fs') /\
           (forall m, m <> p -> m <> q -> nth_error ks m = nth_error ks0 m)).
    { intros fs x x' Hin HM. destruct (Hhead_l fs x x' Hin HM) as (fs' & Hin' & Hv).
      destruct (Hheads fs' x' Hin') as (c & fds & ks0 & ks & p & q & a & b & H1 & H2 & H3 & H4 & H5 & H6 & H7 & _ & _ & H10 & H11 & H12).
      exists fs', c, fds, ks0, ks, p, q, a, b. repeat split; auto. }
    split; [|split; [split; assumption|]].
    - constructor; [now constructor|].
      intros i i' Hin. destruct (Bstep _ _ Hin) as (n & n' & Hn & Hn' & Hhd & Hkids).
      destruct (in_dec val_eq_dec (VO i') (map snd W')) as [Hhead|Hnohead].
      + (* a head: its two callback attributes were reassigned *)
        apply in_map_iff in Hhead as ([fs' hv'] & Heq & Hin'). simpl in Heq. subst hv'.
        destruct (Hhead_r fs' i' Hin') as (fs & x & Hin0 & HM & Hv).
        assert (x = i) by (eapply Sinj; eauto). subst x.
        destruct (Hcb fs i Hin0) as (c & fds & ks & p & q & a & b & Hli & Hp & Hq & Ha & Hb & Hla & Hlb).
        destruct (Hcbs fs i i' Hin0 Hin) as (fs2' & c2 & fds2 & ks0 & ks2 & p2 & q2 & a2 & b2 & Hv2 & Hl0 & Hl2 & Hp2 & Hq2 & Ha2 & Hb2 & Hab & Hla2 & Hlb2 & Hoth).
        rewrite Hli in Hn. inversion Hn; subst n. rewrite Hl0 in Hn'. inversion Hn'; subst n'.
        simpl in Hhd, Hkids. inversion Hhd; subst c2 fds2.
        rewrite Hp in Hp2. inversion Hp2; subst p2. rewrite Hq in Hq2. inversion Hq2; subst q2.
        exists (mk (HData c fds) ks), (mk (HData c fds) ks2). split; [exact Hli|]. split; [exact Hl2|]. split; [reflexivity|].
        simpl.
        assert (Hlen : List.length ks2 = List.length ks0).
        { apply length_of_nth_none. intro m.
          destruct (Nat.eq_dec m p) as [->|Hmp].
          - rewrite Ha2. destruct (Forall2_nth _ _ _ Hkids p _ Ha) as (y & Hy & _). rewrite Hy. split; discriminate.
          - destruct (Nat.eq_dec m q) as [->|Hmq].
            + rewrite Hb2. destruct (Forall2_nth _ _ _ Hkids q _ Hb) as (y & Hy & _). rewrite Hy. split; discriminate.
            + rewrite Hoth by auto. tauto. }
        apply Forall2_of_nth; [rewrite (Forall2_len2 _ _ _ Hkids); lia|].
        intros k v v2 Hk Hk2.
        assert (Hfsrel : Forall2 (vrel false h M) [VO s; fs] [VO s'; fs2']).
        { constructor; [now constructor|]. constructor; [|constructor]. eapply Hfs_obj; eauto. }
        destruct (Nat.eq_dec k p) as [->|Hkp].
        { rewrite Ha in Hk. rewrite Ha2 in Hk2. inversion Hk; inversion Hk2; subst.
          eapply v2_cb; [exact Hla|exact Hla2|exact Hfsrel]. }
        destruct (Nat.eq_dec k q) as [->|Hkq].
        { rewrite Hb in Hk. rewrite Hb2 in Hk2. inversion Hk; inversion Hk2; subst.
          eapply v2_cb; [exact Hlb|exact Hlb2|exact Hfsrel]. }
        rewrite Hoth in Hk2 by auto.
        destruct (Forall2_nth _ _ _ Hkids k v Hk) as (y & Hy & Hr). rewrite Hy in Hk2. inversion Hk2; subst y.
        inversion Hr as [pp|j0 j0' Hj|j0 nj fn _ Hlj Hpj]; subst; [constructor|now constructor|].
        exfalso. assert (Hpar : is_partial h j0) by (destruct nj as [hn kk]; simpl in Hpj; subst hn; exists fn, kk; exact Hlj).
        destruct (Honly i _ k j0 Hli Hk Hpar) as (_ & c3 & fds3 & ks3 & p3 & q3 & _ & Heq3 & Hp3 & Hq3 & Hor).
        inversion Heq3; subst. rewrite Hp in Hp3. rewrite Hq in Hq3. inversion Hp3; inversion Hq3; subst. tauto.
      + (* not a head: untouched by the callback pass *)
        assert (Hsame : lookup h2 i' = lookup (dh st') i').
        { apply Hframe; [exact (Hlt _ _ Hin)|]. intros fs' Hin'. apply Hnohead. apply in_map_iff. exists (fs', VO i'). auto. }
        exists n, n'. split; [exact Hn|]. split; [rewrite Hsame; exact Hn'|]. split; [exact Hhd|].
        apply Forall2_of_nth; [exact (Forall2_len2 _ _ _ Hkids)|].
        intros k v v2 Hk Hk2.
        destruct (Forall2_nth _ _ _ Hkids k v Hk) as (y & Hy & Hr). rewrite Hy in Hk2. inversion Hk2; subst y.
        inversion Hr as [pp|j0 j0' Hj|j0 nj fn _ Hlj Hpj]; subst; [constructor|now constructor|].
        exfalso. assert (Hpar : is_partial h j0) by (destruct nj as [hn kk]; simpl in Hpj; subst hn; exists fn, kk; exact Hlj).
        (* only heads refer to partials: i would be a head, hence i' too *)
        destruct (Honly i n k j0 Hn Hk Hpar) as (fs & _ & _ & _ & _ & _ & Hin0 & _).
        destruct (Hhead_l fs i i' Hin0 Hin) as (fs' & Hin' & _).
        apply Hnohead. apply in_map_iff. exists (fs', VO i'). auto.
    - intros fs x x' Hin HM.
      destruct (Hcbs fs x x' Hin HM) as (fs' & c & fds & ks0 & ks & p & q & a & b & H1 & _ & H3 & H4 & H5 & H6 & H7 & H8 & H9 & H10 & _).
      exists fs', c, fds, ks, p, q, a, b. repeat split; auto.
  Qed.
End StateRoundtrip.

(* ---------------------------------------------------------------------------------- *)
(* the shape hypotheses as ONE decidable predicate (evaluated on real states by the harness) *)

Lemma val_eqb_true a b : val_eqb a b = true -> a = b.
Proof. unfold val_eqb. destruct (val_eq_dec a b); [auto|discriminate]. Qed.

Lemma cb_idx_spec h hv x c fds ks p q : cb_idx h hv = Some (x, c, fds, ks, p, q) ->
  hv = VO x /\ lookup h x = Some (mk (HData c fds) ks) /\ cb_node (mk (HData c fds) ks) c fds ks p q.
Proof.
  unfold cb_idx. destruct hv as [|y]; [discriminate|]. destruct (lookup h y) as [[[] kk]|] eqn:El; try discriminate.
  destruct (index_of pos_f fs) as [p0|] eqn:Ep; [|discriminate].
  destruct (index_of stat_f fs) as [q0|] eqn:Eq; [|discriminate].
  destruct (negb (p0 =? q0)%nat && (p0 <? List.length kk)%nat && (q0 <? List.length kk)%nat) eqn:E; [|discriminate].
  intro H. inversion H; subst. apply andb_true_iff in E as [E E3]. apply andb_true_iff in E as [E1 E2].
  apply negb_true_iff in E1. apply Nat.eqb_neq in E1. apply Nat.ltb_lt in E2, E3.
  repeat split; auto.
Qed.

Lemma heads_okb_sound h : forall W, heads_okb h W = true -> heads_ok h W.
Proof.
  induction W as [|[fs hv] r IH]; simpl; intro H; [constructor|].
  destruct (cb_idx h hv) as [[[[[[x c] fds] ks] p] q]|] eqn:E; [|discriminate].
  apply andb_true_iff in H as [H1 H2]. destruct (cb_idx_spec _ _ _ _ _ _ _ _ E) as (-> & Hl & Hc).
  econstructor; eauto. intros fs' Hin. apply negb_true_iff in H1.
  assert (existsb (fun fh : val * val => val_eqb (snd fh) (VO x)) r = true).
  { apply existsb_exists. exists (fs', VO x). split; [exact Hin|]. simpl. unfold val_eqb.
    destruct (val_eq_dec (VO x) (VO x)); congruence. }
  congruence.
Qed.

Lemma is_cb_node_spec h st fs v : is_cb_node h st fs v = true ->
  exists a, v = VO a /\ lookup h a = Some (partial_node st fs).
Proof.
  unfold is_cb_node. destruct v as [|a]; [discriminate|]. destruct (lookup h a) as [[[] kk]|] eqn:El; try discriminate.
  destruct kk as [|v1 [|v2 [|]]]; try discriminate. intro H.
  apply andb_true_iff in H as [H H3]. apply andb_true_iff in H as [H1 H2].
  apply String.eqb_eq in H1. apply val_eqb_true in H2, H3. subst. exists a. split; [reflexivity|exact El].
Qed.

Lemma state_hyps_sound h s : state_hyps h s = true ->
  exists W0,
    collect_heads h (VO s) = Some W0 /\ heads_ok h W0 /\
    (forall fs x, In (fs, VO x) W0 ->
       exists c fds ks p q a b,
         lookup h x = Some (mk (HData c fds) ks) /\ index_of pos_f fds = Some p /\ index_of stat_f fds = Some q /\
         nth_error ks p = Some (VO a) /\ nth_error ks q = Some (VO b) /\
         lookup h a = Some (partial_node (VO s) fs) /\ lookup h b = Some (partial_node (VO s) fs)) /\
    (forall i n k j, lookup h i = Some n -> nth_error (kids n) k = Some (VO j) -> is_partial h j ->
       exists fs c fds ks p q, In (fs, VO i) W0 /\ n = mk (HData c fds) ks /\
                               index_of pos_f fds = Some p /\ index_of stat_f fds = Some q /\ (k = p \/ k = q)).
Proof.
  unfold state_hyps. destruct (collect_heads h (VO s)) as [W|]; [|discriminate]. intro H.
  apply andb_true_iff in H as [H H3]. apply andb_true_iff in H as [H1 H2].
  exists W. split; [reflexivity|]. split; [now apply heads_okb_sound|]. split.
  - intros fs x Hin. unfold cb_okb in H2. rewrite forallb_forall in H2. specialize (H2 _ Hin). cbn [fst snd] in H2.
    destruct (cb_idx h (VO x)) as [[[[[[x0 c] fds] ks] p] q]|] eqn:E; [|discriminate].
    destruct (cb_idx_spec _ _ _ _ _ _ _ _ E) as (Hx & Hl & (_ & Hp & Hq & _)). assert (x0 = x) by congruence. subst x0.
    destruct (nth_error ks p) as [va|] eqn:Ea; [|discriminate]. destruct (nth_error ks q) as [vb|] eqn:Eb; [|discriminate].
    apply andb_true_iff in H2 as [Ha Hb].
    apply is_cb_node_spec in Ha as (a & -> & Hla). apply is_cb_node_spec in Hb as (b & -> & Hlb).
    exists c, fds, ks, p, q, a, b. repeat split; auto.
  - intros i n k j Hl Hk (fn & kk & Hj).
    unfold onlyb in H3. rewrite forallb_forall in H3. specialize (H3 (i, n) (lookup_in _ _ _ Hl)). simpl in H3.
    assert (G : forall l k0 k1, kids_only h W i k0 l = true -> nth_error l k1 = Some (VO j) ->
                head_pos_ok h W i (k0 + k1) = true).
    { induction l as [|v r IHl]; intros k0 k1 Hc Hn; [destruct k1; discriminate|].
      simpl in Hc. apply andb_true_iff in Hc as [Hc1 Hc2]. destruct k1 as [|k1]; simpl in Hn.
      - inversion Hn; subst v. unfold is_partialb in Hc1. rewrite Hj in Hc1. now rewrite Nat.add_0_r.
      - replace (k0 + S k1)%nat with (S k0 + k1)%nat by lia. eapply IHl; eauto. }
    specialize (G _ O k H3 Hk). simpl in G. unfold head_pos_ok in G. apply andb_true_iff in G as [G1 G2].
    apply existsb_exists in G1 as ([fs hv] & Hin & Heq). simpl in Heq. apply val_eqb_true in Heq. subst hv.
    destruct (cb_idx h (VO i)) as [[[[[[x0 c] fds] ks] p] q]|] eqn:E; [|discriminate].
    destruct (cb_idx_spec _ _ _ _ _ _ _ _ E) as (Hx & Hl2 & (_ & Hp & Hq & _)).
    assert (x0 = i) by congruence. subst x0.
    rewrite Hl in Hl2. inversion Hl2; subst n.
    exists fs, c, fds, ks, p, q. repeat split; auto.
    apply orb_true_iff in G2 as [G2|G2]; apply Nat.eqb_eq in G2; auto.
Qed.

(* the composed theorem with the decidable hypothesis *)
Theorem state_roundtrip_b fl C h rk limit s :
  fx_action fl = true -> late_tags_free C ->
  supported fl C h (VO s) = true -> acyclic h rk -> (rank_of rk (VO s) < limit)%nat ->
  state_hyps h s = true ->
  exists j h2 s' M W0,
    encode fl limit h (VO s) = Some j /\
    json_to_state fl C limit j = Some (h2, VO s') /\
    bisim2 h (VO s) h2 (VO s') M /\ sharing_preserved h M /\
    collect_heads h (VO s) = Some W0 /\
    (forall fs x x', In (fs, VO x) W0 -> In (x, x') M ->
       exists fs' c fds ks p q a b,
         vrel true h M fs fs' /\ lookup h2 x' = Some (mk (HData c fds) ks) /\
         index_of pos_f fds = Some p /\ index_of stat_f fds = Some q /\
         nth_error ks p = Some (VO a) /\ nth_error ks q = Some (VO b) /\ a <> b /\
         lookup h2 a = Some (partial_node (VO s') fs') /\ lookup h2 b = Some (partial_node (VO s') fs')).
Proof.
  intros Ha Hl Hs Hac Hr Hh. destruct (state_hyps_sound h s Hh) as (W0 & HW & Hok & Hcb & Honly).
  destruct (state_roundtrip fl C h rk limit s W0 Ha Hl Hs Hac Hr HW Hok Hcb Honly) as (j & h2 & s' & M & H1 & H2 & H3 & H4 & H5).
  exists j, h2, s', M, W0. split; [exact H1|]. split; [exact H2|]. split; [exact H3|]. split; [exact H4|]. split; [exact HW|exact H5].
Qed.
