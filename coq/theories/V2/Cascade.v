(* C10 part 2: the event cascade of ONE run_to_completion - StartFlow events creating instances,
   instances sliding to their next stop, FlowStarted/FlowFinished/FlowFailed/ColangError events
   waking or failing instances that rest on a match for an internal event, finished or failed
   ACTIVATED instances being restarted (`_finish_flow` / `_abort_flow`), the immediate-finish guard
   of `_advance_head_front`, the label `start_new_flow_instance`, actionable heads being advanced
   when the queue is empty.  Definitions only; proofs in Cascade_proofs.v.

   Abstractions (all over-approximations of what can happen, except where stated):
   * which instance reacts how to an internal event is an arbitrary oracle `react`
     (ignore / advance / fail = its match failed / kill = aborted by a dying parent, no restart);
   * expression values: oracle `orc` as in Term.v;
   * one head per instance: programs with ForkHead (groups, when) make the model stop with
     CUnsup - they are covered by the termination harness only;
   * every actionable head wins its action conflict (conflict resolution is C05's subject).
   `guard` = the repaired restart logic of fixes/C10-activated-abort-restart.patch. *)
From Coq Require Import List Arith Bool Lia.
From NG Require Import V2.Term.
Import ListNotations.

Inductive cstatus := CStarting | CStarted | CDead.

Record cinst := {
  c_flow : flowid;
  c_pos : nat;                (* the element the (single) head rests on *)
  c_catch : list label;
  c_status : cstatus;
  c_act : bool;               (* activated > 0 *)
  c_restarted : bool;         (* new_instance_started *)
  c_inert : bool              (* rests on a match for an EXTERNAL event that is not the current one, or is
                                 the zombie of the immediate-finish guard: nothing in this cascade moves it *)
}.

Inductive cev := CStart (f : flowid) (act : bool) | CNote.

Record cstate := { c_insts : list cinst; c_queue : list cev; c_tick : nat }.

Inductive reaction := RIgnore | RAdvance | RFail | RKill.

Inductive cres := COk (st : cstate) | COut | CUnsup.

Definition listening (c : cinst) : bool := match c_status c with CDead => false | _ => true end.
Definition started (c : cinst) : bool := match c_status c with CStarted => true | _ => false end.

Definition fresh (f : flowid) (act : bool) : cinst :=
  {| c_flow := f; c_pos := 0; c_catch := []; c_status := CStarting; c_act := act;
     c_restarted := false; c_inert := false |}.

Definition is_stop (e : elem) : bool :=
  match e with EBlock _ | EWaitInt _ | EWaitHeads => true | _ => false end.

Record rout := { r_inst : cinst; r_right : list cev; r_left : list cev }.

Definition note_if (b : bool) : list cev := if b then [CNote] else [].
Definition start_if (b : bool) (f : flowid) (a : bool) : list cev := if b then [CStart f a] else [].

(* the instance dies by its own failure: _abort_flow(restart_flow = guard -> was STARTED) *)
Definition fail_inst (guard : bool) (c : cinst) (colang_error : bool) (restarted0 : bool) (pos : nat) (cs : list label) : rout :=
  let restart := c_act c && negb restarted0 && (if guard then started c else true) in
  {| r_inst := {| c_flow := c_flow c; c_pos := pos; c_catch := cs; c_status := CDead; c_act := c_act c;
                  c_restarted := restarted0 || restart; c_inert := true |};
     r_right := note_if colang_error ++ [CNote];
     r_left := start_if restart (c_flow c) (c_act c) |}.

(* aborted from outside with deactivate_flow=True (parent finished / failed): no restart *)
Definition kill_inst (c : cinst) : rout :=
  {| r_inst := {| c_flow := c_flow c; c_pos := c_pos c; c_catch := c_catch c; c_status := CDead; c_act := c_act c;
                  c_restarted := c_restarted c; c_inert := true |};
     r_right := [CNote]; r_left := [] |}.

(* _advance_head_front for the head of instance c, which rests on a stop element: position += 1, slide *)
Definition run_inst (guard : bool) (es : list elem) (o : nat -> outcome) (c : cinst) : option rout :=
  let r := slide (length es + 1) es o (S (c_pos c)) (c_catch c) in
  let st := started c in
  let starts := map (fun fa => CStart (fst fa) (snd fa)) (s_starts r) in
  let lbl := s_newinst r && st in                       (* start_new_flow_instance passed while STARTED *)
  let left0 := start_if lbl (c_flow c) (c_act c) in
  let restarted0 := c_restarted c || lbl in
  let mk pos status inert rst :=
      {| c_flow := c_flow c; c_pos := pos; c_catch := s_catch r; c_status := status; c_act := c_act c;
         c_restarted := rst; c_inert := inert |} in
  match s_stop r with
  | OutOfFuel => None
  | Forked _ _ => None
  | Blocked p =>
      match nth_error es p with
      | Some (EBlock BMatch) =>        (* a waiting statement: FlowStarted if not yet started; nothing more in this cascade *)
          Some {| r_inst := mk p CStarted true restarted0; r_right := starts ++ note_if (negb st); r_left := left0 |}
      | Some (EWaitInt true) =>        (* a user-level match on an internal event also counts for `all heads are waiting` *)
          Some {| r_inst := mk p CStarted false restarted0; r_right := starts ++ note_if (negb st); r_left := left0 |}
      | Some _ =>
          Some {| r_inst := mk p (c_status c) false restarted0; r_right := starts; r_left := left0 |}
      | None => None
      end
  | Ended =>
      if negb st && c_act c then
        (* immediate-finish guard: FlowStarted, the flow is not finished, its head becomes inactive *)
        Some {| r_inst := mk (length es) CStarted true restarted0; r_right := starts ++ [CNote]; r_left := left0 |}
      else
        let restart := c_act c && negb restarted0 in
        Some {| r_inst := mk (length es) CDead true (restarted0 || restart);
                r_right := starts ++ note_if (negb st) ++ [CNote];
                r_left := start_if restart (c_flow c) (c_act c) ++ left0 |}
  | Aborted =>
      let f := fail_inst guard c false restarted0 (length es) (s_catch r) in
      Some {| r_inst := r_inst f; r_right := starts ++ r_right f; r_left := r_left f ++ left0 |}
  | Raised p =>
      let f := fail_inst guard c true restarted0 p (s_catch r) in
      Some {| r_inst := r_inst f; r_right := starts ++ r_right f; r_left := r_left f ++ left0 |}
  end.

Fixpoint set_nth {A} (l : list A) (n : nat) (a : A) : list A :=
  match l, n with
  | [], _ => []
  | _ :: l', O => a :: l'
  | x :: l', S n' => x :: set_nth l' n' a
  end.

Definition apply_rout (st : cstate) (i : nat) (ro : rout) : cstate :=
  {| c_insts := set_nth (c_insts st) i (r_inst ro);
     c_queue := r_left ro ++ c_queue st ++ r_right ro;
     c_tick := S (c_tick st) |}.

Definition at_stop (prog : program) (c : cinst) : bool :=
  match nth_error prog (c_flow c) with
  | Some es => match nth_error es (c_pos c) with Some e => is_stop e | None => false end
  | None => false
  end.

Definition movable (prog : program) (c : cinst) : bool := listening c && negb (c_inert c) && at_stop prog c.

Definition react_inst (guard : bool) (prog : program) (orc : nat -> nat -> outcome) (rc : reaction)
           (st : cstate) (i : nat) : cres :=
  match nth_error (c_insts st) i with
  | None => COk st
  | Some c =>
    match rc with
    | RIgnore => COk st
    | RKill => if listening c then COk (apply_rout st i (kill_inst c)) else COk st
    | RFail =>
        if movable prog c then COk (apply_rout st i (fail_inst guard c false (c_restarted c) (c_pos c) (c_catch c)))
        else COk st
    | RAdvance =>
        if movable prog c then
          match nth_error prog (c_flow c) with
          | Some es => match run_inst guard es (orc (c_tick st)) c with
                       | Some ro => COk (apply_rout st i ro)
                       | None => CUnsup
                       end
          | None => COk st
          end
        else COk st
    end
  end.

Fixpoint react_all (guard : bool) (prog : program) (orc : nat -> nat -> outcome) (react : nat -> reaction)
         (idx : list nat) (st : cstate) : cres :=
  match idx with
  | [] => COk st
  | i :: idx' =>
      match react_inst guard prog orc (react i) st i with
      | COk st' => react_all guard prog orc react idx' st'
      | other => other
      end
  end.

(* first instance that rests on an action and can be advanced (it is actionable and wins) *)
Fixpoint find_actionable (prog : program) (l : list cinst) (i : nat) : option nat :=
  match l with
  | [] => None
  | c :: l' =>
      if listening c && negb (c_inert c) &&
         match nth_error prog (c_flow c) with
         | Some es => match nth_error es (c_pos c) with Some (EBlock BAction) => true | _ => false end
         | None => false
         end
      then Some i else find_actionable prog l' (S i)
  end.

Definition step (guard : bool) (prog : program) (orc : nat -> nat -> outcome) (react : nat -> nat -> reaction)
           (st : cstate) : option cres :=        (* None = quiescent *)
  match c_queue st with
  | [] =>
      match find_actionable prog (c_insts st) 0 with
      | None => None
      | Some i => Some (react_inst guard prog orc RAdvance st i)
      end
  | CNote :: q =>
      let st1 := {| c_insts := c_insts st; c_queue := q; c_tick := S (c_tick st) |} in
      Some (react_all guard prog orc (react (c_tick st)) (seq 0 (length (c_insts st))) st1)
  | CStart f a :: q =>
      match nth_error prog f with
      | None => Some (COk {| c_insts := c_insts st; c_queue := q; c_tick := S (c_tick st) |})
      | Some _ =>
          let st1 := {| c_insts := c_insts st ++ [fresh f a]; c_queue := q; c_tick := S (c_tick st) |} in
          Some (react_inst guard prog orc RAdvance st1 (length (c_insts st)))
      end
  end.

(* fuel = number of processed internal events + advances of actionable heads *)
Fixpoint cascade (guard : bool) (prog : program) (orc : nat -> nat -> outcome) (react : nat -> nat -> reaction)
         (fuel : nat) (st : cstate) : cres :=
  match step guard prog orc react st with
  | None => COk st
  | Some r =>
      match fuel with
      | O => COut
      | S f => match r with
               | COk st' => cascade guard prog orc react f st'
               | other => other
               end
      end
  end.

(* ------------------------------------------------------------------------------------------ *)
(* The premise for cascades.  Per flow: static stacks `stk`, a ranking for the cascade graph
   (matches on internal events, actions, merges are crossed) and weights `w` that pay for every
   event a run from a position can still cause:
       w[p] >= 1 + cost of the StartFlow the element at p sends + w[q]   for every cascade step p -> q *)

Definition wat (w : list nat) (len p : nat) : nat := if Nat.ltb p len then nth p w 0 else 0.

Record fcert := { f_rank : list nat; f_stk : list (option (list label)); f_w : list nat }.

Definition newpot (prog : program) (certs : list fcert) (g : flowid) : nat :=
  match nth_error prog g, nth_error certs g with
  | Some es, Some ct => 4 + wat (f_w ct) (length es) 1
  | _, _ => 0
  end.

Definition ev_cost (prog : program) (certs : list fcert) (e : cev) : nat :=
  match e with CNote => 1 | CStart g _ => 1 + newpot prog certs g end.

Definition ecost (prog : program) (certs : list fcert) (self : flowid) (e : elem) : nat :=
  match e with
  | EStart g _ => 1 + newpot prog certs g
  | ELabel _ true => 1 + newpot prog certs self
  | _ => 0
  end.

Definition check_w (prog : program) (certs : list fcert) (f : flowid) (es : list elem) (ct : fcert) : bool :=
  forallb (fun p =>
             match nth_error es p with
             | Some e =>
                 forallb (fun qs => Nat.leb (1 + ecost prog certs f e + wat (f_w ct) (length es) (fst qs))
                                            (wat (f_w ct) (length es) p))
                         (succ_cfg true es (f_stk ct) p)
             | None => true
             end) (seq 0 (length es)).

(* an activated instance that has not yet been STARTED must not become STARTED on a match for an
   internal event (e.g. `await child`): otherwise it could finish and be restarted in the same
   cascade forever.  clean[p]: no EWaitInt true is reachable from p in the cascade graph. *)
Definition check_clean (es : list elem) (stk : list (option (list label))) (clean : list bool) : bool :=
  forallb (fun p =>
             negb (nth p clean false) ||
             (match nth_error es p with Some (EWaitInt true) => Nat.eqb p 0 | _ => true end &&
              forallb (fun qs => Nat.leb (length es) (fst qs) || nth (fst qs) clean false) (succ_cfg true es stk p)))
          (seq 0 (length es)).

Definition activatable (prog : program) (g : flowid) : bool :=
  existsb (fun es => existsb (fun e => match e with EStart g' true => Nat.eqb g g' | _ => false end) es) prog.

Fixpoint forallb_i {A} (f : nat -> A -> bool) (l : list A) (i : nat) : bool :=
  match l with [] => true | a :: l' => f i a && forallb_i f l' (S i) end.

Definition no_fork (es : list elem) : bool :=
  forallb (fun e => match e with EFork _ => false | _ => true end) es.

Definition cascade_cert_ok (prog : program) (certs : list fcert) (cleans : list (list bool)) : bool :=
  Nat.eqb (length certs) (length prog) && Nat.eqb (length cleans) (length prog) &&
  forallb_i (fun f es =>
               match nth_error certs f, nth_error cleans f with
               | Some ct, Some cl =>
                   no_fork es &&
                   match es with EWaitInt true :: _ => true | _ => false end &&    (* match StartFlow(flow_id = f) *)
                   match stk_at (f_stk ct) 0 with Some [] => true | _ => false end &&
                   check_cert true es (f_rank ct) (f_stk ct) &&
                   check_w prog certs f es ct &&
                   check_clean es (f_stk ct) cl &&
                   (negb (activatable prog f) || nth 0 cl false)
               | _, _ => false
               end) prog 0.

(* ---- computing the certificates (nothing below is trusted: only cascade_cert_ok is) *)
Definition w_pass (prog : program) (certs : list fcert) (f : flowid) (es : list elem) (ct : fcert) : list nat :=
  (* positions in decreasing rank order would be ideal; we simply iterate reverse passes *)
  fold_left (fun w p =>
               match nth_error es p with
               | Some e =>
                   let need := fold_left (fun m qs => Nat.max m (1 + ecost prog certs f e + wat w (length es) (fst qs)))
                                         (succ_cfg true es (f_stk ct) p) 0 in
                   set_nth w p (Nat.max need (nth p w 0))
               | None => w
               end) (rev (seq 0 (length es))) (f_w ct).

Definition with_w (ct : fcert) (w : list nat) : fcert := {| f_rank := f_rank ct; f_stk := f_stk ct; f_w := w |}.

Fixpoint w_iter (fuel : nat) (prog : program) (certs : list fcert) : list fcert :=
  match fuel with
  | O => certs
  | S n =>
      let certs' := map (fun fc => with_w (snd (snd fc)) (w_pass prog certs (fst fc) (fst (snd fc)) (snd (snd fc))))
                        (combine (seq 0 (length prog)) (combine prog certs)) in
      w_iter n prog certs'
  end.

Definition clean_pass (es : list elem) (stk : list (option (list label))) (cl : list bool) : list bool :=
  map (fun p => nth p cl false &&
                match nth_error es p with Some (EWaitInt true) => Nat.eqb p 0 | _ => true end &&
                forallb (fun qs => Nat.leb (length es) (fst qs) || nth (fst qs) cl false) (succ_cfg true es stk p))
      (seq 0 (length es)).

Fixpoint clean_iter (fuel : nat) (es : list elem) (stk : list (option (list label))) (cl : list bool) : list bool :=
  match fuel with O => cl | S n => clean_iter n es stk (clean_pass es stk cl) end.

Definition compute_certs (prog : program) (passes : nat) : list fcert * list (list bool) :=
  let base := map (fun es => let stk := compute_stk es in
                             {| f_rank := compute_rank true es stk; f_stk := stk; f_w := repeat 0 (length es) |}) prog in
  let certs := w_iter passes prog base in
  (certs, map (fun ec => clean_iter (length (fst ec)) (fst ec) (f_stk (snd ec)) (repeat true (length (fst ec))))
              (combine prog certs)).

Definition cascade_guardedb (prog : program) : bool :=
  let '(certs, cleans) := compute_certs prog (S (length prog)) in cascade_cert_ok prog certs cleans.

(* ---- the potential of a state and the bound *)
Definition ipot (prog : program) (certs : list fcert) (c : cinst) : nat :=
  if listening c then
    2 + (if started c then 0 else 1) +
    (if c_inert c then 0
     else match nth_error prog (c_flow c), nth_error certs (c_flow c) with
          | Some es, Some ct =>
              1 + wat (f_w ct) (length es) (S (c_pos c)) +
              (if c_act c && negb (c_restarted c) && started c then 1 + newpot prog certs (c_flow c) else 0)
          | _, _ => 0
          end)
  else 0.

Definition phi (prog : program) (certs : list fcert) (st : cstate) : nat :=
  list_sum (map (ipot prog certs) (c_insts st)) + list_sum (map (ev_cost prog certs) (c_queue st)).

(* a bound that depends only on the program (through its certificate) and on the number of live
   instances and queued events *)
Definition flow_cost (prog : program) (certs : list fcert) (f : flowid) : nat :=
  match nth_error prog f, nth_error certs f with
  | Some es, Some ct => list_max (f_w ct) + newpot prog certs f + 5
  | _, _ => 3
  end.
Definition max_flow_cost (prog : program) (certs : list fcert) : nat :=
  list_max (map (flow_cost prog certs) (seq 0 (length prog))) + 3.

Definition rtc_bound (prog : program) (certs : list fcert) (live queued : nat) : nat :=
  (live + queued) * max_flow_cost prog certs.

(* ---- examples *)
(* main: activate a; match X()      a: abort *)
Definition f4_prog : program :=
  [ [EWaitInt true; EStep; EStart 1 true; EWaitInt false; EBlock BMatch];
    [EWaitInt true; EAbort] ].
Definition f4_state : cstate :=
  {| c_insts := [ {| c_flow := 0; c_pos := 0; c_catch := []; c_status := CStarting; c_act := false;
                     c_restarted := false; c_inert := false |} ];
     c_queue := [CNote]; c_tick := 0 |}.
Definition all_true : nat -> nat -> outcome := fun _ _ => OTrue.
Definition all_advance : nat -> nat -> reaction := fun _ _ => RAdvance.

Example f4_guarded : cascade_guardedb f4_prog = true.
Proof. vm_compute. reflexivity. Qed.

Example f4_repaired_terminates :
  match cascade true f4_prog all_true all_advance 20 f4_state with COk st => c_queue st = [] | _ => False end.
Proof. vm_compute. reflexivity. Qed.

Example f4_unchanged_busy :
  cascade false f4_prog all_true all_advance 2000 f4_state = COut.
Proof. vm_compute. reflexivity. Qed.

(* main: activate a; match X()      a: send Out(); abort
   the failing advance of `a` is its SECOND one (after the action), its status is STARTING *)
Definition f5_prog : program :=
  [ [EWaitInt true; EStep; EStart 1 true; EWaitInt false; EBlock BMatch];
    [EWaitInt true; EBlock BAction; EAbort] ].
Definition f5_state : cstate :=
  {| c_insts := [ {| c_flow := 0; c_pos := 3; c_catch := []; c_status := CStarting; c_act := false;
                     c_restarted := false; c_inert := false |} ];
     c_queue := [CStart 1 true]; c_tick := 0 |}.

Example f5_guarded : cascade_guardedb f5_prog = true.
Proof. vm_compute. reflexivity. Qed.

(* repaired guard (restart only if the flow HAD BEEN STARTED): one failure, no restart *)
Example f5_repaired_terminates :
  match cascade true f5_prog all_true all_advance 20 f5_state with
  | COk st => c_queue st = [] /\ length (c_insts st) = 2
  | _ => False
  end.
Proof. vm_compute. split; reflexivity. Qed.

(* a guard that only looks at the first advance (or no guard) restarts it over and over *)
Example f5_unguarded_busy :
  cascade false f5_prog all_true all_advance 2000 f5_state = COut.
Proof. vm_compute. reflexivity. Qed.
