(* Pipe/OptionsRun.v - concrete executable instance of Pipe/Options.v + Pipe/GenLog.v for the
   correspondence with the real LLMRails (harness/c16.py prints cases as Coq terms and
   evaluates `check_turn` / `check_genlog` on them with vm_compute). *)
From Coq Require Import String List Bool Arith.
From NG Require Import Gen.C16Consts Pipe.GenLog Pipe.Options.
Import ListNotations.
Open Scope string_scope.

Definition llm_text_c := "LLM-GEN-TEXT".
Definition refusal_c := "I'm sorry, I can't respond to that.".
Definition predefined_c := "Hello predefined!".

Fixpoint list_beq {A} (eq : A -> A -> bool) (a b : list A) : bool :=
  match a, b with
  | [], [] => true
  | x :: a', y :: b' => eq x y && list_beq eq a' b'
  | _, _ => false
  end.

Definition sitem_beq (a b : sitem) : bool :=
  match a, b with
  | SAct x, SAct y => String.eqb x y
  | SIntent x, SIntent y => String.eqb x y
  | SOther, SOther => true
  | _, _ => false
  end.

Definition pentry_beq (a b : pentry) : bool :=
  match a, b with
  | PStep f i, PStep f' i' => String.eqb f f' && list_beq sitem_beq i i'
  | PEvent t x, PEvent t' x' => String.eqb t t' && String.eqb x x'
  | PLlm t, PLlm t' => String.eqb t t'
  | _, _ => false
  end.

Definition xaction_beq (a b : xaction) : bool :=
  String.eqb (xa_name a) (xa_name b) && list_beq String.eqb (xa_llm a) (xa_llm b).

Definition arail_beq (a b : arail) : bool :=
  String.eqb (ar_type a) (ar_type b) && String.eqb (ar_name a) (ar_name b)
  && list_beq String.eqb (ar_decisions a) (ar_decisions b)
  && list_beq xaction_beq (ar_actions a) (ar_actions b) && Bool.eqb (ar_stop a) (ar_stop b).

Definition cat_beq (a b : category) : bool :=
  match a, b with CIn, CIn | COut, COut | CRet, CRet => true | _, _ => false end.

Definition call_beq (a b : call) : bool :=
  cat_beq (k_cat a) (k_cat b) && Nat.eqb (k_idx a) (k_idx b)
  && String.eqb (k_action a) (k_action b) && String.eqb (k_text a) (k_text b).

Definition opt_beq {A} (eq : A -> A -> bool) (a b : option A) : bool :=
  match a, b with Some x, Some y => eq x y | None, None => true | _, _ => false end.

Definition verdict_of (vs : list verdict) (k : nat) (_ : string) : verdict := nth k vs Accept.

(* what the harness observed on the implementation *)
Inductive expected :=
| ExpUndef                                         (* generate raised / answered with the text of None *)
| ExpFull (reply : string) (cs : list call) (tasks : list string) (pl : list pentry)
          (rails : option (list arail)).           (* None: generate was called without options *)

Record tcase := mkCase { t_cfg : cfg; t_spec : option rails_spec; t_iv : list verdict; t_ov : list verdict;
                         t_user : string; t_bot : option string; t_exp : expected }.

Definition model_of (tc : tcase) : outcome :=
  turn (verdict_of (t_iv tc)) (verdict_of (t_ov tc)) llm_text_c refusal_c predefined_c
       (t_cfg tc) (option_map parse_rails (t_spec tc)) (t_user tc) (t_bot tc).

Definition check_turn (tc : tcase) : bool :=
  let r := model_of tc in
  match t_exp tc, answer r with
  | ExpUndef, RUndefBot => true
  | ExpFull rep cs tasks pl rails, RText s =>
    String.eqb rep s && list_beq call_beq cs (calls r) && list_beq String.eqb tasks (llm r)
    && list_beq pentry_beq pl (plog r)
    && match rails with
       | None => true
       | Some rs => opt_beq (list_beq arail_beq) (Some rs) (gen_log (plog r))
                    && list_beq (fun a b => String.eqb (fst a) (fst b) && String.eqb (snd a) (snd b))
                                (map (fun a => (ar_type a, ar_name a)) rs) (ran r)
       end
  | _, _ => false
  end.

(* pure differential of compute_generation_log *)
Definition check_genlog (c : list pentry * option (list arail)) : bool :=
  opt_beq (list_beq arail_beq) (snd c) (gen_log (fst c)).

Example check_turn_smoke :
  check_turn (mkCase (mkCfg [mkRail "in0" "in_rail_0"] [] [] General "greet" "express greeting")
                     (Some (RList ["input"])) [Rewrite "IN0-REWRITTEN"] [] "hi" None
                     (ExpFull "IN0-REWRITTEN" [mkCall CIn 0 "in_rail_0" "hi"] []
                        (plog (turn (verdict_of [Rewrite "IN0-REWRITTEN"]) (verdict_of []) llm_text_c refusal_c predefined_c
                                    (mkCfg [mkRail "in0" "in_rail_0"] [] [] General "greet" "express greeting")
                                    (Some (parse_rails (RList ["input"]))) "hi" None))
                        (Some [mkR "input" "in0" ["execute in_rail_0"] [mkX "in_rail_0" []] false]))) = true.
Proof. vm_compute. reflexivity. Qed.
