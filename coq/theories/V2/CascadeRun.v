(* Executable checkers for the cascade part of the C10 correspondence. *)
From Coq Require Import List Arith Bool.
From NG Require Import V2.Term V2.Cascade.
Import ListNotations.

(* is the (real, loaded) program inside the class covered by C10_rtc_bound_partial? *)
Definition in_class (prog : program) : bool := cascade_guardedb prog.

(* case = (program, [(live instances before the event, internal events processed by the real
   run_to_completion)]).  The real interpreter additionally emits one UnhandledEvent per internal
   event nobody matches, hence the factor 2. *)
Definition check_bound (c : program * list (nat * nat)) : bool :=
  let '(prog, obs) := c in
  let '(certs, cleans) := compute_certs prog (S (length prog)) in
  negb (cascade_cert_ok prog certs cleans) ||
  forallb (fun ls => Nat.leb (snd ls) (2 * rtc_bound prog certs (fst ls) 1 + 2)) obs.

Definition bound_of (c : program * nat) : nat :=
  let '(prog, lv) := c in
  let '(certs, cleans) := compute_certs prog (S (length prog)) in
  rtc_bound prog certs lv 1.
