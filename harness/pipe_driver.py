"""Driver of the REAL rails pipeline for C01/C02 (shared by harness/c01.py and harness/c02.py).

Builds `LLMRails` instances (Colang 1.0 and 2.x) whose input/output rails are custom flows that
each `execute` their own scripted action registered with `app.register_action`, with a
recording FakeLLM, and drives multi-turn conversations through `LLMRails.generate`
(messages API on ONE instance; Colang 2.x with the returned `state`).

A *case* is a JSON-able dict

  {"ver": "v1"|"v2", "mode": "general"|"passthrough"|"dialog", "exc": bool,
   "n_in": k, "n_out": m,
   "turns": [{"user": <text>, "kind": "p"|"f"|"n"|"",      # dialog-turn kind (dialog mode only)
              "iv": [verdict per input rail], "ov": [verdict per output rail]}]}

verdict: "a" accept | "r" reject | "w" rewrite (the rewritten text is a unique marker computed by
`rw_text`).  `run_case` returns, per turn, the ordered observation list
  ["I", k, text_seen] | ["O", k, text_seen] | ["L", kind, call_idx, [markers present in the prompt]]
and the reply (content or the exception message) plus the persistent flag after the turn.
Nothing here knows what the property demands; it only observes.
"""
from __future__ import annotations

import json
import logging
import os
import re
import sys

from harness import common as C

REFUSAL = "REFUSAL-MSG"
PREDEF = "PREDEF-HELLO"
V2_REFUSAL_IN = "REFUSAL-MSG"
V2_REFUSAL_OUT = "REFUSAL-MSG"

MARK_RE = re.compile(r"\b(?:U|RI|RO|L)[0-9]+(?:x[0-9]+)*z\b")


def user_text(t, salt=""):
    return f"U{t}z{salt}"


def rw_text(side, t, k, j=0):
    """Unique marker text a rewriting rail k returns at turn t (side 'I'/'O'; j = bot message idx)."""
    return f"R{side}{t}x{k}x{j}z"


def llm_text(t, i):
    """Unique marker carried by the i-th LLM completion of turn t."""
    return f"L{t}x{i}z"


def in_exc_msg(k):
    return f"Input blocked by in rail {k}"


def out_exc_msg(k):
    return f"Output blocked by out rail {k}"


# ---------------------------------------------------------------------------------------
# embedding search provider (deterministic, exact substring; no model download)

CFG_DIR = os.path.join(C.BUILD, "pipe_cfg")
CONFIG_PY = '''
from typing import List, Optional
from nemoguardrails.embeddings.index import EmbeddingsIndex, IndexItem


class VerifIndex(EmbeddingsIndex):
    """All items, in insertion order (no embeddings)."""

    def __init__(self, **kwargs):
        self.items: List[IndexItem] = []

    @property
    def embedding_size(self):
        return 0

    async def add_item(self, item: IndexItem):
        self.items.append(item)

    async def add_items(self, items: List[IndexItem]):
        self.items.extend(items)

    async def build(self):
        pass

    async def search(self, text: str, max_results: int = 5, threshold: Optional[float] = None):
        return list(self.items)[:max_results]


def init(app):
    app.register_embedding_search_provider("verif", VerifIndex)
'''


def ensure_cfg_dir():
    os.makedirs(CFG_DIR, exist_ok=True)
    p = os.path.join(CFG_DIR, "config.py")
    if not os.path.exists(p) or open(p).read() != CONFIG_PY:
        tmp = p + f".{os.getpid()}.tmp"
        with open(tmp, "w") as f:
            f.write(CONFIG_PY)
        os.replace(tmp, p)
    return CFG_DIR


# ---------------------------------------------------------------------------------------


class Recorder:
    """Mutable script + observation log shared by the scripted actions and the fake LLM."""

    def __init__(self):
        self.turn = 0
        self.iv = []
        self.ov = []
        self.obs = []
        self.llm_i = 0
        self.kind = ""
        self.out_j = 0   # index of the bot message currently being checked (by first out rail call)
        self.llm_script = None


def _mk_llm(rec):
    sys.path.insert(0, C.REPO)
    from tests.utils import FakeLLM

    class RecLLM(FakeLLM):
        def _reply(self, prompt):
            text = prompt if isinstance(prompt, str) else json.dumps(prompt, default=str)
            kind, resp = rec.llm_script(text)
            rec.obs.append(["L", kind, rec.llm_i, sorted(set(MARK_RE.findall(text)))])
            rec.llm_i += 1
            return resp

        def _call(self, prompt, stop=None, run_manager=None, **kw):
            return self._reply(prompt)

        async def _acall(self, prompt, stop=None, run_manager=None, **kw):
            return self._reply(prompt)

    return RecLLM(responses=[])


V1_RAIL_IN = """
define flow in rail {k}
  $r = execute in_rail_{k}
  if $r == "__REJECT__"
    if $config.enable_rails_exceptions
      create event InputRailException(message="{msg}")
    else
      bot refuse to respond
    stop
  if $r
    $user_message = $r
"""

V1_RAIL_OUT = """
define flow out rail {k}
  $r = execute out_rail_{k}
  if $r == "__REJECT__"
    if $config.enable_rails_exceptions
      create event OutputRailException(message="{msg}")
    else
      bot refuse to respond
    stop
  if $r
    $bot_message = $r
"""

V1_DIALOG = """
define user express greeting
  "hello there"

define user ask question
  "a question"

define flow greeting
  user express greeting
  bot express greeting

define flow question
  user ask question
  bot answer question

define bot express greeting
  "{predef}"
"""


def build_v1(n_in, n_out, mode, exc):
    logging.disable(logging.CRITICAL)
    sys.path.insert(0, C.REPO)
    from nemoguardrails import LLMRails, RailsConfig

    rec = Recorder()
    co = f'define bot refuse to respond\n  "{REFUSAL}"\n'
    for k in range(n_in):
        co += V1_RAIL_IN.format(k=k, msg=in_exc_msg(k))
    for k in range(n_out):
        co += V1_RAIL_OUT.format(k=k, msg=out_exc_msg(k))
    if mode == "dialog":
        co += V1_DIALOG.format(predef=PREDEF)
    yml = "models: []\n"
    yml += "rails:\n"
    yml += "  input:\n    flows: [" + ", ".join(f"in rail {k}" for k in range(n_in)) + "]\n"
    yml += "  output:\n    flows: [" + ", ".join(f"out rail {k}" for k in range(n_out)) + "]\n"
    if exc:
        yml += "enable_rails_exceptions: true\n"
    if mode == "passthrough":
        yml += "passthrough: true\n"
    yml += "core:\n  embedding_search_provider:\n    name: verif\n"
    config = RailsConfig.from_content(co, yml)
    config.config_path = ensure_cfg_dir()
    app = LLMRails(config, llm=_mk_llm(rec))

    def mk_in(k):
        async def act(context=None):
            rec.obs.append(["I", k, (context or {}).get("user_message")])
            v = rec.iv[k] if k < len(rec.iv) else "a"
            return {"a": None, "r": "__REJECT__", "w": rw_text("I", rec.turn, k)}[v]
        return act

    def mk_out(k):
        async def act(context=None):
            if k == 0 or not any(o[0] == "O" for o in rec.obs):
                pass
            rec.obs.append(["O", k, (context or {}).get("bot_message")])
            v = rec.ov[k] if k < len(rec.ov) else "a"
            return {"a": None, "r": "__REJECT__", "w": rw_text("O", rec.turn, k)}[v]
        return act

    for k in range(n_in):
        app.register_action(mk_in(k), f"in_rail_{k}")
    for k in range(n_out):
        app.register_action(mk_out(k), f"out_rail_{k}")
    return app, rec


def _v1_llm_script(rec, mode):
    def script(prompt_text):
        i = rec.llm_i
        m = llm_text(rec.turn, i)
        if mode in ("general", "passthrough"):
            return ("general" if mode == "general" else "passthrough"), f"{m}"
        # dialog: decide by the task the prompt belongs to (sniff the rendered template tail)
        kind = rec.kind
        n_calls_before = i
        if n_calls_before == 0:
            intent = {"p": "express greeting", "f": "ask question", "n": "ask something else"}[kind]
            return "intent", f"  {intent} {m}" if False else f"  {intent}"
        if kind == "n" and n_calls_before == 1:
            return "next", "bot respond something"
        return "botmsg", f'  "{m}"'
    return script


def run_v1(app, rec, case):
    mode = case["mode"]
    app.events_history_cache.clear()
    rec.llm_script = _v1_llm_script(rec, mode)
    history = []
    turns_out = []
    for t, turn in enumerate(case["turns"]):
        rec.turn, rec.iv, rec.ov, rec.kind = t, turn["iv"], turn["ov"], turn.get("kind", "")
        rec.obs, rec.llm_i = [], 0
        history.append({"role": "user", "content": turn["user"]})
        try:
            res = app.generate(messages=history)
        except Exception as e:  # noqa: BLE001 - an escaping exception is an observation
            turns_out.append({"obs": rec.obs, "error": f"{type(e).__name__}: {e}"[:300]})
            break
        if res.get("role") == "exception":
            reply = ["exc", res["content"].get("type"), res["content"].get("message")]
        else:
            reply = ["msg", res.get("content")]
        history.append(res)
        # persistent context as the next turn will see it
        from nemoguardrails.colang.v1_0.runtime.flows import compute_context
        ck = None
        for key, evs in app.events_history_cache.items():
            ck = evs
        ctx = compute_context(ck) if ck else {}
        turns_out.append({"obs": rec.obs, "reply": reply,
                          "skip": bool(ctx.get("skip_output_rails")),
                          "ctx": {k: ctx.get(k) for k in ("user_message", "bot_message", "triggered_input_rail", "triggered_output_rail")}})
    return turns_out


if __name__ == "__main__":
    case = json.loads(sys.argv[1])
    if case["ver"] == "v1":
        app, rec = build_v1(case["n_in"], case["n_out"], case["mode"], case["exc"])
        for t in run_v1(app, rec, case):
            print(json.dumps(t))
