(* C15 - the per-request state generate_async keeps in context variables
   (nemoguardrails/context.py: generation_options_var, raw_llm_request, llm_stats_var).

   An asyncio context is a map variable -> value.  A task created from a context starts with a
   COPY of it (Fork); what a task sets is invisible to its parent and siblings.  Requests
   served by the same coroutine run in the SAME context, one after the other.  A request
       generation_options_var.set(options)     -- options may be None
       ... the generation actions read generation_options_var.get() at every LLM call
   is modelled by one step: the entry code writes the variable, the calls of that request read
   it.  `always_set` says whether the entry code writes unconditionally (the shipped code) or
   only when the request carries options.  Values are abstract (V); None = no options. *)
From Coq Require Import List Bool Arith.
Import ListNotations.

Section Ctx.
  Variable V : Type.

  Definition ctxs := nat -> option V.          (* context id -> value of the variable there *)

  Definition cset (c : ctxs) (k : nat) (v : option V) : ctxs :=
    fun x => if Nat.eqb x k then v else c x.

  Inductive cop : Type :=
  | CFork (parent child : nat)                 (* create_task / run_until_complete: child context := copy *)
  | CReq (k : nat) (own : option V).           (* a request with these options served in context k *)

  (* what the entry code leaves in the variable *)
  Definition entry (always_set : bool) (own old : option V) : option V :=
    if always_set then own else match own with Some _ => own | None => old end.

  (* one step: new contexts, and for a request what its LLM calls see *)
  Definition cstep (always_set : bool) (c : ctxs) (o : cop) : ctxs * option (option V * option V) :=
    match o with
    | CFork p ch => (cset c ch (c p), None)
    | CReq k own =>
        let v := entry always_set own (c k) in
        (cset c k v, Some (own, v))
    end.

  (* log of (own options, options seen at the LLM calls) *)
  Fixpoint crun (always_set : bool) (c : ctxs) (ops : list cop) : list (option V * option V) :=
    match ops with
    | [] => []
    | o :: rest =>
        let '(c', ob) := cstep always_set c o in
        match ob with Some x => x :: crun always_set c' rest | None => crun always_set c' rest end
    end.

  Definition cinit : ctxs := fun _ => None.
End Ctx.

Arguments CFork {V} _ _.
Arguments CReq {V} _ _.

(* ---- trace check used by the correspondence: values are small numbers ---- *)
Definition oeqb (a b : option nat) : bool :=
  match a, b with
  | None, None => true
  | Some x, Some y => Nat.eqb x y
  | _, _ => false
  end.

(* one observed request: context it ran in, its own options, the options its LLM calls saw;
   forks are explicit *)
Inductive clog : Type :=
| LFork (parent child : nat)
| LReq (k : nat) (own seen : option nat).

Fixpoint check_csteps (always_set : bool) (c : ctxs nat) (log : list clog) : bool :=
  match log with
  | [] => true
  | LFork p ch :: rest => check_csteps always_set (cset nat c ch (c p)) rest
  | LReq k own seen :: rest =>
      let v := entry nat always_set own (c k) in
      oeqb v seen && check_csteps always_set (cset nat c k v) rest
  end.

Example stale_options :
  crun nat false (cinit nat) [CReq 0 (Some 7); CReq 0 None] = [(Some 7, Some 7); (None, Some 7)].
Proof. reflexivity. Qed.
