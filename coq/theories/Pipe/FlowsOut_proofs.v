(* Pipe.FlowsOut_proofs - the library rail `self check output` as read from the CURRENT source
   (Colang 1.0 flows.v1.co and Colang 2.x flows.co): a rejection stops / aborts on every path.
   Kept apart from Flows_proofs.v so that C01 does not depend on the output-side library flow. *)
From Coq Require Import List String Bool ZArith.
From NG Require Import Pipe.FlowCheck Gen.C01Flows.
Import ListNotations.
Open Scope string_scope.

(* `self check output`: a rejection reaches `stop` on every path - also when
   enable_rails_exceptions is set (the shipped flow had `stop` only under the `else`; see
   fixes/C02-selfcheck-output-stop.patch) *)
Lemma self_check_output_stops : reject_stops_ok v1_self_check_output [] = true.
Proof. vm_compute. reflexivity. Qed.

(* the Colang 2 twin *)
Lemma v2_self_check_output_aborts : v2_reject_aborts v2lib_self_check_output "not $allowed" = true.
Proof. vm_compute. reflexivity. Qed.

