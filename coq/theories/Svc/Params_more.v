(* C15 - further facts about Svc/Params.v:
   * under the no-overlap hypothesis the configured parameters are in place at EVERY moment at
     which nothing is in flight (not only at the end of the schedule);
   * properly nested windows (LIFO, as in nested `with` blocks) still restore the configured
     object, but the inner window's parameters are what the outer call sees. *)
From Coq Require Import List Bool Arith ZArith Lia.
From NG Require Import Svc.Params Svc.Params_proofs.
Import ListNotations.

Section Every.
  Variable l : llm.

  Lemma srun_one : forall s t, srun [t] s = (fst (sstep s t), match snd (sstep s t) with Some x => [x] | None => [] end).
  Proof. intros s t. simpl. destruct (sstep s t) as [s1 ob]. reflexivity. Qed.

  (* after the first step of a block: still at rest, or a window is open and the call is next *)
  Lemma first_step : forall s t,
      SInv l s ->
      (fst (sstep s t) = s) \/
      (p_open (s_st (fst (sstep s t))) t <> [] /\ exists rest, s_prog (fst (sstep s t)) t = OCall :: rest).
  Proof.
    intros s t [Hl [Hopen Hprog]]. destruct (Hprog t) as [calls [Hp Hn]].
    destruct calls as [|alt calls].
    - left. simpl in Hp. rewrite (sstep_nil s t Hp). reflexivity.
    - right. change (task_ops (alt :: calls)) with (OEnter alt :: OCall :: OExit :: task_ops calls) in Hp.
      destruct (enter alt (p_llm (s_st s)) []) as [l1 sv] eqn:Een.
      assert (H1 : pstep (s_st s) t (OEnter alt)
                   = Some (PState l1 (pupd (p_open (s_st s)) t (Window alt sv :: p_open (s_st s) t)), None)).
      { unfold pstep. rewrite Een. reflexivity. }
      rewrite (sstep_cons s t _ _ _ _ Hp H1). simpl. split.
      + rewrite pupd_same. discriminate.
      + eexists. apply supd_same.
  Qed.

  Lemma call_step : forall s t rest,
      p_open (s_st s) t <> [] -> s_prog s t = OCall :: rest ->
      p_open (s_st (fst (sstep s t))) t <> [].
  Proof.
    intros s t rest Hopen Hp.
    assert (H : pstep (s_st s) t OCall
                = Some (s_st s, Some (PObs t (match p_open (s_st s) t with w :: _ => w_altered w | [] => [] end) (p_llm (s_st s))))).
    { reflexivity. }
    rewrite (sstep_cons s t _ _ _ _ Hp H). simpl. exact Hopen.
  Qed.

  Lemma srun_fst_app : forall a b s, fst (srun (a ++ b) s) = fst (srun b (fst (srun a s))).
  Proof.
    intros a b s. rewrite srun_app. destruct (srun a s) as [s1 l1]. simpl.
    destruct (srun b s1) as [s2 l2]. reflexivity.
  Qed.

  Theorem quiescent_configured : forall sched,
      serial sched -> forall s pre post,
      SInv l s -> sched = pre ++ post ->
      quiescent (fst (srun pre s)) -> p_llm (s_st (fst (srun pre s))) = l.
  Proof.
    intros sched Hser. induction Hser as [|t rest Hser IH]; intros s pre post HInv Heq Hq.
    - symmetry in Heq. apply app_eq_nil in Heq. destruct Heq as [-> _]. simpl. apply HInv.
    - destruct pre as [|a pre]; [simpl; apply HInv|].
      simpl in Heq. injection Heq as Ha Heq. subst a.
      destruct pre as [|b pre].
      + (* one step into the block *)
        rewrite srun_one in *. simpl in *.
        destruct (first_step s t HInv) as [E | [Hopen _]].
        * rewrite E. apply HInv.
        * exfalso. apply Hopen. apply Hq.
      + simpl in Heq. injection Heq as Hb Heq. subst b.
        destruct pre as [|c pre].
        * (* two steps into the block *)
          change [t; t] with ([t] ++ [t]) in *. rewrite srun_fst_app in *. rewrite !srun_one in *. simpl in *.
          destruct (first_step s t HInv) as [E | [Hopen [r Hp]]].
          { rewrite E in *. destruct (first_step s t HInv) as [E2 | [Hopen2 _]].
            - rewrite E2. apply HInv.
            - exfalso. apply Hopen2. apply Hq. }
          { exfalso. apply (call_step _ t r Hopen Hp). apply Hq. }
        * simpl in Heq. injection Heq as Hc Heq. subst c.
          change (t :: t :: t :: pre) with ([t; t; t] ++ pre) in *. rewrite srun_fst_app in *.
          destruct (block_ok l s t HInv) as [HInv1 _].
          eapply IH; eassumption.
  Qed.
End Every.

(* whenever nothing is in flight during a no-overlap schedule, the parameters are the configured ones *)
Theorem quiescent_always_configured : forall l tasks sched pre post,
    (forall t, Forall (normal l) (tasks t)) -> serial sched -> sched = pre ++ post ->
    quiescent (fst (srun pre (sinit l tasks))) ->
    p_llm (s_st (fst (srun pre (sinit l tasks)))) = l.
Proof.
  intros l tasks sched pre post Hn Hser Heq Hq.
  eapply quiescent_configured; eauto. apply SInv_init. exact Hn.
Qed.

(* nested windows: enter A, enter B, exit B, exit A restores the configured object ... *)
Theorem nested_restores : forall l a b,
    normal l a -> normal (fst (enter a l [])) b ->
    let '(l1, sa) := enter a l [] in
    let '(l2, sb) := enter b l1 [] in
    exit_ sa (exit_ sb l2) = l.
Proof.
  intros l a b Ha Hb.
  destruct (enter a l []) as [l1 sa] eqn:Ea. simpl in Hb.
  destruct (enter b l1 []) as [l2 sb] eqn:Eb.
  pose proof (exit_enter b l1 Hb) as H1. rewrite Eb in H1. simpl in H1. rewrite H1.
  pose proof (exit_enter a l Ha) as H2. rewrite Ea in H2. exact H2.
Qed.

(* ... but what the LLM sees inside is the inner window's value for shared parameters *)
Example nested_call_sees_inner :
  let l := Llm [(0, PVal 500)] None in
  let '(l1, _) := enter [(0, PVal 200)] l [] in
  let '(l2, _) := enter [(0, PVal 900)] l1 [] in
  l2 = Llm [(0, PVal 900)] None.
Proof. reflexivity. Qed.
