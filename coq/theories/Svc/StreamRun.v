(* C18 - executable instance of the streaming-handler model over code points (A := N) and the
   check functions used by the correspondence: one case = configuration, chunk list, end mode
   and everything observed on the real StreamingHandler after driving it with exactly these
   calls (every queue item in order, completion, finished flag, current_chunk, whether the
   prefix is still pending). Nothing here is used by the theorems. *)
From Coq Require Import List Bool NArith Arith.
From NG Require Import Svc.Stream.
Import ListNotations.

Definition nstr := list N.

Fixpoint list_eqb {B} (e : B -> B -> bool) (a b : list B) : bool :=
  match a, b with
  | [], [] => true
  | x :: a', y :: b' => e x y && list_eqb e a' b'
  | _, _ => false
  end.

Definition nstr_eqb : nstr -> nstr -> bool := list_eqb N.eqb.

Definition item_eqb (a b : option nstr) : bool :=
  match a, b with
  | None, None => true
  | Some x, Some y => nstr_eqb x y
  | _, _ => false
  end.

(* observation of a handler: queue items, completion, finished, current_chunk, prefix pending *)
Definition obs := (list (option nstr) * nstr * bool * nstr * bool)%type.

Definition obs_of (st : state N) : obs :=
  (s_queue st, s_completion st, s_finished st, s_cur st, truthy (s_prefix st)).

Definition obs_eqb (a b : obs) : bool :=
  let '(q1, c1, f1, k1, p1) := a in
  let '(q2, c2, f2, k2, p2) := b in
  list_eqb item_eqb q1 q2 && nstr_eqb c1 c2 && Bool.eqb f1 f2 && nstr_eqb k1 k2 && Bool.eqb p1 p2.

(* end mode as a number in the generated cases: 0 on_llm_end, 1 push_chunk(""), 2 push_chunk(None) *)
Definition end_of_nat (n : nat) : end_mode :=
  match n with 0 => EndLLM | 1 => EndEmpty | _ => EndNone end.

Definition case := (option nstr * option nstr * list nstr * list nstr * nat * obs)%type.

(* 3: the LangChain callback path (on_llm_new_token per chunk, on_llm_end), text-completion style;
   4: the same for a chat model: on_chat_model_start first and an empty first token before the chunks *)
Definition run_c (p s : option nstr) (stops chunks : list nstr) (e : nat) : state N :=
  match e with
  | 3 => run_tokens N.eqb (mkConfig p s stops) false chunks
  | 4 => run_tokens N.eqb (mkConfig p s stops) true ([] :: chunks)
  | _ => run N.eqb (mkConfig p s stops) chunks (end_of_nat e)
  end.

Definition run_old_c (p s : option nstr) (stops chunks : list nstr) (e : nat) : state N :=
  run_old N.eqb (mkConfig p s stops) chunks (end_of_nat e).

(* repaired handler *)
Definition check_stream (c : case) : bool :=
  let '(p, s, stops, chunks, e, o) := c in
  obs_eqb (obs_of (run_c p s stops chunks e)) o.

(* piped: the downstream handler (no patterns) forwards every item to its own queue and ignores
   whatever arrives after the first end marker ("CHUNK after finish") *)
Fixpoint upto_end (q : list (option nstr)) : list (option nstr) :=
  match q with
  | [] => []
  | i :: q' => if is_end i then [i] else i :: upto_end q'
  end.

Definition check_stream_pipe (c : case) : bool :=
  let '(p, s, stops, chunks, e, o) := c in
  let '(q, c1, f, k, pp) := obs_of (run_c p s stops chunks e) in
  obs_eqb (upto_end q, c1, f, k, pp) o.

(* handler of the pinned snapshot *)
Definition check_stream_old (c : case) : bool :=
  let '(p, s, stops, chunks, e, o) := c in
  let st := run_old_c p s stops chunks e in
  negb (s_err st) && obs_eqb (obs_of st) o.

(* a whole text at once: every chunking of `text`, in the order of the bit masks 0 .. 2^(n-1)-1
   (bit i-1 set = a cut before position i), against the list of observations *)
Fixpoint chunkings (text : nstr) : list (list nstr) :=
  match text with
  | [] => [[]]
  | a :: rest =>
      match rest with
      | [] => [[[a]]]
      | _ =>
          flat_map (fun ch => match ch with
                              | [] => []
                              | c :: more => [ (a :: c) :: more ; [a] :: c :: more ]
                              end) (chunkings rest)
      end
  end.

(* ---- a whole text at once -------------------------------------------------------------
   The harness drives the real handler on EVERY chunking of `text` (mask order), serialises each
   observation into a prefix-free symbol sequence and folds everything into one polynomial hash
   (base 257, modulus 2^61-1); the model does the same here and the two numbers are compared.
   A differing hash is then resolved by the harness with per-chunking `check_stream` cases. *)
Definition M61 : N := 2305843009213693951.
Definition red61 (x : N) : N :=
  let y := (N.land x M61 + N.shiftr x 61)%N in if (M61 <=? y)%N then (y - M61)%N else y.
Definition hstep (h sym : N) : N := red61 (257 * h + sym)%N.

Definition hstr (h : N) (s : nstr) : N := fold_left (fun h c => hstep h (c + 10)%N) s h.
Definition hbool (h : N) (b : bool) : N := hstep h (if b then 6 else 7)%N.
Definition hitem (h : N) (i : option nstr) : N :=
  match i with
  | None => hstep h 1%N
  | Some s => hstep (hstr (hstep h 2%N) s) 3%N
  end.
Definition hobs (h : N) (o : obs) : N :=
  let '(q, c, f, k, p) := o in
  let h1 := hstep (fold_left hitem q h) 4%N in
  let h2 := hstep (hstr h1 c) 5%N in
  let h3 := hbool h2 f in
  let h4 := hstep (hstr h3 k) 8%N in
  hbool h4 p.

Definition tcase := (option nstr * option nstr * list nstr * nstr * nat * N)%type.

Definition hash_text (runner : option nstr -> option nstr -> list nstr -> list nstr -> nat -> state N)
           (p s : option nstr) (stops : list nstr) (text : nstr) (e : nat) : N :=
  fold_left (fun h ch => hobs h (obs_of (runner p s stops ch e))) (chunkings text) 0%N.

Definition check_text (c : tcase) : bool :=
  let '(p, s, stops, text, e, h) := c in N.eqb (hash_text run_c p s stops text e) h.

Definition check_text_old (c : tcase) : bool :=
  let '(p, s, stops, text, e, h) := c in
  N.eqb (hash_text run_old_c p s stops text e) h
  && forallb (fun ch => negb (s_err (run_old_c p s stops ch e))) (chunkings text).

Definition spec_c (p s : option nstr) (stops : list nstr) (text : nstr) : nstr :=
  spec N.eqb (mkConfig p s stops) text.

Definition delivered_c (st : state N) : nstr := concat (delivered (s_queue st)).

(* sanity: the two F2 witnesses of DESIGN.md section 5 on both transcriptions; P=80 S=83 X=88 a=97 *)
Example old_suffix_leaks :
  delivered_c (run_old_c (Some [80%N]) (Some [83%N]) [] [[80; 83]%N] 0) = [83%N].
Proof. vm_compute. reflexivity. Qed.
Example new_suffix_held :
  delivered_c (run_c (Some [80%N]) (Some [83%N]) [] [[80; 83]%N] 0) = [].
Proof. vm_compute. reflexivity. Qed.
Example old_completion_duplicated :
  s_completion (run_old_c None None [[88%N]] [[97; 88]%N] 0) = [97; 97]%N.
Proof. vm_compute. reflexivity. Qed.
Example new_completion_once :
  s_completion (run_c None None [[88%N]] [[97; 88]%N] 0) = [97%N].
Proof. vm_compute. reflexivity. Qed.
Example chunkings_3 :
  chunkings [1; 2; 3]%N = [[[1; 2; 3]]; [[1]; [2; 3]]; [[1; 2]; [3]]; [[1]; [2]; [3]]]%N.
Proof. vm_compute. reflexivity. Qed.
