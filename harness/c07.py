"""C07 — and/or groups behave like the boolean formula they spell.

Model: coq/theories/V2/Dnf.v (normalize/flatten_or: transcription of normalize_element_groups),
V2/Groups.v (compile: what the match/await/when expansions emit; deliver/run: the fork /
WaitForHeads / MergeHeads head protocol); theorems: Props/C07.v.
Tie (X), all against the model evaluated inside Coq (vm_compute):
  X1  the real normalize_element_groups on random group trees built from real Spec objects
      and dict groups: the resulting DNF term must be identical to the model's;
  X3  the real expansion of `match/await/when <group>` (read back from the expanded element
      list of flow `main` by following gotos/forks like the runtime does): alternatives, members,
      WaitForHeads numbers and merge targets must equal the model's `compile`;
  X2  the real interpreter on `match <group>; send Done()` (and await/when over helper flows
      that finish on distinct events): the step at which Done first appears must equal the
      model's `run` and `first_sat`, for all group shapes up to 4 atoms and all orders of the
      atoms' events plus an irrelevant and a repeated event.
Search: direct oracles on the implementation - truth-table equivalence + shape of the real DNF,
and first-satisfaction of the formula (exactly one Done, at that step) for every run.
Everything that drives the interpreter runs in child processes under `timeout`.
"""
from __future__ import annotations

import itertools
import json
import os
import random
import sys
import time
from concurrent.futures import ThreadPoolExecutor

from harness import common as C

PID = "C07"
GEN: list = []
IRRELEVANT = 9
KINDS = ("match", "await", "when")
STMT = {"match": "SMatch", "await": "SAwait", "when": "SWhen"}

PREAMBLE = """From Coq Require Import List Bool NArith Arith.
From NG Require Import V2.Dnf V2.Groups V2.GroupsFail V2.DnfRun.
Import ListNotations.
"""

# ---------------------------------------------------------------------------------------
# formulas: int (atom) | ("and", [..]) | ("or", [..])


def to_json(f):
    if isinstance(f, int):
        return f
    return [f[0]] + [to_json(e) for e in f[1]]


def from_json(x):  # canonical JSON form: ["and", child, child, ...]
    if isinstance(x, int):
        return x
    return (x[0], [from_json(e) for e in x[1:]])


def coq_formula(f):
    if isinstance(f, int):
        return f"(Atom {f}%N)"
    return "(%s %s)" % ("And" if f[0] == "and" else "Or", C.coq_list([coq_formula(e) for e in f[1]]))


def coq_events(evs):
    return C.coq_list([f"{e}%N" for e in evs])


def coq_outcome(o):
    return "ONever" if o is None else f"(OAt {o})"


def atoms_of(f):
    if isinstance(f, int):
        return [f]
    return [a for e in f[1] for a in atoms_of(e)]


def depth(f):
    return 0 if isinstance(f, int) else 1 + max([depth(e) for e in f[1]] + [0])


def ops_of(f):
    if isinstance(f, int):
        return set()
    s = {f[0]}
    for e in f[1]:
        s |= ops_of(e)
    return s


def py_eval(f, s):
    if isinstance(f, int):
        return f in s
    if f[0] == "and":
        return all(py_eval(e, s) for e in f[1])
    return any(py_eval(e, s) for e in f[1])


def py_nf_count(f, cap=10**6):
    """number of alternatives / total members of the DNF by distribution (without building it)"""
    if isinstance(f, int):
        return 1, 1
    if f[0] == "or":
        n = m = 0
        for e in f[1]:
            a, b = py_nf_count(e, cap)
            n, m = n + a, m + b
        return min(n, cap), min(m, cap)
    n, m = 1, 0
    for e in f[1]:
        a, b = py_nf_count(e, cap)
        n, m = min(n * a, cap), min(m * a + b * n, cap)
    return n, m


def py_nf(f):
    if isinstance(f, int):
        return [[f]]
    if f[0] == "or":
        return [c for e in f[1] for c in py_nf(e)]
    res = [[]]
    for e in f[1]:
        res = [x + y for x in res for y in py_nf(e)]
    return res


def expected_dones(f, evs):
    """steps (1-based) at which Done must be sent: once, at the first satisfaction of the formula by
    the events received since the statement became active; nothing afterwards (all heads of the
    statement are gone, and `main` waits for a new StartFlow)."""
    seen = set()
    for i, e in enumerate(evs):
        seen.add(e)
        if py_eval(f, seen):
            return [i + 1]
    return []


def plane_trees(k):
    """all plane trees with k leaves whose internal nodes have >= 2 children (shapes only)"""
    if k == 1:
        return [None]
    res = []

    def comps(n, parts):
        if parts == 1:
            yield (n,)
            return
        for first in range(1, n - parts + 2):
            for rest in comps(n - first, parts - 1):
                yield (first,) + rest

    for parts in range(2, k + 1):
        for comp in comps(k, parts):
            for kids in itertools.product(*[plane_trees(c) for c in comp]):
                res.append(list(kids))
    return res


def label_trees(shape, next_atom):
    """all and/or labellings of a shape; leaves numbered left to right from next_atom[0]"""
    if shape is None:
        a = next_atom[0]
        next_atom[0] += 1
        return [a]
    kid_opts = []
    for kid in shape:
        kid_opts.append(label_trees(kid, next_atom))
    res = []
    for op in ("and", "or"):
        for kids in itertools.product(*kid_opts):
            res.append((op, list(kids)))
    return res


def all_formulas(k):
    out = []
    for sh in plane_trees(k):
        out += label_trees(sh, [0])
    return out


def relabel(f, mapping):
    if isinstance(f, int):
        return mapping[f]
    return (f[0], [relabel(e, mapping) for e in f[1]])


def rand_formula_leaves(rng, k):
    """random formula with exactly k leaves (atoms 0..k-1 left to right), fan-out 2..4"""
    def build(n):
        if n == 1:
            return None
        parts = rng.randint(2, min(4, n))
        cuts = sorted(rng.sample(range(1, n), parts - 1))
        sizes = [b - a for a, b in zip([0] + cuts, cuts + [n])]
        return [build(s) for s in sizes]

    def lab(sh, nxt):
        if sh is None:
            nxt[0] += 1
            return nxt[0] - 1
        op = rng.choice(("and", "or"))
        return (op, [lab(x, nxt) for x in sh])

    return lab(build(k), [0])


def rand_tree(rng, d, natoms):
    """X1 generator: depth <= d, fan-out 0..4 (0 and 1 rare: the parser never produces them, the
    function accepts them)"""
    if d == 0 or rng.random() < 0.3:
        return rng.randrange(natoms)
    r = rng.random()
    n = 0 if r < 0.03 else 1 if r < 0.10 else rng.choice((2, 2, 2, 3, 3, 4))
    return (rng.choice(("and", "or")), [rand_tree(rng, d - 1, natoms) for _ in range(n)])


def expr_text(f, kind):
    if isinstance(f, int):
        return f"E{f}()" if kind == "match" else f"f{f}"
    return "(" + (" %s " % f[0]).join(expr_text(e, kind) for e in f[1]) + ")"


def program(kind, f):
    ats = sorted(set(atoms_of(f)))
    if kind == "match":
        return f"flow main\n  match {expr_text(f, kind)}\n  send Done()\n"
    pre = "".join(f"flow f{i}\n  match E{i}()\n\n" for i in ats)
    if kind == "await":
        return pre + f"flow main\n  await {expr_text(f, kind)}\n  send Done()\n"
    return pre + f"flow main\n  when {expr_text(f, kind)}\n    send Done()\n"


def orders(atoms, rep, limit=None, rng=None):
    """all distinct orders of: the atoms' events, one irrelevant event, one repeated event"""
    base = list(atoms) + [IRRELEVANT, rep]
    allp = sorted(set(itertools.permutations(base)))
    if limit is not None and len(allp) > limit:
        allp = rng.sample(allp, limit)
    return [list(p) for p in allp]


# ---------------------------------------------------------------------------------------
# child process: drives the real parser / expansion / interpreter


def _spec_to_formula(spec, kind):
    from nemoguardrails.colang.v2_x.lang.colang_ast import Spec

    if isinstance(spec, Spec):
        name = spec.name or ""
        pref = "E" if kind == "match" else "f"
        if not name.startswith(pref) or not name[1:].isdigit():
            raise ValueError(f"unexpected spec name {name!r}")
        return int(name[1:])
    if isinstance(spec, dict) and spec.get("_type") in ("spec_and", "spec_or"):
        return ("and" if spec["_type"] == "spec_and" else "or", [_spec_to_formula(e, kind) for e in spec["elements"]])
    raise ValueError(f"unexpected group node {type(spec).__name__}")


def _parsed_formula(src, kind):
    """the group of `main`'s first statement as the parser produced it"""
    from nemoguardrails.colang import parse_colang_file
    from nemoguardrails.colang.v2_x.lang.colang_ast import SpecOp, When

    r = parse_colang_file(filename="", content=src, include_source_mapping=True, version="2.x")
    for fl in r["flows"]:
        if fl.name == "main":
            for e in fl.elements:
                if isinstance(e, SpecOp) and e.op in ("match", "await") and not (
                        not isinstance(e.spec, dict) and getattr(e.spec, "name", None) == "StartFlow"):
                    return _spec_to_formula(e.spec, kind)
                if isinstance(e, When):
                    return _spec_to_formula(e.when_specs[0], kind)
    raise ValueError("no group statement found in main")


def _skeleton(state, kind):
    """Read the expansion of main's group statement back from the expanded element list, following
    forks and gotos like `slide` does.  Returns (or_fork, [(atoms, wait_n or None)]) or raises
    ValueError (fail closed) on any shape outside the protocol."""
    from nemoguardrails.colang.v2_x.lang import colang_ast as A

    cfg = state.flow_configs["main"]
    els = cfg.elements
    labels = cfg.element_labels
    refs = {}      # flow-event ref / flow ref variable -> flow id

    def name_of(el):
        return type(el).__name__

    def walk(pos, budget=[20000]):
        """returns a tree: ('match', atom, cont) | ('fork', uid, [trees]) | ('done',) with
        cont = list of ('wait', n) / ('merge', uid) ... ending in ('done',) or a fork tree"""
        trail = []
        while True:
            budget[0] -= 1
            if budget[0] < 0:
                raise ValueError("walk budget exceeded")
            if pos >= len(els):
                raise ValueError("ran off the end")
            el = els[pos]
            if isinstance(el, (A.CatchPatternFailure, A.BeginScope, A.EndScope, A.Label)):
                pos += 1
            elif isinstance(el, A.Assignment):
                ex = el.expression
                if ex.startswith("$") and ex.endswith(".flow") and ex[1:-5] in refs:
                    refs[el.key] = refs[ex[1:-5]]
                elif ex.startswith("$") and ex[1:] in refs:
                    refs[el.key] = refs[ex[1:]]
                pos += 1
            elif isinstance(el, A.Goto):
                if el.expression != "True":
                    raise ValueError("conditional goto")
                if el.label not in labels:
                    raise ValueError("goto to unknown label")
                pos = labels[el.label] + 1
            elif isinstance(el, A.ForkHead):
                kids = []
                for lb in el.labels:
                    if lb not in labels:
                        raise ValueError("fork to unknown label")
                    kids.append(walk(labels[lb]))
                return trail + [("fork", el.fork_uid, kids)]
            elif isinstance(el, A.WaitForHeads):
                trail.append(("wait", el.number))
                pos += 1
            elif isinstance(el, A.MergeHeads):
                trail.append(("merge", el.fork_uid))
                pos += 1
            elif isinstance(el, A.SpecOp):
                sp = el.spec
                if el.op == "send" and getattr(sp, "name", None) == "Done":
                    return trail + [("done",)]
                if el.op == "send" and getattr(sp, "name", None) == "StartFlow":
                    pos += 1
                elif el.op == "match" and getattr(sp, "name", None) == "FlowStarted" and "internal" in (el.info or {}):
                    fid = sp.arguments.get("flow_id", "").strip("'\"")
                    if sp.ref is not None:
                        refs[sp.ref["elements"][0]["elements"][0].lstrip("$")] = fid
                    pos += 1
                elif el.op == "match" and isinstance(sp, A.Spec):
                    if sp.spec_type == A.SpecType.REFERENCE:
                        if not (sp.members and sp.members[0]["name"] == "Finished" and sp.var_name in refs):
                            raise ValueError("unexpected reference match")
                        nm = refs[sp.var_name]
                    else:
                        nm = sp.name or ""
                    if not nm[1:].isdigit():
                        raise ValueError(f"unexpected match {nm!r}")
                    return trail + [("match", int(nm[1:]), walk(pos + 1))]
                else:
                    raise ValueError(f"unexpected SpecOp {el.op}")
            else:
                raise ValueError(f"unexpected element {name_of(el)}")

    # start after `match StartFlow(flow_id="main")`
    t = walk(1)

    def leaf(tr):
        """a trail that is [('match', a, cont)] -> (a, cont)"""
        if len(tr) == 1 and tr[0][0] == "match":
            return tr[0][1], tr[0][2]
        return None

    def and_branch(tr, outer):
        """trail of one alternative: a plain match, or an and-fork; cont must merge `outer` forks
        (innermost first) and then reach Done"""
        lf = leaf(tr)
        if lf is not None:
            a, cont = lf
            if cont != [("merge", u) for u in outer] + [("done",)]:
                raise ValueError(f"plain match continuation {cont}")
            return ([a], None)
        if len(tr) == 1 and tr[0][0] == "fork":
            _, uid, kids = tr[0]
            atoms, ns = [], set()
            for k in kids:
                lf = leaf(k)
                if lf is None:
                    raise ValueError("and-fork child is not a match")
                a, cont = lf
                if not (cont and cont[0][0] == "wait"):
                    raise ValueError(f"and-member continuation {cont}")
                if cont[1:] != [("merge", uid)] + [("merge", u) for u in outer] + [("done",)]:
                    raise ValueError(f"and-member continuation {cont}")
                ns.add(cont[0][1])
                atoms.append(a)
            if len(ns) > 1:
                raise ValueError("members disagree on WaitForHeads number")
            return (atoms, ns.pop() if ns else 0)
        raise ValueError(f"unexpected alternative {tr}")

    if kind == "when":
        if not (len(t) == 1 and t[0][0] == "fork" and len(t[0][2]) == 1):
            raise ValueError("when: expected a cases fork with one case")
        cuid = t[0][1]
        g = t[0][2][0]
        if not (len(g) == 1 and g[0][0] == "fork"):
            raise ValueError("when: expected a groups fork")
        return (True, [and_branch(k, [cuid]) for k in g[0][2]])
    # match / await: plain match, and-fork, or or-fork
    try:
        return (False, [and_branch(t, [])])
    except ValueError:
        pass
    if len(t) == 1 and t[0][0] == "fork":
        uid = t[0][1]
        return (True, [and_branch(k, [uid]) for k in t[0][2]])
    raise ValueError(f"unexpected statement shape {t}")



# ---------------------------------------------------------------------------------------
# failure side: `when` with several cases / await, member flows that are stopped


def program_cases(kind, cases):
    """`when` with one body per case (sending Done<i>), or `await <group>; send Done0()`;
    helper flow f<i> finishes on E<i> and can be stopped by StopFlow(flow_id="f<i>")"""
    ats = sorted({a for f in cases for a in atoms_of(f)})
    pre = "".join(f"flow f{i}\n  match E{i}()\n\n" for i in ats)
    if kind == "await":
        return pre + f"flow main\n  await {expr_text(cases[0], kind)}\n  send Done0()\n"
    body = ""
    for i, f in enumerate(cases):
        body += ("  when " if i == 0 else "  or when ") + expr_text(f, "when") + f"\n    send Done{i}()\n"
    return pre + "flow main\n" + body


def _parsed_cases(src, kind):
    from nemoguardrails.colang import parse_colang_file
    from nemoguardrails.colang.v2_x.lang.colang_ast import SpecOp, When

    r = parse_colang_file(filename="", content=src, include_source_mapping=True, version="2.x")
    for fl in r["flows"]:
        if fl.name == "main":
            for e in fl.elements:
                if isinstance(e, SpecOp) and e.op in ("match", "await") and not (
                        not isinstance(e.spec, dict) and getattr(e.spec, "name", None) == "StartFlow"):
                    return [_spec_to_formula(e.spec, kind)]
                if isinstance(e, When):
                    return [_spec_to_formula(w, kind) for w in e.when_specs]
    raise ValueError("no group statement found in main")


def _fskeleton(state, kind):
    """Read back BOTH sides of the expansion of main's group statement: like `slide`, follow forks
    and gotos on the success path, and from every `match` element follow the failure path (the
    innermost CatchPatternFailure label; Abort jumps to the enclosing one or ends the flow).
    Returns {"cases": [[or_fork, [[atoms, wait_n]..], fail_wait]..], "else": else_wait}; raises
    ValueError on any shape outside the protocol (fail closed)."""
    from nemoguardrails.colang.v2_x.lang import colang_ast as A

    cfg = state.flow_configs["main"]
    els = cfg.elements
    labels = cfg.element_labels
    refs = {}
    budget = [40000]

    def tick():
        budget[0] -= 1
        if budget[0] < 0:
            raise ValueError("walk budget exceeded")

    def fwalk(pos, catch):
        """failure path of a head that jumped to labels[catch[-1]] (position pos = label + 1)"""
        trail = []
        while True:
            tick()
            if pos >= len(els):
                raise ValueError("failure path ran off the end")
            el = els[pos]
            if isinstance(el, A.CatchPatternFailure):
                catch = catch + (el.label,) if el.label is not None else catch[:-1]
                pos += 1
            elif isinstance(el, (A.BeginScope, A.EndScope, A.Label, A.Assignment)):
                pos += 1
            elif isinstance(el, A.Goto):
                if el.expression != "True" or el.label not in labels:
                    raise ValueError("failure path: unexpected goto")
                pos = labels[el.label] + 1
            elif isinstance(el, A.WaitForHeads):
                trail.append(("wait", el.number))
                pos += 1
            elif isinstance(el, A.MergeHeads):
                trail.append(("merge", el.fork_uid))
                pos += 1
            elif isinstance(el, A.Abort):
                if catch:
                    if catch[-1] not in labels:
                        raise ValueError("failure path: unknown catch label")
                    pos = labels[catch[-1]] + 1
                else:
                    return trail + [("fail",)]
            else:
                raise ValueError(f"failure path: unexpected element {type(el).__name__}")

    def walk(pos, catch):
        trail = []
        while True:
            tick()
            if pos >= len(els):
                raise ValueError("ran off the end")
            el = els[pos]
            if isinstance(el, A.CatchPatternFailure):
                catch = catch + (el.label,) if el.label is not None else catch[:-1]
                pos += 1
            elif isinstance(el, (A.BeginScope, A.EndScope, A.Label)):
                pos += 1
            elif isinstance(el, A.Assignment):
                ex = el.expression
                if ex.startswith("$") and ex.endswith(".flow") and ex[1:-5] in refs:
                    refs[el.key] = refs[ex[1:-5]]
                elif ex.startswith("$") and ex[1:] in refs:
                    refs[el.key] = refs[ex[1:]]
                pos += 1
            elif isinstance(el, A.Goto):
                if el.expression != "True" or el.label not in labels:
                    raise ValueError("unexpected goto")
                pos = labels[el.label] + 1
            elif isinstance(el, A.ForkHead):
                kids = []
                for lb in el.labels:
                    if lb not in labels:
                        raise ValueError("fork to unknown label")
                    kids.append(walk(labels[lb], catch))
                return trail + [("fork", el.fork_uid, kids)]
            elif isinstance(el, A.WaitForHeads):
                trail.append(("wait", el.number))
                pos += 1
            elif isinstance(el, A.MergeHeads):
                trail.append(("merge", el.fork_uid))
                pos += 1
            elif isinstance(el, A.SpecOp):
                sp = el.spec
                nm = getattr(sp, "name", None) or ""
                if el.op == "send" and nm.startswith("Done") and (nm[4:].isdigit() or nm == "Done"):
                    return trail + [("done", int(nm[4:] or 0))]
                if el.op == "send" and nm == "StartFlow":
                    pos += 1
                elif el.op == "match" and nm == "FlowStarted" and "internal" in (el.info or {}):
                    fid = sp.arguments.get("flow_id", "").strip("'\"")
                    if sp.ref is not None:
                        refs[sp.ref["elements"][0]["elements"][0].lstrip("$")] = fid
                    pos += 1
                elif el.op == "match" and isinstance(sp, A.Spec):
                    if sp.spec_type == A.SpecType.REFERENCE:
                        if not (sp.members and sp.members[0]["name"] == "Finished" and sp.var_name in refs):
                            raise ValueError("unexpected reference match")
                        nm = refs[sp.var_name]
                    if not nm[1:].isdigit():
                        raise ValueError(f"unexpected match {nm!r}")
                    if catch:
                        if catch[-1] not in labels:
                            raise ValueError("unknown catch label")
                        ft = fwalk(labels[catch[-1]] + 1, catch)
                    else:
                        ft = [("fail",)]
                    return trail + [("match", int(nm[1:]), walk(pos + 1, catch), ft)]
                else:
                    raise ValueError(f"unexpected SpecOp {el.op} {nm}")
            else:
                raise ValueError(f"unexpected element {type(el).__name__}")

    t = walk(1, ())

    def leaf(tr):
        if len(tr) == 1 and tr[0][0] == "match":
            return tr[0][1], tr[0][2], tr[0][3]
        return None

    def waits_of(ft, must_start=()):
        if not ft or ft[-1] != ("fail",):
            raise ValueError(f"failure path does not end the flow: {ft}")
        if list(ft[:len(must_start)]) != list(must_start):
            raise ValueError(f"failure path {ft} does not start with {must_start}")
        return tuple(x[1] for x in ft if x[0] == "wait")

    def and_branch(tr, outer, done_idx, wsets):
        lf = leaf(tr)
        if lf is not None:
            a, cont, ft = lf
            if cont != [("merge", u) for u in outer] + [("done", done_idx)]:
                raise ValueError(f"plain match continuation {cont}")
            wsets.add(waits_of(ft))
            return [[a], None]
        if len(tr) == 1 and tr[0][0] == "fork":
            _, uid, kids = tr[0]
            atoms, ns = [], set()
            for k in kids:
                lf = leaf(k)
                if lf is None:
                    raise ValueError("and-fork child is not a match")
                a, cont, ft = lf
                if not (cont and cont[0][0] == "wait") or \
                        cont[1:] != [("merge", uid)] + [("merge", u) for u in outer] + [("done", done_idx)]:
                    raise ValueError(f"and-member continuation {cont}")
                ns.add(cont[0][1])
                wsets.add(waits_of(ft, [("merge", uid)]))
                atoms.append(a)
            if len(ns) > 1:
                raise ValueError("members disagree on WaitForHeads number")
            return [atoms, ns.pop() if ns else 0]
        raise ValueError(f"unexpected alternative {tr}")

    def one_wait(wsets, n):
        if len(wsets) != 1:
            raise ValueError(f"members disagree on the failure handlers: {sorted(wsets)}")
        w = next(iter(wsets))
        if len(w) != n:
            raise ValueError(f"expected {n} WaitForHeads on the failure path, found {w}")
        return w

    if kind == "when":
        if not (len(t) == 1 and t[0][0] == "fork"):
            raise ValueError("when: expected a cases fork")
        cuid = t[0][1]
        cases, elses = [], set()
        for ci, g in enumerate(t[0][2]):
            if not (len(g) == 1 and g[0][0] == "fork"):
                raise ValueError("when: expected a groups fork")
            wsets = set()
            alts = [and_branch(k, [cuid], ci, wsets) for k in g[0][2]]
            w = one_wait(wsets, 2)
            cases.append([True, alts, w[0]])
            elses.add(w[1])
        if len(elses) != 1:
            raise ValueError("cases disagree on the else WaitForHeads number")
        return {"cases": cases, "else": elses.pop()}
    wsets = set()
    try:
        alt = and_branch(t, [], 0, wsets)
        one_wait(wsets, 0)
        return {"cases": [[False, [alt], None]], "else": None}
    except ValueError:
        pass
    if len(t) == 1 and t[0][0] == "fork":
        uid = t[0][1]
        wsets = set()
        alts = [and_branch(k, [uid], 0, wsets) for k in t[0][2]]
        w = one_wait(wsets, 1)
        return {"cases": [[True, alts, w[0]]], "else": None}
    raise ValueError(f"unexpected statement shape {t}")


def _worker_fail(job, v2util):
    """job with member flows that fail: events are [i, true] (E<i>) or [i, false] (StopFlow f<i>)"""
    kind = job["kind"]
    cases = [from_json(c) for c in job["cases"]]
    src = program_cases(kind, cases)
    res = {"id": job["id"], "parse": None, "fskel": None, "runs": []}
    try:
        pc = _parsed_cases(src, kind)
        res["parse"] = "ok" if pc == cases else "differs:" + json.dumps([to_json(c) for c in pc])
    except BaseException as e:  # noqa: BLE001
        if isinstance(e, KeyboardInterrupt):
            raise
        res["parse"] = f"error:{type(e).__name__}: {e}"
    try:
        st0 = v2util.init_state(src)
        try:
            res["fskel"] = {"ok": _fskeleton(st0, kind)}
        except ValueError as e:
            res["fskel"] = {"odd": str(e)[:300]}
    except BaseException as e:  # noqa: BLE001
        if isinstance(e, KeyboardInterrupt):
            raise
        res["fskel"] = {"exc": f"{type(e).__name__}: {str(e)[:200]}"}
    for si, evs in enumerate(job["seqs"]):
        random.seed(job.get("seed", 0) * 7919 + si)
        dones, failed, exc = [], None, None
        try:
            st = v2util.start_main(v2util.init_state(src))
            for i, (a, fin) in enumerate(evs):
                ev = {"type": f"E{a}"} if fin else {"type": "StopFlow", "flow_id": f"f{a}"}
                st = v2util.step(st, ev)
                for t in v2util.out_types(st):
                    if t and t.startswith("Done"):
                        dones.append([i + 1, int(t[4:])])
                if failed is None and st.main_flow_state.status.name in ("STOPPING", "STOPPED"):
                    failed = i + 1
        except BaseException as e:  # noqa: BLE001
            if isinstance(e, KeyboardInterrupt):
                raise
            exc = f"{type(e).__name__}: {str(e)[:160]}"
        res["runs"].append({"d": dones, "f": failed, "x": exc})
    return res


def fail_expected(cases, evs):
    """direct oracle: ('done', n, set of cases) | ('fail', n) | ('never',) - the formula over the
    members that FINISHED (a stopped member never finishes); failed when no case can hold any more"""
    status = {}
    for i, (a, fin) in enumerate(evs):
        status.setdefault(a, bool(fin))
        finished = {x for x, v in status.items() if v}
        w = [ci for ci, f in enumerate(cases) if py_eval(f, finished)]
        if w:
            return ("done", i + 1, w)
        alive = {x for f in cases for x in atoms_of(f)} - {x for x, v in status.items() if not v}
        if not any(py_eval(f, alive) for f in cases):
            return ("fail", i + 1)
    return ("never",)


def fail_histories(atoms, limit=None, rng=None, extra=True):
    """every assignment finish/stop to the atoms x every order; with `extra`, additionally the
    same history with one opposite event for some atom inserted after its first event"""
    hs = []
    for outs in itertools.product((True, False), repeat=len(atoms)):
        for perm in itertools.permutations(range(len(atoms))):
            hs.append([[atoms[j], outs[j]] for j in perm])
    if limit is not None and len(hs) > limit:
        hs = rng.sample(hs, limit)
    if extra and rng is not None:
        more = []
        for h in hs[:: 3]:
            j = rng.randrange(len(h))
            h2 = list(h)
            h2.insert(rng.randint(j + 1, len(h)), [h[j][0], not h[j][1]])
            more.append(h2)
            if len(h) > 1:
                more.append(h[:-1])      # some member is never decided
        hs = hs + more
    return hs


def coq_fevents(evs):
    return C.coq_list([f"({a}%N, {C.coq_bool(fin)})" for a, fin in evs])


def coq_fskel(sk):
    cs = []
    for fork, alts, fw in sk["cases"]:
        t_alts = C.coq_list(["(%s, %s)" % (C.coq_list([f"{a}%N" for a in ats]), "(@None nat)" if n is None else f"(Some {n})")
                             for ats, n in alts])
        cs.append("(%s, %s, %s)" % (C.coq_bool(fork), t_alts, "(@None nat)" if fw is None else f"(Some {fw})"))
    return "(%s, %s)" % (C.coq_list(cs), "(@None nat)" if sk["else"] is None else f"(Some {sk['else']})")


def _worker(path):
    import logging

    logging.disable(logging.CRITICAL)
    from harness import v2util

    jobs = json.load(open(path))
    out = sys.stdout
    for job in jobs:
        if job.get("mode") == "fail":
            out.write(json.dumps(_worker_fail(job, v2util)) + "\n")
            out.flush()
            continue
        kind, f = job["kind"], from_json(job["formula"])
        src = program(kind, f)
        res = {"id": job["id"], "parse": None, "skel": None, "runs": []}
        try:
            pf = _parsed_formula(src, kind)
            res["parse"] = "ok" if pf == f else "differs:" + json.dumps(to_json(pf))
        except BaseException as e:  # noqa: BLE001
            if isinstance(e, KeyboardInterrupt):
                raise
            res["parse"] = f"error:{type(e).__name__}: {e}"
        try:
            st0 = v2util.init_state(src)
            try:
                sk = _skeleton(st0, kind)
                res["skel"] = {"ok": [sk[0], [[a, n] for a, n in sk[1]]]}
            except ValueError as e:
                res["skel"] = {"odd": str(e)[:300]}
            try:
                res["fskel"] = {"ok": _fskeleton(st0, kind)}
            except ValueError as e:
                res["fskel"] = {"odd": str(e)[:300]}
        except BaseException as e:  # noqa: BLE001
            if isinstance(e, KeyboardInterrupt):
                raise
            res["skel"] = {"exc": f"{type(e).__name__}: {str(e)[:200]}"}
        for si, evs in enumerate(job["seqs"]):
            random.seed(job.get("seed", 0) * 7919 + si)
            dones, exc = [], None
            try:
                st = v2util.start_main(v2util.init_state(src))
                if "Done" in v2util.out_types(st):
                    dones.append(0)
                for i, e in enumerate(evs):
                    st = v2util.step(st, {"type": f"E{e}"})
                    if "Done" in v2util.out_types(st):
                        dones.append(i + 1)
            except BaseException as e:  # noqa: BLE001
                if isinstance(e, KeyboardInterrupt):
                    raise
                exc = f"{type(e).__name__}: {str(e)[:160]}"
            res["runs"].append({"d": dones, "x": exc})
        out.write(json.dumps(res) + "\n")
        out.flush()


def _weight(job):
    if job.get("mode") == "fail":
        return len(job["seqs"]) * 5 + 5
    return len(job["seqs"]) * (1 if job["kind"] == "match" else 3 if job["kind"] == "await" else 5) + 5


def _round(jobs, tag, scale, solo=False):
    """one round of child processes (each under `timeout`); returns {id: result} for the jobs that
    were completed"""
    d = os.path.join(C.BUILD, "c07")
    os.makedirs(d, exist_ok=True)
    nproc = max(1, min(C.NPROC, len(jobs)))
    if solo:
        chunks = [[j] for j in jobs]
    else:
        chunks = [[] for _ in range(nproc)]
        loads = [0] * nproc
        for job in sorted(jobs, key=lambda j: -_weight(j)):
            i = loads.index(min(loads))
            chunks[i].append(job)
            loads[i] += _weight(job)
    env = C.impl_env()
    env["NEMO_GUARDRAILS_VERIF_MAX_STEPS"] = "20000"
    if "VERIF_REPO" in os.environ:
        env["VERIF_REPO"] = os.environ["VERIF_REPO"]

    def one(i):
        if not chunks[i]:
            return ""
        p = os.path.join(d, f"{tag}_{i}.json")
        json.dump(chunks[i], open(p, "w"))
        # ~2 ms per weight unit on an idle core; 25x slack for a loaded machine, times `scale`
        budget = int((90 + sum(_weight(j) for j in chunks[i]) * 0.05) * scale)
        rc, outp = C.sh(["timeout", str(budget), C.PY, "-m", "harness.c07", "--worker", p],
                        timeout=budget + 30, cwd=C.VERIF, env=env)
        return outp

    results = {}
    with ThreadPoolExecutor(max_workers=nproc) as ex:
        for outp in ex.map(one, range(len(chunks))):
            for line in outp.splitlines():
                if line.startswith("{"):
                    try:
                        r = json.loads(line)
                        results[r["id"]] = r
                    except Exception:
                        pass
    return results


def run_children(jobs, tag):
    """Run the jobs in child processes under `timeout`.  A job whose child ran out of time is run
    again with a larger budget, finally alone; only a job that does not return even alone is left
    without a result (reported by the caller as a hang/crash of the interpreter)."""
    results = {}
    pending = list(jobs)
    for rnd, scale in enumerate((1, 3)):
        if not pending:
            break
        results.update(_round(pending, f"{tag}{rnd}", scale))
        pending = [j for j in pending if j["id"] not in results]
    if pending:
        results.update(_round(pending[:16], f"{tag}solo", 2, solo=True))
    return results


# ---------------------------------------------------------------------------------------
# X1: the real normaliser


def x1_cases(rng, n, extra, cap_alts=400):
    from nemoguardrails.colang.v2_x.lang.colang_ast import Spec, SpecType
    from nemoguardrails.colang.v2_x.lang import expansion as X

    specs = {}

    def spec(i):
        if i not in specs:
            specs[i] = Spec(name=f"E{i}", spec_type=SpecType.EVENT, arguments={})
        return specs[i]

    def build(f):
        if isinstance(f, int):
            return spec(f)
        return {"_type": "spec_and" if f[0] == "and" else "spec_or", "elements": [build(e) for e in f[1]]}

    def back(g):
        if isinstance(g, Spec):
            for i, s in specs.items():
                if s is g:
                    return i
            raise ValueError("foreign Spec object in the result")
        if isinstance(g, dict) and set(g.keys()) == {"_type", "elements"} and g["_type"] in ("spec_and", "spec_or"):
            return ("and" if g["_type"] == "spec_and" else "or", [back(e) for e in g["elements"]])
        raise ValueError(f"unexpected node in the result: {type(g).__name__} {str(g)[:60]}")

    cases = list(extra)
    tries = 0
    while len(cases) < n + len(extra) and tries < n * 5:
        tries += 1
        f = rand_tree(rng, rng.choice((1, 2, 3, 3, 4, 4, 5, 5)), rng.choice((2, 3, 4, 6, 8)))
        alts, members = py_nf_count(f)
        if alts > cap_alts or members > 10 * cap_alts:
            continue
        cases.append(f)
    res = []
    for f in cases:
        try:
            r = ("ok", back(X.normalize_element_groups(build(f))))
        except ValueError as e:
            r = ("odd", str(e))
        except RecursionError:
            raise
        except Exception as e:  # the model predicts no exception at all
            r = ("exc", f"{type(e).__name__}: {e}")
        res.append((f, r))
    return res


def dnf_oracle(f, r):
    """direct restatement of the property on the implementation's answer: shape + truth table"""
    if r[0] != "ok":
        return "normalize-raises" if r[0] == "exc" else "normalize-result-shape", r[1]
    d = r[1]
    if not (isinstance(d, tuple) and d[0] == "or" and all(
            isinstance(c, tuple) and c[0] == "and" and all(isinstance(a, int) for a in c[1]) for c in d[1])):
        return "normalize-result-shape", "result is not an or-group of and-groups of specs"
    ats = sorted(set(atoms_of(f)))
    if len(ats) <= 10:
        for bits in range(1 << len(ats)):
            s = {a for j, a in enumerate(ats) if bits >> j & 1}
            if py_eval(d, s) != py_eval(f, s):
                return "normalize-not-equivalent", f"under {sorted(s)} the group is {py_eval(f, s)} but its normal form is {py_eval(d, s)}"
    return None


# ---------------------------------------------------------------------------------------


def classify_run(kind, f, evs, dones, exc, want):
    shared = any(sum(1 for c in py_nf(f) if a in c) > 1 for a in set(atoms_of(f)))
    suffix = "-atom-in-several-and-groups" if shared else ""
    if exc is not None:
        et = exc.split(":")[0]
        return f"{kind}-group-raises-{et}{suffix}"
    first_w = want[0] if want else None
    first_g = dones[0] if dones else None
    if first_g != first_w:
        if first_g is None:
            return f"{kind}-group-never-completes{suffix}"
        if first_w is None or first_g < first_w:
            return f"{kind}-group-completes-before-formula-holds{suffix}"
        return f"{kind}-group-completes-late{suffix}"
    return f"{kind}-group-completes-more-than-once{suffix}"


def nontrivial(f):
    return len(ops_of(f)) == 2 and len(set(atoms_of(f))) >= 3


def load_corpus():
    d = os.path.join(C.VERIF, "corpus", PID)
    out = []
    if os.path.isdir(d):
        for fn in sorted(os.listdir(d)):
            if fn.endswith(".json"):
                out.append(json.load(open(os.path.join(d, fn))))
    return out


def run(tier, seed, replay=None):
    out = C.Outcome(PID, tier, seed)
    rng = random.Random(seed * 1000003 + 7)
    t_start = time.time()
    b = C.build_and_audit(PID, GEN)
    C.proof_coverage(out, b, "make theories/Props/C07.vo && coqc Props/C07.v (Print Assumptions)")
    for br in b["broken"]:
        out.add_broken(br, b["log"])
    with C.BuildLock():
        okm, logm = C.coq_make(["theories/V2/DnfRun.vo"])
    if not okm:
        out.add_broken("coq:theories/V2/DnfRun.v", logm)

    thorough = tier == "thorough"
    corpus = load_corpus()
    rep = None
    if replay:
        d = json.load(open(replay))
        rep = d.get("replay", d)

    # ------------------------------------------------------------------ X1
    extra = [from_json(c["formula"]) for c in corpus if c.get("kind") == "norm"]
    if rep is not None:
        extra = [from_json(rep["formula"])] if rep.get("kind") == "norm" else []
    n1 = 0 if rep is not None else (8000 if not thorough else 40000)
    sys.path.insert(1, C.REPO)
    x1 = x1_cases(rng, n1, extra, cap_alts=400 if thorough else 120)
    terms1, kept1 = [], []
    seen = set()
    x1_nontrivial = 0
    x1_hist = {"ok": 0, "exc": 0, "odd": 0}
    for f, r in x1:
        x1_hist[r[0]] += 1
        h = C.canon_hash(to_json(f))
        if h not in seen:
            seen.add(h)
            if len(ops_of(f)) == 2 and depth(f) >= 2:
                x1_nontrivial += 1
        v = dnf_oracle(f, r)
        if v is not None:
            out.findings.append(C.Finding(v[0], f"normalize_element_groups: {v[1]}",
                                          {"kind": "norm", "formula": to_json(f), "impl": to_json(r[1]) if r[0] == "ok" else r[1]}))
        if r[0] == "ok":
            terms1.append(f"({coq_formula(f)}, Some {coq_formula(r[1])})")
        else:
            terms1.append(f"({coq_formula(f)}, @None (formula N))")
        kept1.append((f, r))
    x1_bad = []
    if okm and terms1:
        bools, err = C.run_cases(PID + "_norm", PREAMBLE, terms1, "check_norm", shard=400)
        if err:
            out.add_broken("correspondence:C07-normalize(coqc)", err)
        else:
            x1_bad = [c for ok, c in zip(bools, kept1) if not ok]
    if x1_bad:
        f, r = min(x1_bad, key=lambda c: len(json.dumps(to_json(c[0]))))
        model = C.eval_term(PID + "_norm", PREAMBLE, f"@normalize N {coq_formula(f)}")
        out.add_broken("correspondence:C07-normalize",
                       f"{len(x1_bad)} disagreements; smallest: group={to_json(f)} impl={to_json(r[1]) if r[0] == 'ok' else r} model={model}")

    # ------------------------------------------------------------------ X2 / X3 jobs
    jobs = []

    def add_job(kind, f, seqs, origin):
        jobs.append({"id": len(jobs), "kind": kind, "formula": to_json(f), "seqs": seqs, "seed": seed, "origin": origin})

    if rep is not None:
        if rep.get("kind") == "e2e":
            add_job(rep["stmt"], from_json(rep["formula"]), [rep["events"]], "replay")
    else:
        for c in corpus:
            if c.get("kind") == "e2e":
                add_job(c["stmt"], from_json(c["formula"]), [c["events"]], "corpus")
        for k in (1, 2, 3, 4):
            for fi, f in enumerate(all_formulas(k)):
                for kind in KINDS:
                    if k == 1 and kind != "when":
                        # a single Spec is not a group for match/await; `when <flow>` still goes through the group code
                        continue
                    if k == 4 and kind != "match" and not thorough:
                        # quick tier: every shape, a seeded sample of 120 of the 360 orders (thorough: all)
                        add_job(kind, f, orders(range(k), fi % k, limit=120, rng=rng), f"all-shapes-{k}-sampled-orders")
                    else:
                        add_job(kind, f, orders(range(k), fi % k), f"all-shapes-{k}")
        # groups in which one atom occurs twice (an atom shared by alternatives / members)
        shared = []
        for k in (3, 4):
            for f in all_formulas(k):
                for i, j in itertools.combinations(range(k), 2):
                    m = list(range(k))
                    m[j] = i
                    ren = {a: n for n, a in enumerate(sorted(set(m)))}
                    shared.append(relabel(f, [ren[x] for x in m]))
        n_sh = len(shared) if thorough else 60
        for fi, f in enumerate(rng.sample(shared, min(n_sh, len(shared)))):
            ats = sorted(set(atoms_of(f)))
            for kind in KINDS:
                add_job(kind, f, orders(ats, ats[fi % len(ats)]), "shared-atom")
        if thorough:
            n_big = int(os.environ.get("VERIF_C07_BIG", "1000"))
            for fi in range(n_big):
                k = rng.choice((5, 5, 6))
                f = rand_formula_leaves(rng, k)
                kind = KINDS[fi % 3]
                seqs = []
                if k == 5:
                    # all 5! orders of the atoms, irrelevant and repeated event inserted at random
                    for p in itertools.permutations(range(k)):
                        s = list(p)
                        s.insert(rng.randint(0, len(s)), IRRELEVANT)
                        s.insert(rng.randint(0, len(s)), rng.randrange(k))
                        seqs.append(s)
                else:
                    seqs = orders(range(k), rng.randrange(k), limit=120, rng=rng)
                add_job(kind, f, seqs, f"sampled-{k}")

    # ---- member flows that FAIL (StopFlow) interleaved with finishing ones; `when` with several cases
    fjobs = []

    def add_fjob(kind, cases, seqs, origin):
        fjobs.append({"id": 100000 + len(fjobs), "mode": "fail", "kind": kind, "cases": [to_json(c) for c in cases],
                      "seqs": seqs, "seed": seed, "origin": origin})

    if rep is not None:
        if rep.get("kind") == "e2e-fail":
            add_fjob(rep["stmt"], [from_json(c) for c in rep["cases"]], [rep["events"]], "replay")
    else:
        for c in corpus:
            if c.get("kind") == "e2e-fail":
                add_fjob(c["stmt"], [from_json(x) for x in c["cases"]], [c["events"]], "corpus")
        cap = None if thorough else 96
        # one group, await and when
        for k in (2, 3, 4):
            fs_k = all_formulas(k)
            if k == 4 and not thorough:
                fs_k = rng.sample(fs_k, 12)
            for f in fs_k:
                for kind in ("await", "when"):
                    add_fjob(kind, [f], fail_histories(list(range(k)), cap, rng), f"fail-one-group-{k}")
        # `when` with 2 and 3 cases over disjoint flows: every shape with <= 4 flows in total
        def shifted(f, off):
            return relabel(f, [a + off for a in range(8)])

        for sizes in ((1, 1), (1, 2), (2, 1), (2, 2), (1, 3), (3, 1), (1, 1, 1), (2, 1, 1), (1, 2, 1), (1, 1, 2)):
            opts, off = [], 0
            for kk in sizes:
                opts.append([shifted(f, off) for f in all_formulas(kk)])
                off += kk
            for cases in itertools.product(*opts):
                add_fjob("when", list(cases), fail_histories(list(range(off)), cap, rng), "fail-when-%s" % "-".join(map(str, sizes)))
        # cases that share flows
        shared_cases = [
            [("or", [0, 1]), ("and", [1, 2])], [("and", [0, 1]), ("or", [1, 2])], [("or", [0, 1]), 1],
            [("or", [("and", [0, 1]), 2]), ("and", [2, 3])], [0, ("or", [0, 1])], [("and", [("or", [0, 1]), 2]), ("or", [2, 3])],
            [("or", [0, 1, 2]), 3], [("or", [0, 1]), ("or", [1, 2]), 3],
        ]
        for cases in shared_cases:
            ats = sorted({a for f in cases for a in atoms_of(f)})
            add_fjob("when", cases, fail_histories(ats, cap, rng), "fail-when-shared-flows")

    t_x2 = time.time()
    results = run_children(jobs + fjobs, "jobs") if (jobs or fjobs) else {}
    t_x2 = time.time() - t_x2
    terms3f, kept3f = [], []

    terms2, kept2 = [], []
    terms3, kept3 = [], []
    n_runs = 0
    n_nontrivial = 0
    origins = {}
    oracle_bad = 0
    n_missing = 0
    for job in jobs:
        f = from_json(job["formula"])
        kind = job["kind"]
        r = results.get(job["id"])
        origins[job["origin"]] = origins.get(job["origin"], 0) + len(job["seqs"])
        if r is None:
            # no result even when run alone: pinpoint the event sequence, one child per sequence
            n_missing += 1
            if n_missing > 3:
                out.add_broken("harness:C07-children-incomplete", f"no result for `{kind} {expr_text(f, kind)}`")
                continue
            singles = [dict(job, seqs=[s], id=i) for i, s in enumerate(job["seqs"][:64])]
            single = _round(singles, "pin", 1)
            bad = [job["seqs"][i] for i in range(len(singles)) if i not in single][:1] or job["seqs"][:1]
            out.findings.append(C.Finding(f"{kind}-group-hangs-or-crashes-interpreter",
                                          f"`{kind}` on {expr_text(f, kind)} did not return under the time limit",
                                          {"kind": "e2e", "stmt": kind, "formula": job["formula"], "events": bad[0]}))
            continue
        if r["parse"] != "ok":
            out.add_broken("harness:C07-program-text", f"group {job['formula']} parsed as {r['parse']}")
            continue
        # X3
        sk = r["skel"]
        if "ok" in sk:
            orf, alts = sk["ok"]
            t_alts = C.coq_list(["(%s, %s)" % (C.coq_list([f"{a}%N" for a in ats]), "(@None nat)" if n is None else f"(Some {n})")
                                 for ats, n in alts])
            terms3.append(f"({STMT[kind]}, {coq_formula(f)}, ({C.coq_bool(orf)}, {t_alts}))")
            kept3.append((kind, f, sk["ok"]))
        else:
            terms3.append(f"({STMT[kind]}, {coq_formula(f)}, (false, @nil (list N * option nat)))")
            kept3.append((kind, f, sk))
        fsk = r.get("fskel") or {"odd": "missing"}
        if "ok" in fsk:
            terms3f.append(f"({STMT[kind]}, [{coq_formula(f)}], {coq_fskel(fsk['ok'])})")
        else:
            terms3f.append(f"({STMT[kind]}, [{coq_formula(f)}], (@nil (bool * list (list N * option nat) * option nat), @None nat))")
        kept3f.append((kind, [f], fsk))
        # X2
        obs = []
        for evs, rr in zip(job["seqs"], r["runs"]):
            n_runs += 1
            if nontrivial(f):
                n_nontrivial += 1
            want = expected_dones(f, evs)
            got = rr["d"]
            if rr["x"] is not None or got != want:
                oracle_bad += 1
                if len(out.findings) < 60:
                    out.findings.append(C.Finding(
                        classify_run(kind, f, evs, got, rr["x"], want),
                        f"`{kind} {expr_text(f, kind)}` with events {['E%d' % e for e in evs]}: Done at steps {got}"
                        + (f" then {rr['x']}" if rr["x"] else "") + f"; the formula first holds at steps {want}",
                        {"kind": "e2e", "stmt": kind, "formula": job["formula"], "events": evs,
                         "observed_done_steps": got, "exception": rr["x"], "required_done_steps": want,
                         "program": program(kind, f)}))
            first = got[0] if got and rr["x"] is None else None
            if rr["x"] is None:
                obs.append((evs, first))
        terms2.append("(%s, %s, %s)" % (STMT[kind], coq_formula(f),
                                        C.coq_list([f"({coq_events(e)}, {coq_outcome(o)})" for e, o in obs])))
        kept2.append((kind, f, obs))

    # ---- failing members: results
    terms2f, kept2f = [], []
    n_fruns = 0
    f_hist = {"done": 0, "fail": 0, "never": 0}
    for job in fjobs:
        kind = job["kind"]
        cases = [from_json(c) for c in job["cases"]]
        text = program_cases(kind, cases).split("flow main\n")[1].replace("\n", " / ")
        origins[job["origin"]] = origins.get(job["origin"], 0) + len(job["seqs"])
        r = results.get(job["id"])
        if r is None:
            n_missing += 1
            if n_missing > 3:
                out.add_broken("harness:C07-children-incomplete", f"no result for `{text}`")
                continue
            out.findings.append(C.Finding(f"{kind}-group-hangs-or-crashes-interpreter",
                                          f"`{text}` with stopped member flows did not return under the time limit",
                                          {"kind": "e2e-fail", "stmt": kind, "cases": job["cases"], "events": job["seqs"][0]}))
            continue
        if r["parse"] != "ok":
            out.add_broken("harness:C07-program-text", f"cases {job['cases']} parsed as {r['parse']}")
            continue
        fsk = r.get("fskel") or {"odd": "missing"}
        t_fs = C.coq_list([coq_formula(c) for c in cases])
        if "ok" in fsk:
            terms3f.append(f"({STMT[kind]}, {t_fs}, {coq_fskel(fsk['ok'])})")
        else:
            terms3f.append(f"({STMT[kind]}, {t_fs}, (@nil (bool * list (list N * option nat) * option nat), @None nat))")
        kept3f.append((kind, cases, fsk))
        obs = []
        for evs, rr in zip(job["seqs"], r["runs"]):
            n_fruns += 1
            if any(len(ops_of(c)) >= 1 for c in cases) and any(not fin for _, fin in evs):
                n_nontrivial += 1
            want = fail_expected(cases, evs)
            f_hist[want[0]] += 1
            d, fl_step, x = rr["d"], rr["f"], rr["x"]
            if want[0] == "done":
                ok = x is None and fl_step is None and len(d) == 1 and d[0][0] == want[1] and d[0][1] in want[2]
            elif want[0] == "fail":
                ok = x is None and d == [] and fl_step == want[1]
            else:
                ok = x is None and d == [] and fl_step is None
            if not ok:
                oracle_bad += 1
                if len(out.findings) < 60:
                    if x is not None:
                        sig = f"{kind}-cases-raises-{x.split(':')[0]}-with-failed-members"
                    elif want[0] == "done" and not d:
                        sig = f"{kind}-case-does-not-fire-after-other-members-failed"
                    elif want[0] == "done":
                        sig = f"{kind}-case-fires-at-wrong-step-or-wrong-case-with-failed-members"
                    elif d:
                        sig = f"{kind}-case-fires-although-formula-does-not-hold-with-failed-members"
                    else:
                        sig = f"{kind}-statement-failure-at-wrong-step"
                    out.findings.append(C.Finding(
                        sig,
                        f"`{text}` with events {[('E%d' % a) if fin else ('Stop f%d' % a) for a, fin in evs]}: "
                        f"Done (step, case) = {d}, flow aborted at step {fl_step}" + (f", {x}" if x else "")
                        + f"; required: {want}",
                        {"kind": "e2e-fail", "stmt": kind, "cases": job["cases"], "events": evs, "observed_done": d,
                         "observed_abort_step": fl_step, "exception": x, "required": list(want),
                         "program": program_cases(kind, cases)}))
            if x is None and len(d) <= 1 and not (d and fl_step is not None):
                o = f"(ObsDone {d[0][0]} {d[0][1]})" if d else (f"(ObsFail {fl_step})" if fl_step is not None else "ObsNever")
                obs.append((evs, o))
        terms2f.append("(%s, %s, %s)" % (STMT[kind], t_fs, C.coq_list([f"({coq_fevents(e)}, {o})" for e, o in obs])))
        kept2f.append((kind, cases, obs))

    if okm and terms3f:
        bools, err = C.run_cases(PID + "_fcompile", PREAMBLE, terms3f, "check_fcompile", shard=150)
        if err:
            out.add_broken("correspondence:C07-fail-compile(coqc)", err)
        else:
            bad = [c for ok, c in zip(bools, kept3f) if not ok]
            if bad:
                kind, cases, sk = min(bad, key=lambda c: len(json.dumps([to_json(x) for x in c[1]])))
                t_fs = C.coq_list([coq_formula(c) for c in cases])
                model = C.eval_term(PID + "_fcompile", PREAMBLE, f"option_map fskel_of (fcompile {STMT[kind]} {t_fs})")
                out.add_broken("correspondence:C07-fail-compile",
                               f"{len(bad)} expansions differ from the model on the failure handlers; smallest: `{kind}` cases "
                               f"{[expr_text(c, kind) for c in cases]} real expansion reads as {sk}; model: {model}")
    if okm and terms2f:
        bools, err = C.run_cases(PID + "_frun", PREAMBLE, terms2f, "check_frun", shard=12)
        if err:
            out.add_broken("correspondence:C07-fail-run(coqc)", err)
        else:
            bad = [c for ok, c in zip(bools, kept2f) if not ok]
            if bad:
                kind, cases, obs = min(bad, key=lambda c: len(json.dumps([to_json(x) for x in c[1]])))
                t_fs = C.coq_list([coq_formula(c) for c in cases])
                t1 = [f"({STMT[kind]}, {t_fs}, {coq_fevents(e)}, {o})" for e, o in obs]
                b1, err1 = C.run_cases(PID + "_frun1", PREAMBLE, t1, "check_frun1", shard=400)
                detail = ""
                if not err1:
                    for ok, (e, o) in zip(b1, obs):
                        if not ok:
                            model = C.eval_term(PID + "_frun1", PREAMBLE, f"frun_c {STMT[kind]} {t_fs} {coq_fevents(e)}")
                            detail = f"events={e} interpreter={o} model={model}"
                            break
                out.add_broken("correspondence:C07-fail-run",
                               f"{len(bad)} statements disagree; smallest: `{kind}` cases {[expr_text(c, kind) for c in cases]} {detail}")

    if okm and terms3:
        bools, err = C.run_cases(PID + "_compile", PREAMBLE, terms3, "check_compile", shard=100)
        if err:
            out.add_broken("correspondence:C07-compile(coqc)", err)
        else:
            bad = [c for ok, c in zip(bools, kept3) if not ok]
            if bad:
                kind, f, sk = min(bad, key=lambda c: len(json.dumps(to_json(c[1]))))
                model = C.eval_term(PID + "_compile", PREAMBLE, f"option_map skel_of (compile {STMT[kind]} {coq_formula(f)})")
                out.add_broken("correspondence:C07-compile",
                               f"{len(bad)} expansions differ from the model; smallest: `{kind} {expr_text(f, kind)}` real expansion reads as {sk}; model: {model}")
    if okm and terms2:
        bools, err = C.run_cases(PID + "_run", PREAMBLE, terms2, "check_run", shard=12)
        if err:
            out.add_broken("correspondence:C07-run(coqc)", err)
        else:
            bad = [c for ok, c in zip(bools, kept2) if not ok]
            if bad:
                kind, f, obs = min(bad, key=lambda c: len(json.dumps(to_json(c[1]))))
                t1 = [f"({STMT[kind]}, {coq_formula(f)}, {coq_events(e)}, {coq_outcome(o)})" for e, o in obs]
                b1, err1 = C.run_cases(PID + "_run1", PREAMBLE, t1, "check_run1", shard=400)
                detail = ""
                if not err1:
                    for ok, (e, o) in zip(b1, obs):
                        if not ok:
                            model = C.eval_term(PID + "_run1", PREAMBLE, f"run_c {STMT[kind]} {coq_formula(f)} {coq_events(e)}")
                            detail = f"events={e} interpreter={'step %s' % o if o else 'never'} model={model}"
                            break
                out.add_broken("correspondence:C07-run",
                               f"{len(bad)} (statement, group) pairs disagree; smallest: `{kind} {expr_text(f, kind)}` {detail}")

    out.coverage.update({
        "evaluations": len(terms1) + len(terms3) + len(terms3f) + n_runs + n_fruns,
        "distinct_nontrivial": x1_nontrivial + n_nontrivial,
        "rule": "X1 (normalize): distinct group trees (hash of the tree) containing both `and` and `or` with depth>=2; "
                "X2 (interpreter runs): distinct (statement kind, group, event order) triples - distinct by construction - whose group "
                "contains both operators and >=3 distinct atoms; every order contains an irrelevant and a repeated event; failing-member runs: distinct "
                "(statement, cases, history) triples with at least one and/or group and at least one stopped member",
        "samples": [{"x1_group": to_json(f), "impl": to_json(r[1]) if r[0] == "ok" else r[1]} for f, r in kept1[:2]]
                   + [{"stmt": k, "group": to_json(f), "events": o[0][0], "done_step": o[0][1]} for k, f, o in kept2[len(kept2) // 2: len(kept2) // 2 + 3] if o],
        "input_distribution": {
            "x1_cases": len(terms1), "x1_results": x1_hist, "x1_distinct_nontrivial": x1_nontrivial,
            "x1_generator": "depth<=5, fan-out 0..4 (0/1 rare), 2..8 atoms with repetition, DNF <= %d alternatives" % (400 if thorough else 120),
            "x2_jobs": len(jobs), "x2_runs": n_runs, "x2_runs_by_origin": origins,
            "x2_kinds": {k: sum(len(j["seqs"]) for j in jobs if j["kind"] == k) for k in KINDS},
            "x3_expansions_compared": len(terms3),
            "x3_failure_handlers_compared": len(terms3f),
            "x2_fail_jobs": len(fjobs), "x2_fail_runs": n_fruns, "x2_fail_required_outcomes": f_hist,
            "corpus_cases": len(corpus),
            "x2_wall_s": round(t_x2, 1),
        },
        "traces_validated_against_impl": n_runs + n_fruns + len(terms1) + len(terms3) + len(terms3f),
        "correspondence_disagreements": len(x1_bad),
        "oracle_violations": oracle_bad,
    })
    out.assumptions += [
        "atoms are parameterless events E<i> / flows f<i> that finish on E<i>; an event matches an atom iff the names are equal (the theorems hold for any matching relation)",
        "await/when: every started member instance finishes exactly in the step of its flow's event; all instances of a flow finish / fail in the same step",
        "the protocol model (Groups.v) is tied to the interpreter by the end-to-end runs (X2) and to the expansion by the read-back of the expanded elements (X3), not by a refinement proof of statemachine.slide",
        "failing members: a member flow fails through StopFlow(flow_id); an event either finishes or stops flows, never both in one step; `when` without an else branch (all cases failed = the flow is aborted)",
    ]
    out.notes.append(f"wall: build {b.get('build_s')}s, interpreter children {round(t_x2, 1)}s, total {round(time.time() - t_start, 1)}s")
    if thorough and b["ok"]:
        ok, log = C.coqchk(PID, b["files"])
        out.coverage["coqchk"] = "ok" if ok else "FAILED"
        if not ok:
            out.add_broken("coqchk", log)
    return C.finish(out)


if __name__ == "__main__":
    if len(sys.argv) >= 3 and sys.argv[1] == "--worker":
        _worker(sys.argv[2])
    else:
        sys.exit(run(os.environ.get("VERIF_TIER", "quick"), int(os.environ.get("VERIF_SEED", "0") or 0)))
