(* C14 - Colang 1.0 dialog flows are followed like structured programs.
   Property theorems only; every proof is `exact <lemma>`; Print Assumptions beneath each.

   steps_now = V1.Interp.compute_next_steps (the transcription of flows.py / sliding.py)
               configured by what translator/gen_c14.py reads from the CURRENT source;
   next_steps = V1.Structured.next_steps, the reference semantics of the structured SOURCE
               (continuations + call stack; no heads, offsets or flow states);
   compile_prog = this development's compiler for the subset, checked on every run to produce
               exactly the FlowConfigs the real parser produces.
   Fuel: both sides take explicit fuel; a result other than Fuel does not depend on it
   (C14_history_only), and the theorems hold for all sufficiently large fuel. *)
From Coq Require Import ZArith List String Bool.
From NG Require Import Gen.C14Consts V1.Expr V1.Elems V1.Slide V1.Interp V1.Structured
                       V1.Interp_proofs V1.Code_proofs V1.Slide_proofs V1.Sim_proofs V1.Stack_proofs.
Import ListNotations.
Open Scope string_scope.
Open Scope list_scope.

(* (T) the current source marks a flow that runs to its end in the event that starts it as
   COMPLETED (the loop that starts new flows does what the loop over running flows does) *)
Theorem C14_start_marks_completed_in_source : start_marks_completed = true.
Proof. exact eq_refl. Qed.
Print Assumptions C14_start_marks_completed_in_source.

(* (T) _call_subflow proposes a called subflow's head as next step only while that subflow is
   ACTIVE - not when it is itself waiting for a deeper subflow *)
Theorem C14_call_records_active_only_in_source : call_records_active_only = true.
Proof. exact eq_refl. Qed.
Print Assumptions C14_call_records_active_only_in_source.

(* (T) sliding.py::slide is one `while True:` loop WITHOUT an iteration cap: its only `break` is
   the modelled one (a non-sliding element), its only other exits are the three modelled
   returns, and it keeps no step counter.  This is what licenses reading the model's explicit
   fuel as "enough": the theorems hold for all sufficiently large fuel, and the implementation
   has no bound at which it would give up (a loop over context variables runs to its end,
   however many iterations it needs) *)
Theorem C14_slide_has_no_step_bound_in_source : slide_unbounded = true.
Proof. exact eq_refl. Qed.
Print Assumptions C14_slide_has_no_step_bound_in_source.

(* slide() on compiled code follows the structured semantics inside one flow body: sequencing,
   set, if/else, while, break, continue at any nesting depth, up to the next statement that needs
   an event, the next `do`, or the end of the body (kmatch: continuation <-> code position) *)
Theorem C14_slide_follows_structure :
  forall C fuel c u blk k r pc lp,
    lexec fuel c u blk k = r -> r <> LFuel ->
    code_at C pc (compile_block (rel lp pc) blk) ->
    wf_block (inl lp) blk = true ->
    kmatch C k (pc + bsize blk)%Z lp ->
    (0 < zlen C)%Z ->
    exists sr, slide_post C r sr /\ exists F, forall f, (F <= f)%nat -> slide f C pc c u = sr.
Proof. exact lexec_slide. Qed.
Print Assumptions C14_slide_follows_structure.

(* COMPILER CORRECTNESS, whole histories: for every well-formed structured program of the subset
   (user / bot / execute / set / if-else / while with break and continue / do subflow, any
   nesting, subflows calling subflows) and EVERY history - following the flow, leaving it, coming
   back, restarting, bot stop, hide_prev_turn, context updates, events of other types -
   compute_next_steps on the compiled flows returns exactly what the reference semantics
   returns: the next steps, or the Python exception.
   Proof: simulation between the interpreter's State and the specification's state.  Inside one
   flow body: kmatch (source continuation <-> code position).  Across flows: the call stack of
   the specification <-> a chain of flow states (one ACTIVE at the statement waited on, the
   callers INTERRUPTED by their callee, at their continuation), sitting in State.flow_states in
   ANY order among dead ones; `do` pushes (sws_gen), the resume loop unwinds completed and
   aborted stacks wherever the flow states sit (resume_unwind, abort_unwind). *)
Theorem C14_compile_correct :
  forall p fuel hist r,
    wf_prog p = true ->
    next_steps fuel p hist = r -> r <> Fuel ->
    exists F, forall f, (F <= f)%nat -> steps_now f (compile_prog p) hist = r.
Proof. exact (compile_correct_full C14_start_marks_completed_in_source C14_call_records_active_only_in_source). Qed.
Print Assumptions C14_compile_correct.

(* following: when the history has followed the flow up to statement w (continuation k, context
   c built by the sets executed so far) and the next event is the one w waits for, the decided
   step is the statement the structured program blocks on next, with the assignments made on the
   way (this characterises the SPECIFICATION; with C14_compile_correct it transfers to
   compute_next_steps) *)
Theorem C14_follow_spec :
  forall fuel p hist w k stk c ev,
    follows_to fuel p hist w k stk c ->
    match ev with EvStartAct | EvCtx _ | EvHide => False | _ => True end ->
    string_in (event_type ev) default_triggers = true ->
    wait_match w ev = true -> is_bot_stop ev = false ->
    next_steps fuel p (hist ++ [ev]) =
    match resume (all_flows p) fuel c [] k stk with
    | XWait w' _ _ _ u' => Ok ((match u' with [] => [] | _ => [OCtx u'] end) ++
                              (if actionable w' then [step_of_wait w'] else []))
    | XEnd _ u' => Ok (match u' with [] => [] | _ => [OCtx u'] end)
    | XExc => Exc
    | XFuel => Fuel
    end.
Proof. exact spec_follow. Qed.
Print Assumptions C14_follow_spec.

(* leaving: a history that has followed the flow up to statement w (anywhere: inside loops,
   inside subflows) and continues with an event that w does not wait for yields no step at all *)
Theorem C14_leave :
  forall p fuel hist w k stk c ev,
    wf_prog p = true ->
    follows_to fuel p hist w k stk c ->
    match ev with EvStartAct | EvCtx _ | EvHide => False | _ => True end ->
    string_in (event_type ev) default_triggers = true ->
    wait_match w ev = false ->
    exists F, forall f, (F <= f)%nat -> steps_now f (compile_prog p) (hist ++ [ev]) = Ok [].
Proof. exact (fun p fuel hist w k stk c ev => leave_full p fuel hist w k stk c ev C14_start_marks_completed_in_source C14_call_records_active_only_in_source). Qed.
Print Assumptions C14_leave.

(* the decision is a function of (flow configs, history) alone: the model threads no state
   between calls (slide's `_active_label*` annotations are written, never read), and its only
   extra input, the fuel, does not influence a result: any two terminating evaluations agree.
   (The harness evaluates every history twice on the same FlowConfig objects and once on freshly
   parsed ones.) *)
Theorem C14_history_only :
  forall o f1 f2 cs h,
    compute_next_steps o f1 cs h <> Fuel -> compute_next_steps o f2 cs h <> Fuel ->
    compute_next_steps o f1 cs h = compute_next_steps o f2 cs h.
Proof. exact compute_next_steps_fuel_independent. Qed.
Print Assumptions C14_history_only.

(* regression documentation: what the pinned snapshot did.  Without the COMPLETED mark a flow
   that ends in the event that starts it swallows the next matching event ... *)
Theorem C14_unmarked_start_refuted :
  exists p hist, wf_prog p = true /\ nodo_block (p_main p) = true /\
    next_steps 50 p hist = Ok [OBot "say b"] /\
    compute_next_steps {| o_mark := false; o_guard := true |} 50 (compile_prog p) hist = Ok [].
Proof. exact unmarked_start_refuted. Qed.
Print Assumptions C14_unmarked_start_refuted.

(* ... and without the ACTIVE guard the statement after a nested `do` is proposed while the
   inner subflow still waits for the user *)
Theorem C14_unguarded_call_refuted :
  exists p hist, wf_prog p = true /\
    next_steps 50 p hist = Ok [] /\
    compute_next_steps {| o_mark := true; o_guard := false |} 50 (compile_prog p) hist = Ok [OBot "say x"].
Proof. exact unguarded_call_refuted. Qed.
Print Assumptions C14_unguarded_call_refuted.

(* non-vacuity: a nested program (if / while / break / continue / set / execute) satisfies the
   hypotheses, a 5-event history follows it into the loop and out through `break` ... *)
Theorem C14_example_nested :
  wf_prog ex_nodo = true /\ nodo_block (p_main ex_nodo) = true /\
  (exists k, follows_to 100 ex_nodo ex_nodo_hist (WExec "act_x" "{}" (Some "r")) k [] [("i", VInt 2%Z)]) /\
  next_steps 100 ex_nodo ex_nodo_hist = Ok [OCtx [("i", VInt 2%Z)]; OAct "act_x" "{}" (Some "r")].
Proof. exact (conj (proj1 ex_nodo_hyps) (conj (proj2 ex_nodo_hyps) (conj ex_nodo_follows_to (proj1 ex_nodo_follow)))). Qed.
Print Assumptions C14_example_nested.

(* ... and an instance of C14_compile_correct evaluated on the nested program WITH a subflow
   call and return *)
Theorem C14_example_subflow :
  forall h, In h [ex_hist; ex_hist ++ [EvBot "say s3"]; ex_hist ++ [EvUser "ask zzz"];
                  firstn 3 ex_hist; firstn 5 ex_hist ++ [EvBot "say nothing"]] ->
  compute_next_steps {| o_mark := true; o_guard := true |} 100 (compile_prog ex_prog) h
  = next_steps 100 ex_prog h.
Proof. exact ex_full_instance. Qed.
Print Assumptions C14_example_subflow.
