(* C19 - the cache keying AS READ FROM THE CURRENT SOURCE by translator/gen_c19.py
   (Gen/C19Consts.v: cache_key_includes_model): if the wrapper does not put the identity of the
   embedding model into the cache keys, `includes_now` no longer checks and with it the isolation
   theorem for the current source. *)
From Coq Require Import List Bool Arith.
From NG Require Import Gen.C19Consts Svc.EmbCache Svc.EmbCache_proofs.
Import ListNotations.

Lemma includes_now : cache_key_includes_model = true.
Proof. exact eq_refl. Qed.

Section Now.
  Variables mid text key vec : Type.
  Variable text_eq_dec : forall a b : text, {a = b} + {a <> b}.
  Variable key_eq_dec : forall a b : key, {a = b} + {a <> b}.
  Variable P : text -> Prop.

  Definition index_now (k : kindex mid text key vec) : index text key vec :=
    kx_index mid text key vec cache_key_includes_model k.

  Theorem isolation_now : forall ks : list (kindex mid text key vec),
    pair_inj mid text key vec P ks -> mid_model mid text key vec ks ->
    forall history a texts,
      Forall (fun c => In (fst c) ks /\ Forall P (snd c)) history -> In a ks -> Forall P texts ->
      fst (mcall text_eq_dec key_eq_dec
             (mrun text_eq_dec key_eq_dec no_stores (map (fun c => (index_now (fst c), snd c)) history))
             (index_now a) texts)
      = map (fun t => Some (kx_emb mid text key vec a t)) texts.
  Proof.
    unfold index_now. rewrite includes_now. apply keyed_correct.
  Qed.
End Now.
