(* Pipe.FlowCheck_proofs - soundness of the dominance checker and the rails-loop lemma. *)
From Coq Require Import List String Bool ZArith Lia.
From NG Require Import Pipe.FlowCheck.
Import ListNotations.
Open Scope list_scope.

(* a path of the control-flow graph `slide` follows: (index, edge taken) steps from i to k *)
Inductive path (es : list elem) : Z -> list (Z * edge) -> Z -> Prop :=
| path_nil : forall i, path es i [] i
| path_cons : forall i e l j p k,
    elem_at es i = Some e -> In (l, j) (succs i e) -> path es j p k -> path es i ((i, l) :: p) k.

Lemma zmem_In : forall x l, zmem x l = true <-> In x l.
Proof.
  intros x l. unfold zmem. rewrite existsb_exists. split.
  - intros (y & Hy & He). apply Z.eqb_eq in He. subst. exact Hy.
  - intros H. exists x. split; [exact H|apply Z.eqb_refl].
Qed.

Section Sound.
  Variable es : list elem.
  Variable gate : elem -> bool.
  Variable target : option elem -> bool.
  Variable excused : edge -> bool.

  (* a step of the path passes the gate element or takes an excused guard edge *)
  Definition passes (p : list (Z * edge)) : Prop :=
    exists i l e, In (i, l) p /\ elem_at es i = Some e /\ (gate e = true \/ excused l = true).

  Lemma closed_path :
    forall entry R, closedb es gate target excused entry R = true ->
    forall i p k, path es i p k -> zmem i R = true -> zmem k R = true \/ passes p.
  Proof.
    intros entry R Hc. unfold closedb in Hc.
    apply andb_true_iff in Hc. destruct Hc as [Hc _].
    apply andb_true_iff in Hc. destruct Hc as [_ Hcl].
    rewrite forallb_forall in Hcl.
    intros i p k Hp. induction Hp as [i|i e l j p k He Hin Hp IH]; intros Hi.
    - left. exact Hi.
    - destruct (gate e) eqn:Hg.
      { right. exists i, l, e. split; [left; reflexivity|]. split; [exact He|left; exact Hg]. }
      destruct (excused l) eqn:Hx.
      { right. exists i, l, e. split; [left; reflexivity|]. split; [exact He|right; exact Hx]. }
      assert (Hj : zmem j R = true).
      { apply zmem_In in Hi. specialize (Hcl i Hi). rewrite forallb_forall in Hcl.
        apply (Hcl (l, j)). unfold out_edges. rewrite He, Hg. apply filter_In. split; [exact Hin|].
        simpl. rewrite Hx. reflexivity. }
      destruct (IH Hj) as [Hk|(i' & l' & e' & Hin' & He' & Hor)].
      + left. exact Hk.
      + right. exists i', l', e'. split; [right; exact Hin'|]. split; assumption.
  Qed.

  (* SOUNDNESS: if the checker accepts, every path from the entry to a target element passes
     the gate or takes an excused edge *)
  Theorem gatedb_sound :
    forall entry, gatedb es gate target excused entry = true ->
    forall p k, path es entry p k -> target (elem_at es k) = true ->
                passes p \/ (exists e, elem_at es k = Some e /\ gate e = true).
  Proof.
    intros entry H p k Hp Ht. unfold gatedb in H.
    pose proof H as Hc. unfold closedb in Hc.
    apply andb_true_iff in Hc. destruct Hc as [Hc Htg].
    apply andb_true_iff in Hc. destruct Hc as [Hentry _].
    destruct (closed_path _ _ H _ _ _ Hp Hentry) as [Hk|Hpass]; [|left; exact Hpass].
    right. rewrite forallb_forall in Htg. apply zmem_In in Hk. specialize (Htg k Hk).
    rewrite Ht in Htg. simpl in Htg. destruct (elem_at es k) as [e|]; [|discriminate].
    exists e. split; [reflexivity|exact Htg].
  Qed.
End Sound.

(* ---- the rails loop: from three computational facts about the flow (the prologue reaches the
   `while` with counter 0; one iteration visits rail i and comes back with i+1; a false
   condition leaves the flow) the loop visits 0 .. n-1 in order, for every n *)
Lemma zseq_snoc_free : forall i m, zseq i (S m) = i :: zseq (i + 1) m.
Proof. reflexivity. Qed.

Lemma loop_generic :
  forall s es w kpre kbody kexit,
    (forall f n i0 acc, lrun s es n (kpre + f) 0 i0 acc = lrun s es n f w 0%Z acc) ->
    (forall f n i acc, (i <? n)%Z = true ->
                       lrun s es n (kbody + f) w i acc = lrun s es n f w (i + 1)%Z (i :: acc)) ->
    (forall f n i acc, (i <? n)%Z = false -> lrun s es n (kexit + f) w i acc = Some (rev acc)) ->
    forall (n : nat) i0, exists fuel, lrun s es (Z.of_nat n) fuel 0 i0 [] = Some (zseq 0 n).
Proof.
  intros s es w kpre kbody kexit Hpre Hbody Hexit n i0.
  assert (Hloop : forall m i acc, (i + Z.of_nat m = Z.of_nat n)%Z ->
                                  exists fuel, lrun s es (Z.of_nat n) fuel w i acc = Some (rev acc ++ zseq i m)).
  { induction m as [|m IH]; intros i acc Hi.
    - exists (kexit + 0). rewrite Hexit by (apply Z.ltb_ge; lia). simpl. rewrite app_nil_r. reflexivity.
    - destruct (IH (i + 1)%Z (i :: acc)) as [fuel Hf]; [lia|].
      exists (kbody + fuel). rewrite Hbody by (apply Z.ltb_lt; lia).
      rewrite Hf. simpl. rewrite <- app_assoc. reflexivity. }
  destruct (Hloop n 0%Z []) as [fuel Hf]; [lia|].
  exists (kpre + fuel). rewrite Hpre. exact Hf.
Qed.
