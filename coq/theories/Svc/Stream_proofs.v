(* C18 - proofs about the streaming-handler model of Svc/Stream.v.

   Main result (chunking_independent): for every alphabet, configuration and list of non-empty
   chunks, the repaired handler delivers exactly `spec cfg (concat chunks)` and its completion is
   that same string - whatever the chunking.  Proof: an invariant over `feed`:
     pending   - the prefix has not been seen: everything consumed sits in current_chunk;
     streaming - completion ++ current_chunk = text after the prefix, the queue holds exactly
                 the completion, no stop sequence starts inside the completion and no non-empty
                 tail of the completion is the beginning of the suffix or of a stop sequence;
     stopped   - a stop sequence was seen: completion = delivered = the final answer for every
                 continuation of the text. *)
From Coq Require Import List Bool Arith Lia.
From NG Require Import Svc.Stream.
Import ListNotations.

Section Proofs.
Variable A : Type.
Variable eqb : A -> A -> bool.
Hypothesis eqb_spec : forall a b, eqb a b = true <-> a = b.
Notation str := (list A).

(* ------------------------------------------------------------------------------------ *)
(* startswith / endswith / find                                                          *)

Lemma prefixb_iff (p s : str) : prefixb eqb p s = true <-> exists r, s = p ++ r.
Proof.
  revert s; induction p as [|a p IH]; intros s; simpl.
  - split; [intros _; exists s; reflexivity | reflexivity].
  - destruct s as [|b s].
    + split; [discriminate | intros [r Hr]; discriminate].
    + rewrite andb_true_iff, eqb_spec, IH. split.
      * intros [Hab [r Hr]]. subst. exists r. reflexivity.
      * intros [r Hr]. injection Hr as Hab Hs. subst. split; [reflexivity | exists r; reflexivity].
Qed.

Lemma prefixb_false (p s : str) : prefixb eqb p s = false -> forall r, s <> p ++ r.
Proof.
  intros Hf r Hr.
  assert (Ht : prefixb eqb p s = true) by (apply prefixb_iff; exists r; exact Hr).
  congruence.
Qed.

Lemma endswith_iff (s p : str) : endswith eqb s p = true <-> exists r, s = r ++ p.
Proof.
  unfold endswith. rewrite prefixb_iff. split.
  - intros [r Hr]. exists (rev r).
    rewrite <- (rev_involutive s), Hr, rev_app_distr, rev_involutive. reflexivity.
  - intros [r Hr]. exists (rev r). subst. apply rev_app_distr.
Qed.

Notation occ := (@occ A).

Lemma occ_0 (p s : str) : occ p s 0 <-> exists b, s = p ++ b.
Proof.
  split.
  - intros [a [b [Hs Ha]]]. destruct a; [|discriminate]. exists b. exact Hs.
  - intros [b Hb]. exists [], b. split; [exact Hb | reflexivity].
Qed.

Lemma occ_cons (p : str) (x : A) (s : str) (j : nat) : occ p (x :: s) (S j) <-> occ p s j.
Proof.
  split.
  - intros [a [b [Hs Ha]]]. destruct a as [|y a]; [discriminate|].
    simpl in Hs. injection Hs as _ Hs. exists a, b. split; [exact Hs | simpl in Ha; lia].
  - intros [a [b [Hs Ha]]]. exists (x :: a), b. subst. split; reflexivity.
Qed.

Lemma occ_nil_S (p : str) (j : nat) : ~ occ p [] (S j).
Proof. intros [a [b [Hs Ha]]]. destruct a; discriminate. Qed.

Lemma occ_bound (p s : str) (i : nat) : occ p s i -> i + length p <= length s.
Proof. intros [a [b [Hs Ha]]]. subst. rewrite !app_length. lia. Qed.

Lemma occ_app_r (p s r : str) (i : nat) : occ p s i -> occ p (s ++ r) i.
Proof.
  intros [a [b [Hs Ha]]]. exists a, (b ++ r). subst. split; [|reflexivity].
  rewrite <- !app_assoc. reflexivity.
Qed.

Lemma find_eq (p s : str) :
  find eqb p s = if prefixb eqb p s then Some 0
                 else match s with [] => None | _ :: s' => option_map S (find eqb p s') end.
Proof. destruct s; reflexivity. Qed.

Lemma find_Some (p s : str) (i : nat) :
  find eqb p s = Some i -> occ p s i /\ forall j, j < i -> ~ occ p s j.
Proof.
  revert i; induction s as [|x s IH]; intros i; rewrite find_eq.
  - destruct (prefixb eqb p []) eqn:Hp.
    + intros Hi. injection Hi as <-. split; [|intros j Hj; lia].
      apply occ_0. apply prefixb_iff. exact Hp.
    + discriminate.
  - destruct (prefixb eqb p (x :: s)) eqn:Hp.
    + intros Hi. injection Hi as <-. split; [|intros j Hj; lia].
      apply occ_0. apply prefixb_iff. exact Hp.
    + destruct (find eqb p s) as [k|] eqn:Hk; simpl; [|discriminate].
      intros Hi. injection Hi as <-. destruct (IH k eq_refl) as [Hocc Hmin]. split.
      * apply occ_cons. exact Hocc.
      * intros j Hj Hoc. destruct j as [|j].
        -- apply (proj1 (occ_0 _ _)) in Hoc. destruct Hoc as [b Hb]. exact (prefixb_false _ _ Hp b Hb).
        -- apply (proj1 (occ_cons _ _ _ _)) in Hoc. apply (Hmin j); [lia | exact Hoc].
Qed.

Lemma find_None (p s : str) : find eqb p s = None -> forall j, ~ occ p s j.
Proof.
  induction s as [|x s IH]; rewrite find_eq.
  - destruct (prefixb eqb p []) eqn:Hp; [discriminate|]. intros _ j Hoc. destruct j.
    + apply (proj1 (occ_0 _ _)) in Hoc. destruct Hoc as [b Hb]. exact (prefixb_false _ _ Hp b Hb).
    + exact (occ_nil_S _ _ Hoc).
  - destruct (prefixb eqb p (x :: s)) eqn:Hp; [discriminate|].
    destruct (find eqb p s) as [k|] eqn:Hk; simpl; [discriminate|].
    intros _ j Hoc. destruct j.
    + apply (proj1 (occ_0 _ _)) in Hoc. destruct Hoc as [b Hb]. exact (prefixb_false _ _ Hp b Hb).
    + apply (proj1 (occ_cons _ _ _ _)) in Hoc. exact (IH eq_refl j Hoc).
Qed.

(* ------------------------------------------------------------------------------------ *)
(* first_stop = the least index at which some stop sequence occurs                       *)

Definition is_first (stops : list str) (t : str) (m : nat) : Prop :=
  (exists s, In s stops /\ occ s t m) /\ forall s j, In s stops -> occ s t j -> m <= j.

Lemma first_stop_None (stops : list str) (t : str) :
  first_stop eqb stops t = None -> forall s j, In s stops -> ~ occ s t j.
Proof.
  induction stops as [|s0 stops IH]; simpl; intros Hn s j Hin; [contradiction|].
  destruct (find eqb s0 t) as [i|] eqn:Hf.
  - destruct (first_stop eqb stops t); discriminate.
  - destruct Hin as [<- | Hin]; [exact (find_None _ _ Hf j) | exact (IH Hn s j Hin)].
Qed.

Lemma first_stop_Some (stops : list str) (t : str) (m : nat) :
  first_stop eqb stops t = Some m -> is_first stops t m.
Proof.
  revert m; induction stops as [|s0 stops IH]; simpl; intros m Hm; [discriminate|].
  destruct (find eqb s0 t) as [i|] eqn:Hf.
  - destruct (find_Some _ _ _ Hf) as [Hocc Hmin].
    destruct (first_stop eqb stops t) as [k|] eqn:Hk.
    + injection Hm as <-. destruct (IH k eq_refl) as [[s1 [Hin1 Hocc1]] Hmin1]. split.
      * destruct (Nat.min_spec i k) as [[_ ->] | [_ ->]].
        -- exists s0. split; [left; reflexivity | exact Hocc].
        -- exists s1. split; [right; exact Hin1 | exact Hocc1].
      * intros s j [<- | Hin] Hoc.
        -- assert (i <= j) by (destruct (le_lt_dec i j); [assumption | exfalso; exact (Hmin j l Hoc)]). lia.
        -- specialize (Hmin1 s j Hin Hoc). lia.
    + injection Hm as <-. split.
      * exists s0. split; [left; reflexivity | exact Hocc].
      * intros s j [<- | Hin] Hoc.
        -- destruct (le_lt_dec i j); [assumption | exfalso; exact (Hmin j l Hoc)].
        -- exfalso. exact (first_stop_None _ _ Hk s j Hin Hoc).
  - destruct (IH m Hm) as [[s1 [Hin1 Hocc1]] Hmin1]. split.
    + exists s1. split; [right; exact Hin1 | exact Hocc1].
    + intros s j [<- | Hin] Hoc; [exfalso; exact (find_None _ _ Hf j Hoc) | exact (Hmin1 s j Hin Hoc)].
Qed.

Lemma is_first_unique (stops : list str) (t : str) (m m' : nat) :
  is_first stops t m -> is_first stops t m' -> m = m'.
Proof.
  intros [[s [Hin Hoc]] Hmin] [[s' [Hin' Hoc']] Hmin'].
  specialize (Hmin s' m' Hin' Hoc'). specialize (Hmin' s m Hin Hoc). lia.
Qed.

Lemma is_first_first_stop (stops : list str) (t : str) (m : nat) :
  is_first stops t m -> first_stop eqb stops t = Some m.
Proof.
  intros Hm. destruct (first_stop eqb stops t) as [k|] eqn:Hk.
  - f_equal. exact (is_first_unique _ _ _ _ (first_stop_Some _ _ _ Hk) Hm).
  - exfalso. destruct Hm as [[s [Hin Hoc]] _]. exact (first_stop_None _ _ Hk s m Hin Hoc).
Qed.

Lemma first_stop_bound (stops : list str) (t : str) (m : nat) :
  first_stop eqb stops t = Some m -> m <= length t.
Proof.
  intros Hm. destruct (first_stop_Some _ _ _ Hm) as [[s [_ Hoc]] _].
  pose proof (occ_bound _ _ _ Hoc). lia.
Qed.

(* ------------------------------------------------------------------------------------ *)
(* hold-back: no non-empty tail of t is the beginning of a pattern                       *)

Definition nopartial (pats : list str) (t : str) : Prop :=
  forall p u v w, In p pats -> t = u ++ v -> v <> [] -> p <> v ++ w.

(* no stop sequence starts inside e *)
Definition nostop_inside (stops : list str) (e : str) : Prop :=
  forall s j, In s stops -> occ s e j -> length e <= j.

Lemma nopartial_nil (pats : list str) : nopartial pats [].
Proof.
  intros p u v w _ Ht Hv _. symmetry in Ht. apply app_eq_nil in Ht. destruct Ht. contradiction.
Qed.

Lemma nostop_inside_nil (stops : list str) : nostop_inside stops [].
Proof. intros s j _ Hoc. simpl. lia. Qed.

Lemma nopartial_sub (pats pats' : list str) (t : str) :
  (forall p, In p pats' -> In p pats) -> nopartial pats t -> nopartial pats' t.
Proof. intros Hsub Hn p u v w Hin. apply Hn. apply Hsub. exact Hin. Qed.

(* the hold-back test of push_chunk is complete: when it answers False no tail is partial *)
Lemma partial_end_of_complete (cur p v w u : str) :
  cur = u ++ v -> v <> [] -> p = v ++ w -> partial_end_of eqb cur p = true.
Proof.
  intros Hcur Hv Hp. unfold partial_end_of. apply existsb_exists.
  destruct v as [|x v]; [contradiction|].
  exists (length v). split.
  - apply in_seq. subst p. rewrite app_length. simpl. lia.
  - apply endswith_iff. exists u. subst.
    replace (S (length v)) with (length (x :: v)) by reflexivity.
    rewrite firstn_app, Nat.sub_diag, firstn_all. simpl. rewrite app_nil_r. reflexivity.
Qed.

Lemma partial_end_false (cur : str) (pats : list str) :
  partial_end eqb cur pats = false -> nopartial pats cur.
Proof.
  intros Hf p u v w Hin Hcur Hv Hp.
  assert (Ht : partial_end eqb cur pats = true).
  { unfold partial_end. apply existsb_exists. exists p. split; [exact Hin|].
    exact (partial_end_of_complete _ _ _ _ _ Hcur Hv Hp). }
  congruence.
Qed.

(* flushing h after e keeps the property when h itself has no partial tail *)
Lemma nopartial_app (pats : list str) (e h : str) :
  nopartial pats e -> nopartial pats h -> nopartial pats (e ++ h).
Proof.
  intros He Hh p u v w Hin Ht Hv Hp.
  apply app_eq_app in Ht. destruct Ht as [l [[Hl1 Hl2] | [Hl1 Hl2]]].
  - (* e = u ++ l, v = l ++ h *)
    destruct l as [|x l].
    + simpl in Hl2. subst v. apply (Hh p [] h w Hin eq_refl Hv Hp).
    + subst v. rewrite <- app_assoc in Hp.
      apply (He p u (x :: l) (h ++ w) Hin Hl1); [discriminate | exact Hp].
  - (* u = e ++ l, h = l ++ v *)
    apply (Hh p l v w Hin Hl2 Hv Hp).
Qed.

(* every stop occurrence in e ++ x starts at or after the end of e *)
Lemma stop_after (stops : list str) (e x : str) :
  nostop_inside stops e -> nopartial stops e ->
  forall s j, In s stops -> occ s (e ++ x) j -> length e <= j.
Proof.
  intros Hns Hnp s j Hin [a [b [Hs Ha]]].
  destruct (le_lt_dec (length e) j) as [Hle|Hlt]; [exact Hle|exfalso].
  apply app_eq_app in Hs. destruct Hs as [l [[Hl1 Hl2] | [Hl1 Hl2]]].
  - (* e = a ++ l, s ++ b = l ++ x *)
    assert (Hl : l <> []) by (intros ->; rewrite app_nil_r in Hl1; subst; lia).
    symmetry in Hl2. apply app_eq_app in Hl2. destruct Hl2 as [l2 [[Hm1 Hm2] | [Hm1 Hm2]]].
    + (* l = s ++ l2 : the occurrence lies inside e *)
      assert (Hoc : occ s e j).
      { exists a, l2. split; [|exact Ha]. rewrite Hl1, Hm1. reflexivity. }
      specialize (Hns s j Hin Hoc). lia.
    + (* s = l ++ l2 : a tail of e begins s *)
      exact (Hnp s a l l2 Hin Hl1 Hl Hm1).
  - (* a = e ++ l *)
    subst a. rewrite app_length in Ha. lia.
Qed.

(* once found in t (and t has no partial tail), the first stop stays the first in t ++ r *)
Lemma first_stop_extend (stops : list str) (t r : str) (m : nat) :
  first_stop eqb stops t = Some m -> nopartial stops t ->
  first_stop eqb stops (t ++ r) = Some m.
Proof.
  intros Hm Hnp. apply is_first_first_stop.
  destruct (first_stop_Some _ _ _ Hm) as [[s0 [Hin0 Hoc0]] Hmin]. split.
  - exists s0. split; [exact Hin0 | exact (occ_app_r _ _ r _ Hoc0)].
  - intros s j Hin [a [b [Hs Ha]]].
    destruct (le_lt_dec m j) as [Hle|Hlt]; [exact Hle|exfalso].
    pose proof (occ_bound _ _ _ Hoc0) as Hb0.
    apply app_eq_app in Hs. destruct Hs as [l [[Hl1 Hl2] | [Hl1 Hl2]]].
    + (* t = a ++ l, s ++ b = l ++ r *)
      assert (Hl : l <> []) by (intros ->; rewrite app_nil_r in Hl1; subst; lia).
      symmetry in Hl2. apply app_eq_app in Hl2. destruct Hl2 as [l2 [[Hm1 Hm2] | [Hm1 Hm2]]].
      * assert (Hoc : occ s t j).
        { exists a, l2. split; [|exact Ha]. rewrite Hl1, Hm1. reflexivity. }
        specialize (Hmin s j Hin Hoc). lia.
      * exact (Hnp s a l l2 Hin Hl1 Hl Hm1).
    + subst a. rewrite app_length in Ha. lia.
Qed.

(* ------------------------------------------------------------------------------------ *)
(* suffix removal commutes with an already flushed part                                  *)

Lemma firstn_app_exact (a b : str) : firstn (length a) (a ++ b) = a.
Proof. rewrite firstn_app, Nat.sub_diag, firstn_all. simpl. apply app_nil_r. Qed.

Lemma strip_suffix_falsy (suf : option str) (c : str) : truthy suf = false -> strip_suffix eqb suf c = c.
Proof. intros Hf. unfold strip_suffix. rewrite Hf. reflexivity. Qed.

Lemma strip_suffix_app (suf : option str) (e c : str) :
  (truthy suf = true -> nopartial [oget suf] e) ->
  strip_suffix eqb suf (e ++ c) = e ++ strip_suffix eqb suf c.
Proof.
  intros Hnp. unfold strip_suffix. destruct (truthy suf) eqn:Ht; simpl; [|reflexivity].
  specialize (Hnp eq_refl). set (S := oget suf) in *.
  assert (HS : S <> []).
  { unfold S. destruct suf as [[|x s]|]; simpl in *; try discriminate. }
  destruct (endswith eqb c S) eqn:Hc.
  - apply endswith_iff in Hc. destruct Hc as [r Hr].
    assert (He : endswith eqb (e ++ c) S = true).
    { apply endswith_iff. exists (e ++ r). subst c. rewrite app_assoc. reflexivity. }
    rewrite He. subst c. rewrite !app_length.
    replace (length e + (length r + length S) - length S) with (length (e ++ r)) by (rewrite app_length; lia).
    replace (length r + length S - length S) with (length r) by lia.
    rewrite app_assoc, !firstn_app_exact. reflexivity.
  - destruct (endswith eqb (e ++ c) S) eqn:He; [exfalso|reflexivity].
    apply endswith_iff in He. destruct He as [r Hr].
    apply app_eq_app in Hr. destruct Hr as [l [[Hl1 Hl2] | [Hl1 Hl2]]].
    + (* e = r ++ l, S = l ++ c *)
      destruct l as [|x l].
      * simpl in Hl2. subst c.
        assert (Ht2 : endswith eqb S S = true) by (apply endswith_iff; exists []; reflexivity).
        congruence.
      * apply (Hnp S r (x :: l) c); [left; reflexivity | exact Hl1 | discriminate | exact Hl2].
    + (* r = e ++ l, c = l ++ S *)
      assert (Ht2 : endswith eqb c S = true) by (apply endswith_iff; exists l; exact Hl2).
      congruence.
Qed.


(* ------------------------------------------------------------------------------------ *)
(* small facts                                                                           *)

Lemma skipn_app_exact (a b : str) : skipn (length a) (a ++ b) = b.
Proof. rewrite skipn_app, Nat.sub_diag, skipn_all. reflexivity. Qed.

Lemma strip_suffix_nil (suf : option str) : strip_suffix eqb suf [] = [].
Proof. unfold strip_suffix. destruct (truthy suf && endswith eqb [] (oget suf)); [apply firstn_nil | reflexivity]. Qed.

Definition noend (q : list (option str)) : bool := forallb (fun i => negb (is_end i)) q.

Lemma delivered_app_noend (q r : list (option str)) :
  noend q = true -> delivered (q ++ r) = delivered q ++ delivered r.
Proof.
  induction q as [|i q IH]; simpl; intros Hq; [reflexivity|].
  apply andb_true_iff in Hq. destruct Hq as [Hi Hq].
  destruct i as [[|x s]|]; simpl in Hi; try discriminate.
  simpl. rewrite IH by exact Hq. reflexivity.
Qed.

Lemma delivered_snoc_end (q : list (option str)) : delivered (q ++ [Some []]) = delivered q.
Proof.
  induction q as [|i q IH]; simpl; [reflexivity|].
  destruct i as [[|x s]|]; simpl; try reflexivity. rewrite IH. reflexivity.
Qed.

Lemma delivered_snoc_none (q : list (option str)) : delivered (q ++ [None]) = delivered q.
Proof.
  induction q as [|i q IH]; simpl; [reflexivity|].
  destruct i as [[|x s]|]; simpl; try reflexivity. rewrite IH. reflexivity.
Qed.

Lemma concat_delivered_snoc (q : list (option str)) (z : str) :
  noend q = true -> concat (delivered (q ++ [Some z])) = concat (delivered q) ++ z.
Proof.
  intros Hq. rewrite delivered_app_noend by exact Hq. rewrite concat_app.
  destruct z as [|x z]; simpl; rewrite ?app_nil_r; reflexivity.
Qed.

Lemma noend_snoc (q : list (option str)) (z : str) : noend q = true -> z <> [] -> noend (q ++ [Some z]) = true.
Proof.
  intros Hq Hz. unfold noend. rewrite forallb_app. fold (noend q). rewrite Hq. simpl.
  destruct z; [contradiction | reflexivity].
Qed.

(* ------------------------------------------------------------------------------------ *)
(* the specification on the text after the prefix                                        *)

Definition spec' (c : config A) (t : str) : str :=
  strip_suffix eqb (c_suffix c) (cut_stop eqb (c_stop c) t).

Lemma spec_spec' (c : config A) (t : str) : spec eqb c t = spec' c (strip_prefix eqb (c_prefix c) t).
Proof. reflexivity. Qed.

Definition pats (c : config A) : list str :=
  (if truthy (c_suffix c) then [oget (c_suffix c)] else []) ++ c_stop c.

Lemma pats_stop (c : config A) (t : str) : nopartial (pats c) t -> nopartial (c_stop c) t.
Proof. apply nopartial_sub. intros p Hp. unfold pats. apply in_or_app. right. exact Hp. Qed.

Lemma pats_suffix (c : config A) (t : str) :
  nopartial (pats c) t -> truthy (c_suffix c) = true -> nopartial [oget (c_suffix c)] t.
Proof.
  intros Hn Ht. revert Hn. apply nopartial_sub. intros p Hp. unfold pats. rewrite Ht.
  apply in_or_app. left. exact Hp.
Qed.

(* what `process` relies on: configuration unchanged, the queue holds exactly the completion,
   no stop sequence starts inside the completion, no partial pattern at its end *)
Record pre (c : config A) (st : state A) : Prop := mkPre {
  pre_suffix : s_suffix st = c_suffix c;
  pre_stop : s_stop st = c_stop c;
  pre_noend : noend (s_queue st) = true;
  pre_deliv : concat (delivered (s_queue st)) = s_completion st;
  pre_nostop : nostop_inside (c_stop c) (s_completion st);
  pre_nopartial : nopartial (pats c) (s_completion st)
}.

Lemma pre_set_cur (c : config A) (st : state A) (k : str) : pre c st -> pre c (set_cur st k).
Proof. intros [H1 H2 H3 H4 H5 H6]. constructor; assumption. Qed.

(* firstn / slice around the end of the completion *)
Lemma firstn_app_ge (e x : str) (m : nat) :
  length e <= m -> firstn m (e ++ x) = e ++ firstn (m - length e) x.
Proof. intros Hm. rewrite firstn_app, firstn_all2 by exact Hm. reflexivity. Qed.

Lemma slice_app_ge (e x : str) (m : nat) :
  length e <= m -> slice (length e) m (e ++ x) = firstn (m - length e) x.
Proof. intros Hm. unfold slice. rewrite firstn_app_ge by exact Hm. apply skipn_app_exact. Qed.

(* _process on a stop sequence *)
Lemma process_stop (c : config A) (st : state A) (x : str) (last : bool) (m : nat) :
  pre c st ->
  first_stop eqb (c_stop c) (s_completion st ++ x) = Some m ->
  let st' := process eqb st (Some x) last in
  s_finished st' = true /\ s_cur st' = s_cur st /\
  s_completion st' = strip_suffix eqb (c_suffix c) (firstn m (s_completion st ++ x)) /\
  concat (delivered (s_queue st')) = strip_suffix eqb (c_suffix c) (firstn m (s_completion st ++ x)).
Proof.
  intros Hpre Hm.
  destruct st as [pf sf sp cu co fi qu er]. destruct Hpre as [H1 H2 H3 H4 H5 H6]. simpl in *. subst sf sp.
  assert (Hge : length co <= m).
  { destruct (first_stop_Some _ _ _ Hm) as [[s [Hin Hoc]] _].
    exact (stop_after _ _ x H5 (pats_stop _ _ H6) s m Hin Hoc). }
  unfold process. simpl. rewrite Hm, slice_app_ge by exact Hge.
  rewrite (firstn_app_ge _ _ _ Hge).
  rewrite strip_suffix_app by (intros Ht; exact (pats_suffix _ _ H6 Ht)).
  destruct (firstn (m - length co) x) as [|y ys] eqn:Hy.
  - simpl. rewrite strip_suffix_nil, app_nil_r. repeat split; try reflexivity. exact H4.
  - simpl. rewrite orb_true_r. simpl. repeat split; try reflexivity.
    rewrite concat_delivered_snoc by exact H3. rewrite H4. reflexivity.
Qed.

(* _process without a stop sequence *)
Lemma process_nostop (st : state A) (x : str) (last : bool) :
  first_stop eqb (s_stop st) (s_completion st ++ x) = None ->
  let x2 := if last then strip_suffix eqb (s_suffix st) x else x in
  process eqb st (Some x) last =
  mkState (s_prefix st) (s_suffix st) (s_stop st) (s_cur st) (s_completion st ++ x2)
          (s_finished st || false || is_end (Some x2)) (s_queue st ++ [Some x2]) (s_err st).
Proof. intros Hn. unfold process. rewrite Hn. reflexivity. Qed.

(* an empty chunk changes neither the completion nor what is delivered *)
Lemma process_nil (st : state A) (last : bool) :
  let st' := process eqb st (Some []) last in
  s_completion st' = s_completion st /\
  concat (delivered (s_queue st')) = concat (delivered (s_queue st)).
Proof.
  unfold process. rewrite app_nil_r.
  destruct (first_stop eqb (s_stop st) (s_completion st)) as [m|].
  - replace (slice (length (s_completion st)) m (s_completion st)) with (@nil A).
    + simpl. split; reflexivity.
    + unfold slice. symmetry. apply skipn_all2. rewrite firstn_length. lia.
  - replace (if last then strip_suffix eqb (s_suffix st) [] else []) with (@nil A)
      by (destruct last; [rewrite strip_suffix_nil|]; reflexivity).
    simpl. rewrite app_nil_r, delivered_snoc_end. split; reflexivity.
Qed.

(* the last chunk: completion and delivered text are the specified answer *)
Lemma process_last (c : config A) (st : state A) (x : str) :
  pre c st ->
  let st' := process eqb st (Some x) true in
  s_completion st' = spec' c (s_completion st ++ x) /\
  concat (delivered (s_queue st')) = spec' c (s_completion st ++ x).
Proof.
  intros Hpre. unfold spec', cut_stop.
  destruct (first_stop eqb (c_stop c) (s_completion st ++ x)) as [m|] eqn:Hm.
  - destruct (process_stop c st x true m Hpre Hm) as [_ [_ [Hc Hd]]]. split; assumption.
  - destruct Hpre as [H1 H2 H3 H4 H5 H6].
    rewrite <- H2 in Hm. simpl. rewrite (process_nostop st x true Hm). simpl.
    rewrite H1. rewrite strip_suffix_app by (intros Ht; exact (pats_suffix _ _ H6 Ht)).
    split; [reflexivity|]. rewrite concat_delivered_snoc by exact H3. rewrite H4. reflexivity.
Qed.

(* a flushed completion is its own answer *)
Lemma spec'_flushed (c : config A) (st : state A) : pre c st -> spec' c (s_completion st) = s_completion st.
Proof.
  intros Hpre. destruct (process_last c st [] Hpre) as [Hc _].
  rewrite app_nil_r in Hc. rewrite <- Hc. apply (process_nil st true).
Qed.

(* ------------------------------------------------------------------------------------ *)
(* the invariant                                                                         *)

Definition has_pats (c : config A) : bool := truthy (c_suffix c) || nonempty (c_stop c).

(* the prefix has been consumed (or none is configured); t = the text after it *)
Definition streaming (c : config A) (t : str) (st : state A) : Prop :=
  pre c st /\ truthy (s_prefix st) = false /\ s_finished st = false /\
  s_completion st ++ s_cur st = t /\ (has_pats c = false -> s_cur st = []).

(* a stop sequence was seen: the answer is final whatever follows *)
Definition stopped (c : config A) (t : str) (st : state A) : Prop :=
  s_finished st = true /\ s_cur st = [] /\
  (forall rest, s_completion st = spec' c (t ++ rest)) /\
  concat (delivered (s_queue st)) = s_completion st.

(* the configured prefix has not been seen yet *)
Definition pending (c : config A) (t : str) (st : state A) : Prop :=
  truthy (c_prefix c) = true /\ prefixb eqb (oget (c_prefix c)) t = false /\
  st = mkState (c_prefix c) (c_suffix c) (c_stop c) t [] false [] false.

Definition good (c : config A) (t : str) (st : state A) : Prop :=
  pending c t st \/
  (prefix_seen eqb c t = true /\
   (streaming c (strip_prefix eqb (c_prefix c) t) st \/ stopped c (strip_prefix eqb (c_prefix c) t) st)).

Lemma hold_patterns_pats (c : config A) (st : state A) :
  s_suffix st = c_suffix c -> s_stop st = c_stop c -> hold_patterns st = pats c.
Proof. intros H1 H2. unfold hold_patterns, pats. rewrite H1, H2. reflexivity. Qed.

Lemma pats_nil (c : config A) : has_pats c = false -> pats c = [] /\ c_stop c = [].
Proof.
  unfold has_pats, pats. intros H. apply orb_false_iff in H. destruct H as [H1 H2].
  rewrite H1. destruct (c_stop c); [split; reflexivity | discriminate].
Qed.

(* a chunk flushed in the middle of the stream *)
Lemma flush_mid (c : config A) (st : state A) (x : str) :
  pre c st -> truthy (s_prefix st) = false -> s_finished st = false ->
  x <> [] -> nopartial (pats c) x ->
  let st' := set_cur (process eqb st (Some x) false) [] in
  streaming c (s_completion st ++ x) st' \/ stopped c (s_completion st ++ x) st'.
Proof.
  intros Hpre Hpf Hfin Hx Hnp.
  destruct (first_stop eqb (c_stop c) (s_completion st ++ x)) as [m|] eqn:Hm.
  - right. destruct (process_stop c st x false m Hpre Hm) as [Hf [_ [Hc Hd]]].
    unfold stopped. simpl. repeat split.
    + exact Hf.
    + intros rest. rewrite Hc. unfold spec', cut_stop.
      assert (Hnp2 : nopartial (c_stop c) (s_completion st ++ x)).
      { apply pats_stop. apply nopartial_app; [exact (pre_nopartial _ _ Hpre) | exact Hnp]. }
      rewrite (first_stop_extend _ _ rest _ Hm Hnp2).
      pose proof (first_stop_bound _ _ _ Hm) as Hb.
      rewrite (firstn_app m (s_completion st ++ x) rest).
      replace (m - length (s_completion st ++ x)) with 0 by lia.
      simpl. rewrite app_nil_r. reflexivity.
    + rewrite Hd, Hc. reflexivity.
  - left. destruct Hpre as [H1 H2 H3 H4 H5 H6].
    rewrite <- H2 in Hm. simpl. rewrite (process_nostop st x false Hm). simpl.
    unfold streaming, set_cur. simpl. split; [|split; [|split; [|split]]].
    + constructor; simpl; try assumption.
      * apply noend_snoc; assumption.
      * rewrite concat_delivered_snoc by exact H3. rewrite H4. reflexivity.
      * intros s j Hin Hoc. exfalso. rewrite H2 in Hm. exact (first_stop_None _ _ Hm s j Hin Hoc).
      * apply nopartial_app; assumption.
    + exact Hpf.
    + rewrite Hfin. destruct x; [contradiction | reflexivity].
    + apply app_nil_r.
    + reflexivity.
Qed.

(* push_chunk of a non-empty chunk once the prefix is out of the way *)
Lemma push_np_step (c : config A) (t : str) (st : state A) (x : str) :
  streaming c t st -> x <> [] ->
  streaming c (t ++ x) (push_np eqb st (Some x)) \/ stopped c (t ++ x) (push_np eqb st (Some x)).
Proof.
  intros [Hpre [Hpf [Hfin [Ht Hcur]]]] Hx.
  pose proof (pre_suffix _ _ Hpre) as Hs1. pose proof (pre_stop _ _ Hpre) as Hs2.
  unfold push_np. rewrite (hold_patterns_pats c st Hs1 Hs2), Hs1, Hs2. fold (has_pats c).
  assert (Hend : is_end (Some x) = false) by (destruct x; [contradiction | reflexivity]).
  rewrite Hend. simpl oget. rewrite andb_true_r.
  destruct (has_pats c) eqn:Hhp.
  - destruct (partial_end eqb (s_cur st ++ x) (pats c)) eqn:Hpe.
    + left. unfold streaming. simpl. split; [|split; [|split; [|split]]].
      * apply pre_set_cur. exact Hpre.
      * exact Hpf.
      * exact Hfin.
      * rewrite <- Ht, app_assoc. reflexivity.
      * intros Hh. congruence.
    + assert (Hx2 : s_cur st ++ x <> []) by (destruct (s_cur st); destruct x; simpl; congruence).
      pose proof (flush_mid c (set_cur st (s_cur st ++ x)) (s_cur st ++ x)
                            (pre_set_cur _ _ _ Hpre) Hpf Hfin Hx2 (partial_end_false _ _ Hpe)) as Hfl.
      simpl in Hfl. rewrite <- Ht, <- app_assoc. exact Hfl.
  - rewrite (Hcur eq_refl) in Ht. rewrite app_nil_r in Ht. subst t.
    destruct (pats_nil c Hhp) as [Hp0 _].
    assert (Hnp : nopartial (pats c) x) by (rewrite Hp0; intros p u v w []).
    pose proof (flush_mid c st x Hpre Hpf Hfin Hx Hnp) as Hfl. simpl in Hfl.
    assert (Heq : set_cur (process eqb st (Some x) false) [] = process eqb st (Some x) false).
    { destruct (first_stop eqb (s_stop st) (s_completion st ++ x)) as [m|] eqn:Hm.
      - destruct (process_stop c st x false m Hpre) as [_ [Hc _]]; [rewrite <- Hs2; exact Hm|].
        rewrite (Hcur eq_refl) in Hc.
        destruct (process eqb st (Some x) false); simpl in *. subst. reflexivity.
      - rewrite (process_nostop st x false Hm). unfold set_cur. simpl. rewrite (Hcur eq_refl). reflexivity. }
    rewrite <- Heq. exact Hfl.
Qed.

Lemma stopped_more (c : config A) (t x : str) (st : state A) : stopped c t st -> stopped c (t ++ x) st.
Proof.
  intros [H1 [H2 [H3 H4]]]. repeat split; try assumption.
  intros rest. rewrite <- app_assoc. apply H3.
Qed.

Lemma strip_prefix_seen_app (c : config A) (t x : str) :
  prefix_seen eqb c t = true ->
  prefix_seen eqb c (t ++ x) = true /\
  strip_prefix eqb (c_prefix c) (t ++ x) = strip_prefix eqb (c_prefix c) t ++ x.
Proof.
  unfold prefix_seen, strip_prefix. destruct (truthy (c_prefix c)); simpl; [|split; reflexivity].
  intros Hp. rewrite Hp. apply prefixb_iff in Hp. destruct Hp as [r Hr].
  assert (Hp2 : prefixb eqb (oget (c_prefix c)) (t ++ x) = true).
  { apply prefixb_iff. exists (r ++ x). rewrite Hr, app_assoc. reflexivity. }
  rewrite Hp2. split; [reflexivity|].
  rewrite Hr, <- app_assoc, !skipn_app_exact. reflexivity.
Qed.

Lemma streaming_init (c : config A) (sfx : option str) :
  truthy sfx = false ->
  streaming c [] (mkState sfx (c_suffix c) (c_stop c) [] [] false [] false).
Proof.
  intros Hs. unfold streaming. simpl. split; [|split; [|split; [|split]]]; try assumption; try reflexivity.
  constructor; simpl; try reflexivity.
  - apply nostop_inside_nil.
  - apply nopartial_nil.
Qed.

(* one push_chunk of a non-empty chunk *)
Lemma good_step (c : config A) (t : str) (st : state A) (x : str) :
  good c t st -> x <> [] -> good c (t ++ x) (push eqb st (Some x)).
Proof.
  intros [Hpend | [Hseen [Hstr | Hstop]]] Hx.
  - destruct Hpend as [Htp [Hnp ->]]. unfold push. simpl. rewrite Htp.
    destruct (prefixb eqb (oget (c_prefix c)) (t ++ x)) eqn:Hp.
    + right.
      assert (Hseen : prefix_seen eqb c (t ++ x) = true) by (unfold prefix_seen; rewrite Hp; apply orb_true_r).
      split; [exact Hseen|].
      assert (Hsp : strip_prefix eqb (c_prefix c) (t ++ x) = skipn (length (oget (c_prefix c))) (t ++ x)).
      { unfold strip_prefix. rewrite Htp, Hp. reflexivity. }
      rewrite Hsp.
      pose proof (streaming_init c None eq_refl) as Hinit.
      destruct (skipn (length (oget (c_prefix c))) (t ++ x)) as [|y ys] eqn:Hrest.
      * left. exact Hinit.
      * simpl. apply (push_np_step c [] _ (y :: ys) Hinit). discriminate.
    + left. repeat split; assumption.
  - right. destruct (strip_prefix_seen_app c t x Hseen) as [Hseen2 Hsp]. split; [exact Hseen2|].
    rewrite Hsp. destruct Hstr as [Hpre [Hpf [Hfin Hrest]]].
    unfold push. rewrite Hfin, Hpf.
    apply push_np_step; [|exact Hx]. exact (conj Hpre (conj Hpf (conj Hfin Hrest))).
  - right. destruct (strip_prefix_seen_app c t x Hseen) as [Hseen2 Hsp]. split; [exact Hseen2|].
    rewrite Hsp. right. unfold push. destruct Hstop as [Hf Hrest]. rewrite Hf.
    apply stopped_more. split; assumption.
Qed.

Lemma good_init (c : config A) : good c [] (init c).
Proof.
  unfold good, init. destruct (truthy (c_prefix c)) eqn:Htp.
  - left. repeat split; try assumption.
    destruct (c_prefix c) as [[|x s]|]; simpl in *; try discriminate. reflexivity.
  - right. unfold prefix_seen, strip_prefix. rewrite Htp. simpl. split; [reflexivity|].
    left. apply streaming_init. exact Htp.
Qed.

Lemma good_feed (c : config A) (chunks : list str) (t : str) (st : state A) :
  good c t st -> Forall (fun x => x <> []) chunks -> good c (t ++ concat chunks) (feed eqb st chunks).
Proof.
  revert t st; induction chunks as [|x chunks IH]; intros t st Hg Hne; simpl.
  - rewrite app_nil_r. exact Hg.
  - inversion Hne as [|? ? Hx Hrest]; subst.
    rewrite app_assoc. apply IH; [|exact Hrest]. apply good_step; assumption.
Qed.

(* ------------------------------------------------------------------------------------ *)
(* the end of the stream                                                                 *)

Definition answer (st : state A) (r : str) : Prop :=
  concat (delivered (s_queue st)) = r /\ s_completion st = r.

Lemma answer_clear_patterns (st : state A) (r : str) : answer st r -> answer (clear_patterns st) r.
Proof. intros H. exact H. Qed.

Lemma on_llm_end_answer (st : state A) (r : str) :
  (s_cur st = [] -> answer st r) ->
  (s_cur st <> [] -> answer (process eqb st (Some (s_cur st)) true) r) ->
  answer (on_llm_end eqb st) r.
Proof.
  intros H0 H1. unfold on_llm_end. apply answer_clear_patterns.
  destruct (s_cur st) as [|y ys] eqn:Hc.
  - destruct (process_nil st false) as [Hc1 Hd1]. destruct (H0 eq_refl) as [Hd Hco].
    split; [rewrite Hd1; exact Hd | rewrite Hc1; exact Hco].
  - assert (Hne : y :: ys <> []) by discriminate.
    destruct (H1 Hne) as [Hd Hco].
    destruct (process_nil (set_cur (process eqb st (Some (y :: ys)) true) []) false) as [Hc1 Hd1].
    split; [rewrite Hd1; exact Hd | rewrite Hc1; exact Hco].
Qed.

Lemma streaming_on_llm_end (c : config A) (t : str) (st : state A) :
  streaming c t st -> answer (on_llm_end eqb st) (spec' c t).
Proof.
  intros [Hpre [Hpf [Hfin [Ht Hcur]]]]. apply on_llm_end_answer.
  - intros H0. rewrite H0, app_nil_r in Ht. subst t. rewrite (spec'_flushed c st Hpre).
    split; [exact (pre_deliv _ _ Hpre) | reflexivity].
  - intros _. destruct (process_last c st (s_cur st) Hpre) as [Hc Hd]. rewrite Ht in Hc, Hd.
    split; assumption.
Qed.

Lemma stopped_answer (c : config A) (t : str) (st : state A) : stopped c t st -> answer st (spec' c t).
Proof.
  intros [_ [_ [H3 H4]]]. specialize (H3 []). rewrite app_nil_r in H3.
  split; [rewrite H4; exact H3 | exact H3].
Qed.

Lemma stopped_on_llm_end (c : config A) (t : str) (st : state A) :
  stopped c t st -> answer (on_llm_end eqb st) (spec' c t).
Proof.
  intros Hs. apply on_llm_end_answer.
  - intros _. exact (stopped_answer c t st Hs).
  - intros Hne. destruct Hs as [_ [H2 _]]. contradiction.
Qed.

Lemma pending_pre (c : config A) (t : str) :
  pre c (mkState (c_prefix c) (c_suffix c) (c_stop c) t [] false [] false).
Proof. constructor; simpl; try reflexivity; [apply nostop_inside_nil | apply nopartial_nil]. Qed.

Lemma pending_on_llm_end (c : config A) (t : str) (st : state A) :
  pending c t st -> answer (on_llm_end eqb st) (spec eqb c t).
Proof.
  intros [Htp [Hnp ->]].
  assert (Hsp : spec eqb c t = spec' c t).
  { rewrite spec_spec'. unfold strip_prefix. rewrite Hnp, andb_false_r. reflexivity. }
  rewrite Hsp. apply on_llm_end_answer; simpl.
  - intros ->. pose proof (spec'_flushed c _ (pending_pre c [])) as Hf. simpl in Hf. rewrite Hf.
    split; reflexivity.
  - intros _. destruct (process_last c _ t (pending_pre c t)) as [Hc Hd]. simpl in Hc, Hd.
    split; assumption.
Qed.

(* push_chunk("") / push_chunk(None) once the prefix is out of the way *)
Lemma streaming_push_end (c : config A) (t : str) (st : state A) (chunk : option str) :
  streaming c t st -> is_end chunk = true -> answer (push eqb st chunk) (spec' c t).
Proof.
  intros [Hpre [Hpf [Hfin [Ht Hcur]]]] Hend.
  assert (Hog : oget chunk = []) by (destruct chunk as [[|x s]|]; simpl in *; try discriminate; reflexivity).
  pose proof (pre_suffix _ _ Hpre) as Hs1. pose proof (pre_stop _ _ Hpre) as Hs2.
  unfold push. rewrite Hfin, Hpf. unfold push_np.
  rewrite Hs1, Hs2. fold (has_pats c). rewrite Hend, Hog, app_nil_r, andb_false_r.
  destruct (has_pats c) eqn:Hhp.
  - destruct (process_last c (set_cur st (s_cur st)) (s_cur st) (pre_set_cur _ _ _ Hpre)) as [Hc Hd].
    simpl in Hc, Hd. rewrite Ht in Hc, Hd. split; assumption.
  - rewrite (Hcur eq_refl), app_nil_r in Ht. subst t. rewrite (spec'_flushed c st Hpre).
    destruct chunk as [[|x s]|]; simpl in Hend; try discriminate.
    + destruct (process_nil st false) as [Hc1 Hd1].
      split; [rewrite Hd1; exact (pre_deliv _ _ Hpre) | exact Hc1].
    + unfold process, emit, answer. simpl. rewrite delivered_snoc_none.
      split; [exact (pre_deliv _ _ Hpre) | reflexivity].
Qed.

Lemma stopped_push (c : config A) (t : str) (st : state A) (chunk : option str) :
  stopped c t st -> answer (push eqb st chunk) (spec' c t).
Proof.
  intros Hs. unfold push. destruct Hs as [Hf Hrest]. rewrite Hf.
  apply (stopped_answer c t). split; assumption.
Qed.

Lemma pending_push_end (c : config A) (t : str) (st : state A) (chunk : option str) :
  pending c t st -> is_end chunk = true -> push eqb st chunk = st.
Proof.
  intros [Htp [Hnp ->]] Hend.
  assert (Hog : oget chunk = []) by (destruct chunk as [[|x s]|]; simpl in *; try discriminate; reflexivity).
  unfold push. simpl. rewrite Htp, Hog, app_nil_r, Hnp. reflexivity.
Qed.

Lemma pending_not_seen (c : config A) (t : str) (st : state A) : pending c t st -> prefix_seen eqb c t = false.
Proof. intros [Htp [Hnp _]]. unfold prefix_seen. rewrite Htp, Hnp. reflexivity. Qed.

(* ------------------------------------------------------------------------------------ *)
(* Main theorems                                                                         *)

(* on_llm_end: every chunking delivers the specified text and completion equals it *)
Theorem chunking_independent (c : config A) (chunks : list str) :
  Forall (fun x => x <> []) chunks ->
  let st := run eqb c chunks EndLLM in
  concat (delivered (s_queue st)) = spec eqb c (concat chunks) /\
  s_completion st = spec eqb c (concat chunks).
Proof.
  intros Hne. pose proof (good_feed c chunks [] (init c) (good_init c) Hne) as Hg. simpl in Hg.
  unfold run, finish. rewrite spec_spec'.
  destruct Hg as [Hpend | [Hseen [Hstr | Hstop]]].
  - rewrite <- spec_spec'. exact (pending_on_llm_end c _ _ Hpend).
  - exact (streaming_on_llm_end c _ _ Hstr).
  - exact (stopped_on_llm_end c _ _ Hstop).
Qed.

(* push_chunk("") / push_chunk(None) as end marker: the same, for texts that start with the prefix *)
Theorem chunking_independent_push_end (c : config A) (chunks : list str) (e : end_mode) :
  Forall (fun x => x <> []) chunks -> is_push_end e = true ->
  prefix_seen eqb c (concat chunks) = true ->
  let st := run eqb c chunks e in
  concat (delivered (s_queue st)) = spec eqb c (concat chunks) /\
  s_completion st = spec eqb c (concat chunks).
Proof.
  intros Hne He Hseen. pose proof (good_feed c chunks [] (init c) (good_init c) Hne) as Hg. simpl in Hg.
  unfold run. rewrite spec_spec'.
  assert (Hfin : exists chunk, is_end chunk = true /\ finish eqb e (feed eqb (init c) chunks) = push eqb (feed eqb (init c) chunks) chunk).
  { destruct e; simpl in He; try discriminate; [exists (Some []) | exists None]; split; reflexivity. }
  destruct Hfin as [chunk [Hend ->]].
  destruct Hg as [Hpend | [_ [Hstr | Hstop]]].
  - rewrite (pending_not_seen c _ _ Hpend) in Hseen. discriminate.
  - exact (streaming_push_end c _ _ chunk Hstr Hend).
  - exact (stopped_push c _ _ chunk Hstop).
Qed.

(* ... and while the prefix has not been seen these end markers are ignored: nothing is delivered,
   the stream stays open *)
Theorem prefix_pending_end_ignored (c : config A) (chunks : list str) (e : end_mode) :
  Forall (fun x => x <> []) chunks -> is_push_end e = true ->
  prefix_seen eqb c (concat chunks) = false ->
  let st := run eqb c chunks e in
  delivered (s_queue st) = [] /\ s_completion st = [] /\ s_finished st = false /\ s_cur st = concat chunks.
Proof.
  intros Hne He Hseen. pose proof (good_feed c chunks [] (init c) (good_init c) Hne) as Hg. simpl in Hg.
  unfold run.
  assert (Hfin : exists chunk, is_end chunk = true /\ finish eqb e (feed eqb (init c) chunks) = push eqb (feed eqb (init c) chunks) chunk).
  { destruct e; simpl in He; try discriminate; [exists (Some []) | exists None]; split; reflexivity. }
  destruct Hfin as [chunk [Hend ->]].
  destruct Hg as [Hpend | [Hs _]]; [|congruence].
  rewrite (pending_push_end c _ _ chunk Hpend Hend). destruct Hpend as [_ [_ ->]]. simpl.
  repeat split; reflexivity.
Qed.

(* the LangChain entry path: tokens through on_llm_new_token (with or without on_chat_model_start,
   with or without the empty first token some providers send), then on_llm_end, is the same run *)
Lemma feed_tokens_not_first (st : state A) (tokens : list str) :
  feed_tokens eqb (st, false) tokens = (feed eqb st tokens, false).
Proof.
  revert st; induction tokens as [|x tokens IH]; intros st; simpl; [reflexivity|]. apply IH.
Qed.

Lemma feed_tokens_first (st : state A) (lead chunks : list str) :
  (lead = [] \/ lead = [[]]) -> Forall (fun x => x <> []) chunks ->
  fst (feed_tokens eqb (st, true) (lead ++ chunks)) = feed eqb st chunks.
Proof.
  intros [-> | ->] Hne; simpl.
  - destruct chunks as [|x chunks]; simpl; [reflexivity|].
    inversion Hne as [|? ? Hx _]; subst. destruct x as [|a x]; [contradiction|].
    fold (feed_tokens eqb (push eqb st (Some (a :: x)), false) chunks).
    rewrite feed_tokens_not_first. reflexivity.
  - fold (feed_tokens eqb (st, false) chunks). rewrite feed_tokens_not_first. reflexivity.
Qed.

Theorem callback_path_same_run (c : config A) (chat : bool) (lead chunks : list str) :
  (lead = [] \/ lead = [[]]) -> Forall (fun x => x <> []) chunks ->
  run_tokens eqb c chat (lead ++ chunks) = run eqb c chunks EndLLM.
Proof.
  intros Hl Hne. unfold run_tokens, run, finish.
  assert (Hst : (if chat then on_chat_model_start (init c) else init c) = init c) by (destruct chat; reflexivity).
  rewrite Hst, (feed_tokens_first (init c) lead chunks Hl Hne). reflexivity.
Qed.

Theorem chunking_independent_callback (c : config A) (chat : bool) (lead chunks : list str) :
  (lead = [] \/ lead = [[]]) -> Forall (fun x => x <> []) chunks ->
  let st := run_tokens eqb c chat (lead ++ chunks) in
  concat (delivered (s_queue st)) = spec eqb c (concat chunks) /\
  s_completion st = spec eqb c (concat chunks).
Proof.
  intros Hl Hne. rewrite (callback_path_same_run c chat lead chunks Hl Hne).
  exact (chunking_independent c chunks Hne).
Qed.

(* the statement in the words of the property: two chunkings of the same text are
   indistinguishable at the output *)
Theorem same_for_all_chunkings (c : config A) (chunks1 chunks2 : list str) (e : end_mode) :
  Forall (fun x => x <> []) chunks1 -> Forall (fun x => x <> []) chunks2 ->
  concat chunks1 = concat chunks2 ->
  concat (delivered (s_queue (run eqb c chunks1 e))) = concat (delivered (s_queue (run eqb c chunks2 e))) /\
  s_completion (run eqb c chunks1 e) = s_completion (run eqb c chunks2 e).
Proof.
  intros H1 H2 Heq.
  destruct (is_push_end e) eqn:He.
  - destruct (prefix_seen eqb c (concat chunks1)) eqn:Hs.
    + destruct (chunking_independent_push_end c chunks1 e H1 He Hs) as [Ha Hb].
      rewrite Heq in Hs. destruct (chunking_independent_push_end c chunks2 e H2 He Hs) as [Ha' Hb'].
      rewrite Ha, Hb, Ha', Hb', Heq. split; reflexivity.
    + destruct (prefix_pending_end_ignored c chunks1 e H1 He Hs) as [Ha [Hb _]].
      rewrite Heq in Hs. destruct (prefix_pending_end_ignored c chunks2 e H2 He Hs) as [Ha' [Hb' _]].
      rewrite Ha, Hb, Ha', Hb'. split; reflexivity.
  - destruct e; simpl in He; try discriminate.
    destruct (chunking_independent c chunks1 H1) as [Ha Hb].
    destruct (chunking_independent c chunks2 H2) as [Ha' Hb'].
    rewrite Ha, Hb, Ha', Hb', Heq. split; reflexivity.
Qed.


(* ------------------------------------------------------------------------------------ *)
(* what has been delivered is never retracted: at every moment of the stream the text    *)
(* delivered so far is a beginning of the final answer, however the text continues       *)

Lemma pre_answer_extends (c : config A) (st : state A) (y : str) :
  pre c st -> exists rest, spec' c (s_completion st ++ y) = s_completion st ++ rest.
Proof.
  intros Hpre. unfold spec', cut_stop.
  pose proof (pre_nopartial _ _ Hpre) as H6.
  destruct (first_stop eqb (c_stop c) (s_completion st ++ y)) as [m|] eqn:Hm.
  - assert (Hge : length (s_completion st) <= m).
    { destruct (first_stop_Some _ _ _ Hm) as [[s [Hin Hoc]] _].
      exact (stop_after _ _ y (pre_nostop _ _ Hpre) (pats_stop _ _ H6) s m Hin Hoc). }
    rewrite (firstn_app_ge _ _ _ Hge).
    rewrite strip_suffix_app by (intros Ht; exact (pats_suffix _ _ H6 Ht)).
    eexists. reflexivity.
  - rewrite strip_suffix_app by (intros Ht; exact (pats_suffix _ _ H6 Ht)).
    eexists. reflexivity.
Qed.

Lemma good_delivered_prefix (c : config A) (t : str) (st : state A) (more : str) :
  good c t st -> exists rest, spec eqb c (t ++ more) = concat (delivered (s_queue st)) ++ rest.
Proof.
  intros [Hpend | [Hseen [Hstr | Hstop]]].
  - destruct Hpend as [_ [_ ->]]. simpl. eexists. reflexivity.
  - destruct (strip_prefix_seen_app c t more Hseen) as [_ Hsp].
    rewrite spec_spec', Hsp. destruct Hstr as [Hpre [_ [_ [Ht _]]]].
    rewrite <- Ht, <- app_assoc, (pre_deliv _ _ Hpre). apply pre_answer_extends. exact Hpre.
  - destruct (strip_prefix_seen_app c t more Hseen) as [_ Hsp].
    rewrite spec_spec', Hsp. destruct Hstop as [_ [_ [H3 H4]]].
    rewrite <- (H3 more), H4. exists []. symmetry. apply app_nil_r.
Qed.

Theorem delivered_never_retracted (c : config A) (chunks : list str) (more : str) :
  Forall (fun x => x <> []) chunks ->
  exists rest,
    spec eqb c (concat chunks ++ more) = concat (delivered (s_queue (feed eqb (init c) chunks))) ++ rest.
Proof.
  intros Hne. pose proof (good_feed c chunks [] (init c) (good_init c) Hne) as Hg. simpl in Hg.
  exact (good_delivered_prefix c _ _ more Hg).
Qed.

(* ------------------------------------------------------------------------------------ *)
(* the specification says what the words say                                             *)

(* cut_stop keeps the beginning of the text up to the leftmost position at which some stop
   sequence occurs: nothing else is removed, and no stop sequence starts before the cut *)
Theorem cut_stop_char (stops : list str) (t : str) :
  let r := cut_stop eqb stops t in
  (exists rest, t = r ++ rest) /\
  (forall s j, In s stops -> occ s t j -> length r <= j) /\
  (r = t \/ exists s, In s stops /\ occ s t (length r)).
Proof.
  unfold cut_stop. destruct (first_stop eqb stops t) as [m|] eqn:Hm.
  - pose proof (first_stop_bound _ _ _ Hm) as Hb.
    destruct (first_stop_Some _ _ _ Hm) as [[s [Hin Hoc]] Hmin].
    rewrite (firstn_length_le _ Hb). split; [|split].
    + exists (skipn m t). symmetry. apply firstn_skipn.
    + exact Hmin.
    + right. exists s. split; assumption.
  - split; [|split].
    + exists []. symmetry. apply app_nil_r.
    + intros s j Hin Hoc. exfalso. exact (first_stop_None _ _ Hm s j Hin Hoc).
    + left. reflexivity.
Qed.

(* strip_prefix / strip_suffix remove exactly the configured string, only at the very
   beginning / end, and only when it is there *)
Theorem strip_prefix_char (p : option str) (t : str) :
  (truthy p = true /\ t = oget p ++ strip_prefix eqb p t) \/
  (strip_prefix eqb p t = t /\ (truthy p = true -> forall r, t <> oget p ++ r)).
Proof.
  unfold strip_prefix. destruct (truthy p) eqn:Ht; simpl.
  - destruct (prefixb eqb (oget p) t) eqn:Hp.
    + left. split; [reflexivity|]. apply prefixb_iff in Hp. destruct Hp as [r ->].
      rewrite skipn_app_exact. reflexivity.
    + right. split; [reflexivity|]. intros _. exact (prefixb_false _ _ Hp).
  - right. split; [reflexivity | discriminate].
Qed.

Theorem strip_suffix_char (suf : option str) (t : str) :
  (truthy suf = true /\ t = strip_suffix eqb suf t ++ oget suf) \/
  (strip_suffix eqb suf t = t /\ (truthy suf = true -> forall r, t <> r ++ oget suf)).
Proof.
  unfold strip_suffix. destruct (truthy suf) eqn:Ht; simpl.
  - destruct (endswith eqb t (oget suf)) eqn:Hp.
    + left. split; [reflexivity|]. apply endswith_iff in Hp. destruct Hp as [r ->].
      rewrite app_length. replace (length r + length (oget suf) - length (oget suf)) with (length r) by lia.
      rewrite firstn_app_exact. reflexivity.
    + right. split; [reflexivity|]. intros _ r Hr.
      assert (Hq : endswith eqb t (oget suf) = true) by (apply endswith_iff; exists r; exact Hr).
      congruence.
  - right. split; [reflexivity | discriminate].
Qed.

End Proofs.

(* ------------------------------------------------------------------------------------ *)
(* The handler of the pinned snapshot (pre-fix transcription) refutes the statement:     *)
(* witnesses over code points, computed.  P = 80, S = 83, X = 88, a = 97, b = 98, c = 99 *)

From Coq Require Import NArith.

Definition nonempty_chunks (chunks : list (list N)) : Prop := Forall (fun x => x <> []) chunks.

(* F2a: the end of the prefix and the suffix arrive in one chunk - the suffix is streamed *)
Lemma old_prefix_suffix_refuted :
  exists (c : config N) (chunks : list (list N)),
    nonempty_chunks chunks /\
    concat (delivered (s_queue (run_old N.eqb c chunks EndLLM))) <> spec N.eqb c (concat chunks).
Proof.
  exists (mkConfig (Some [80%N]) (Some [83%N]) []), [[80; 83]%N]. split.
  - repeat constructor; discriminate.
  - vm_compute. discriminate.
Qed.

(* F2b: a stop sequence duplicates the completion *)
Lemma old_stop_completion_refuted :
  exists (c : config N) (chunks : list (list N)),
    nonempty_chunks chunks /\
    s_completion (run_old N.eqb c chunks EndLLM) <> spec N.eqb c (concat chunks) /\
    s_completion (run_old N.eqb c chunks EndLLM) = [97; 97]%N /\ spec N.eqb c (concat chunks) = [97%N].
Proof.
  exists (mkConfig None None [[88%N]]), [[97; 88]%N]. split; [|split; [|split]].
  - repeat constructor; discriminate.
  - vm_compute. discriminate.
  - vm_compute. reflexivity.
  - vm_compute. reflexivity.
Qed.

(* the suffix was removed before the text was cut at the stop sequence: a stop sequence that
   ends with the suffix is missed and streamed *)
Lemma old_stop_after_suffix_refuted :
  exists (c : config N) (chunks : list (list N)),
    nonempty_chunks chunks /\
    concat (delivered (s_queue (run_old N.eqb c chunks EndLLM))) <> spec N.eqb c (concat chunks).
Proof.
  exists (mkConfig None (Some [98%N]) [[99; 98]%N]), [[99; 98]%N]. split.
  - repeat constructor; discriminate.
  - vm_compute. discriminate.
Qed.

(* two chunkings of one text that the snapshot handler tells apart (chunking dependence itself) *)
Lemma old_chunking_dependent :
  exists (c : config N) (chunks1 chunks2 : list (list N)),
    nonempty_chunks chunks1 /\ nonempty_chunks chunks2 /\ concat chunks1 = concat chunks2 /\
    concat (delivered (s_queue (run_old N.eqb c chunks1 EndLLM))) <>
    concat (delivered (s_queue (run_old N.eqb c chunks2 EndLLM))).
Proof.
  exists (mkConfig (Some [80%N]) (Some [83%N]) []), [[80; 83]%N], [[80%N]; [83%N]].
  split; [|split; [|split]].
  - repeat constructor; discriminate.
  - repeat constructor; discriminate.
  - reflexivity.
  - vm_compute. discriminate.
Qed.

(* the hypotheses of the main theorems are inhabited by non-trivial runs: prefix P-quote (80 34),
   suffix quote (34), stop sequence quote-newline (34 10); text  P-quote a b quote newline c  in
   chunks that split the prefix, join the prefix end with text, and split the stop sequence; the
   repaired handler answers  a b *)
Example main_theorem_inhabited :
  let c := mkConfig (Some [80; 34]%N) (Some [34%N]) [[34; 10]%N] in
  let chunks := [[80%N]; [34; 97]%N; [98; 34]%N; [10; 99]%N] in
  nonempty_chunks chunks /\ prefix_seen N.eqb c (concat chunks) = true /\
  spec N.eqb c (concat chunks) = [97; 98]%N /\
  concat (delivered (s_queue (run N.eqb c chunks EndLLM))) = [97; 98]%N /\
  s_completion (run N.eqb c chunks EndEmpty) = [97; 98]%N.
Proof.
  split; [repeat constructor; discriminate|]. vm_compute. repeat split; reflexivity.
Qed.

Example prefix_pending_inhabited :
  let c := mkConfig (Some [80; 34]%N) (Some [34%N]) [] in
  let chunks := [[97%N]; [98; 34]%N] in
  nonempty_chunks chunks /\ prefix_seen N.eqb c (concat chunks) = false /\
  concat (delivered (s_queue (run N.eqb c chunks EndLLM))) = [97; 98]%N /\
  delivered (s_queue (run N.eqb c chunks EndEmpty)) = [].
Proof.
  split; [repeat constructor; discriminate|]. vm_compute. repeat split; reflexivity.
Qed.
