"""Translator for C15 (T-tie): reads, with Python's `ast`, from the CURRENT source

  * nemoguardrails/rails/llm/utils.py::get_history_cache_key  -> the separator and the role
    cases (which roles contribute which payload to the key);
  * nemoguardrails/rails/llm/llmrails.py::_get_events_for_messages / generate_async -> the
    order in which prefixes are tried (longest proper prefix first, down to length 1), the
    message list the entry is stored for (messages + [new_message]) and whether a cache hit
    is verified against the looked-up message list (fixes/C15-cache-verify.patch) or taken
    on the key alone (code as shipped);
  * nemoguardrails/llm/params.py::LLMParams -> that __exit__ restores every saved parameter.

Fail-closed: every shape that is not one of the recognised ones raises TranslatorError, the
check then reports the broken obligation `translator:C15Consts`.
Output: coq/theories/Gen/C15Consts.v.
"""
from __future__ import annotations

import ast
import os

from translator.consts import TranslatorError, _parse, _func, _cls, coq_str, coq_bool

UTILS = "nemoguardrails/rails/llm/utils.py"
LLMRAILS = "nemoguardrails/rails/llm/llmrails.py"
PARAMS = "nemoguardrails/llm/params.py"

# payload shapes the model knows (HistKey.v: body of a message = the appended string)
_PAYLOADS = {
    "content": 'msg["content"]',
    "json:content": 'json.dumps(msg["content"])',
    "json:event": 'json.dumps(msg["event"])',
}
# role -> payload kind the model (and the harness printer) assumes
_EXPECTED = {"user": "content", "assistant": "content", "context": "json:content", "event": "json:event"}


def _dump(node):
    return ast.dump(node, annotate_fields=True, include_attributes=False)


def _expr(src):
    return _dump(ast.parse(src, mode="eval").body)


def _strip_doc(body):
    if body and isinstance(body[0], ast.Expr) and isinstance(body[0].value, ast.Constant) and isinstance(body[0].value.value, str):
        return body[1:]
    return body


def _stmt_dump(src):
    return [_dump(s) for s in ast.parse(src).body]


def history_key_consts():
    fn = _func(_parse(UTILS), "get_history_cache_key")
    if [a.arg for a in fn.args.args] != ["messages"]:
        raise TranslatorError("get_history_cache_key: unexpected signature")
    body = _strip_doc(fn.body)
    if len(body) != 5:
        raise TranslatorError(f"get_history_cache_key: expected 5 statements, found {len(body)}")
    if _dump(body[0]) != _stmt_dump('if len(messages) == 0:\n    return ""')[0]:
        raise TranslatorError("get_history_cache_key: empty-list guard has an unexpected shape")
    if _dump(body[1]) != _stmt_dump("key_items = []")[0]:
        raise TranslatorError("get_history_cache_key: key_items initialisation has an unexpected shape")
    loop = body[2]
    if not (isinstance(loop, ast.For) and _dump(loop.target) == _dump(ast.Name("msg", ast.Store()))
            and _dump(loop.iter) == _expr("messages") and not loop.orelse and len(loop.body) == 1
            and isinstance(loop.body[0], ast.If)):
        raise TranslatorError("get_history_cache_key: message loop has an unexpected shape")
    cases = []
    node = loop.body[0]
    while True:
        t = node.test
        if not (isinstance(t, ast.Compare) and len(t.ops) == 1 and isinstance(t.ops[0], ast.Eq)
                and _dump(t.left) == _expr('msg["role"]') and isinstance(t.comparators[0], ast.Constant)
                and isinstance(t.comparators[0].value, str)):
            raise TranslatorError("get_history_cache_key: role test has an unexpected shape")
        role = t.comparators[0].value
        if len(node.body) != 1 or not isinstance(node.body[0], ast.Expr):
            raise TranslatorError(f"get_history_cache_key: case {role!r} does more than one append")
        call = node.body[0].value
        if not (isinstance(call, ast.Call) and _dump(call.func) == _expr("key_items.append") and len(call.args) == 1
                and not call.keywords):
            raise TranslatorError(f"get_history_cache_key: case {role!r} is not key_items.append(<payload>)")
        kind = None
        for k, src in _PAYLOADS.items():
            if _dump(call.args[0]) == _expr(src):
                kind = k
        if kind is None:
            raise TranslatorError(f"get_history_cache_key: case {role!r} appends an unknown payload")
        if any(r == role for r, _ in cases):
            raise TranslatorError(f"get_history_cache_key: duplicate case {role!r}")
        cases.append((role, kind))
        if not node.orelse:
            break
        if len(node.orelse) == 1 and isinstance(node.orelse[0], ast.If):
            node = node.orelse[0]
            continue
        raise TranslatorError("get_history_cache_key: the role chain ends with an else branch (unknown to the model)")
    for role, kind in cases:
        if role not in _EXPECTED:
            raise TranslatorError(f"get_history_cache_key: role {role!r} is not representable in Svc/HistKey.v")
        if _EXPECTED[role] != kind:
            raise TranslatorError(f"get_history_cache_key: role {role!r} appends {kind}, the model assumes {_EXPECTED[role]}")
    j = body[3]
    if not (isinstance(j, ast.Assign) and len(j.targets) == 1 and _dump(j.targets[0]) == _dump(ast.Name("history_cache_key", ast.Store()))
            and isinstance(j.value, ast.Call) and isinstance(j.value.func, ast.Attribute) and j.value.func.attr == "join"
            and isinstance(j.value.func.value, ast.Constant) and isinstance(j.value.func.value.value, str)
            and len(j.value.args) == 1 and _dump(j.value.args[0]) == _expr("key_items") and not j.value.keywords):
        raise TranslatorError("get_history_cache_key: join has an unexpected shape")
    sep = j.value.func.value.value
    if _dump(body[4]) != _stmt_dump("return history_cache_key")[0]:
        raise TranslatorError("get_history_cache_key: return has an unexpected shape")
    return {"sep": sep, "cases": cases}


# the two recognised shapes of the prefix search in _get_events_for_messages
_LOOP_SHIPPED = """
while p > 0:
    cache_key = get_history_cache_key(messages[0:p])
    if cache_key in self.events_history_cache:
        events = self.events_history_cache[cache_key].copy()
        break

    p -= 1
"""
_LOOP_VERIFIED = """
while p > 0:
    cached_events = self._lookup_events_history_cache(messages[0:p])
    if cached_events is not None:
        events = cached_events.copy()
        break

    p -= 1
"""
_STORE_SHIPPED = [
    "cache_key = get_history_cache_key(messages + [new_message])",
    "self.events_history_cache[cache_key] = events",
]
_STORE_VERIFIED = ["self._update_events_history_cache(messages + [new_message], events)"]

_HELPER_LOOKUP = """
def _lookup_events_history_cache(self, messages):
    cache_key = get_history_cache_key(messages)
    signature = get_history_cache_signature(messages)
    for cached_signature, cached_events in self.events_history_cache.get(cache_key, []):
        if cached_signature == signature:
            return cached_events
    return None
"""
_HELPER_UPDATE = """
def _update_events_history_cache(self, messages, events):
    cache_key = get_history_cache_key(messages)
    signature = get_history_cache_signature(messages)
    entries = [entry for entry in self.events_history_cache.get(cache_key, []) if entry[0] != signature]
    entries.append((signature, events))
    self.events_history_cache[cache_key] = entries
"""
_HELPER_SIGNATURE = """
def get_history_cache_signature(messages):
    return [(msg.get("role"), copy.deepcopy(msg.get("content")), copy.deepcopy(msg.get("event"))) for msg in messages]
"""


def _body_dump(fn):
    return [_dump(s) for s in _strip_doc(fn.body)]


def _same_body(fn, src):
    return _body_dump(fn) == _body_dump(ast.parse(src).body[0])


def history_cache_consts():
    tree = _parse(LLMRAILS)
    cls = _cls(tree, "LLMRails")
    methods = {n.name: n for n in cls.body if isinstance(n, (ast.FunctionDef, ast.AsyncFunctionDef))}
    if "_get_events_for_messages" not in methods or "generate_async" not in methods:
        raise TranslatorError("LLMRails._get_events_for_messages / generate_async not found")
    fn = methods["_get_events_for_messages"]
    # p = len(messages) - 1 immediately followed by the while loop, inside the colang 1.0 branch
    found = None
    for node in ast.walk(fn):
        if isinstance(node, ast.If) and _dump(node.test) == _expr('self.config.colang_version == "1.0"'):
            for a, b in zip(node.body, node.body[1:]):
                if isinstance(b, ast.While):
                    if _dump(a) != _stmt_dump("p = len(messages) - 1")[0]:
                        raise TranslatorError("_get_events_for_messages: the search does not start at len(messages) - 1")
                    if found is not None:
                        raise TranslatorError("_get_events_for_messages: more than one search loop")
                    found = (node, b)
    if found is None:
        raise TranslatorError("_get_events_for_messages: prefix search loop not found")
    branch, loop = found
    shipped = _dump(ast.parse(_LOOP_SHIPPED).body[0])
    verified = _dump(ast.parse(_LOOP_VERIFIED).body[0])
    if _dump(loop) == shipped:
        verifies = False
    elif _dump(loop) == verified:
        verifies = True
    else:
        raise TranslatorError("_get_events_for_messages: the prefix search loop has neither the shipped nor the repaired shape")
    # the conversion loop after it starts at p
    after = branch.body[branch.body.index(loop) + 1:]
    if not (len(after) == 1 and isinstance(after[0], ast.For) and _dump(after[0].iter) == _expr("range(p, len(messages))")):
        raise TranslatorError("_get_events_for_messages: conversion loop does not run over range(p, len(messages))")
    # store site in generate_async
    gen = methods["generate_async"]
    stores = []
    for node in ast.walk(gen):
        if isinstance(node, ast.If) and _dump(node.test) == _expr("state is None"):
            stores.append([_dump(s) for s in node.body])
    want_shipped = [_dump(ast.parse(s).body[0]) for s in _STORE_SHIPPED]
    want_verified = [_dump(ast.parse(s).body[0]) for s in _STORE_VERIFIED]
    if verifies:
        if want_verified not in stores:
            raise TranslatorError("generate_async: store site does not have the repaired shape")
        for name, src in (("_lookup_events_history_cache", _HELPER_LOOKUP), ("_update_events_history_cache", _HELPER_UPDATE)):
            if name not in methods or not _same_body(methods[name], src):
                raise TranslatorError(f"LLMRails.{name}: missing or not of the recognised shape")
        sig = _func(_parse(UTILS), "get_history_cache_signature")
        if not _same_body(sig, _HELPER_SIGNATURE):
            raise TranslatorError("get_history_cache_signature: not of the recognised shape")
    else:
        if want_shipped not in stores:
            raise TranslatorError("generate_async: store site does not have the shipped shape")
    # the events stored are the request's events followed by the new ones
    ext = [_dump(n) for n in ast.walk(gen) if isinstance(n, ast.Expr)]
    if _dump(ast.parse("events.extend(new_events)").body[0]) not in ext:
        raise TranslatorError("generate_async: events.extend(new_events) not found")
    return {"verifies": verifies}


_EXIT_SHIPPED = """
def __exit__(self, type, value, traceback):
    for param, value in self.original_params.items():
        if hasattr(self.llm, param):
            setattr(self.llm, param, value)
        elif hasattr(self.llm, "model_kwargs"):
            model_kwargs = getattr(self.llm, "model_kwargs", {})
            if param in model_kwargs:
                model_kwargs[param] = value
                setattr(self.llm, "model_kwargs", model_kwargs)
"""


_ENTER_SHIPPED = """
def __enter__(self):
    self.original_params = {}
    for param, value in self.altered_params.items():
        if hasattr(self.llm, param):
            self.original_params[param] = getattr(self.llm, param)
            setattr(self.llm, param, value)

        elif hasattr(self.llm, "model_kwargs"):
            if param not in self.llm.model_kwargs:
                log.warning(
                    "Parameter %s does not exist for %s. Passing to model_kwargs",
                    param,
                    self.llm.__class__.__name__,
                )

                self.original_params[param] = None
            else:
                self.original_params[param] = self.llm.model_kwargs[param]

            self.llm.model_kwargs[param] = value

        else:
            log.warning(
                "Parameter %s does not exist for %s",
                param,
                self.llm.__class__.__name__,
            )
"""


def params_consts():
    cls = _cls(_parse(PARAMS), "LLMParams")
    methods = {n.name: n for n in cls.body if isinstance(n, ast.FunctionDef)}
    for m in ("__init__", "__enter__", "__exit__"):
        if m not in methods:
            raise TranslatorError(f"LLMParams.{m} not found")
    if not _same_body(methods["__exit__"], _EXIT_SHIPPED):
        raise TranslatorError("LLMParams.__exit__: not of the recognised shape (restore every saved parameter)")
    if not _same_body(methods["__enter__"], _ENTER_SHIPPED):
        raise TranslatorError("LLMParams.__enter__: not of the recognised shape (save then set every altered parameter)")
    restores_all = True
    return {"exit_restores_all": restores_all}


def context_consts():
    """generate_async writes the per-request context variables on entry, unconditionally."""
    cls = _cls(_parse(LLMRAILS), "LLMRails")
    gen = next((n for n in cls.body if isinstance(n, ast.AsyncFunctionDef) and n.name == "generate_async"), None)
    if gen is None:
        raise TranslatorError("LLMRails.generate_async not found")
    body = _strip_doc(gen.body)
    want = _stmt_dump("generation_options_var.set(options)")[0]
    top = [i for i, st in enumerate(body) if _dump(st) == want]
    nested = [n for n in ast.walk(gen) if isinstance(n, ast.Expr) and _dump(n) == want]
    # index of the statement that turns the messages into events (everything that reads the
    # variables runs after it)
    use = [i for i, st in enumerate(body) if any(isinstance(n, ast.Attribute) and n.attr == "_get_events_for_messages" for n in ast.walk(st))]
    if len(use) != 1:
        raise TranslatorError("generate_async: call of _get_events_for_messages not found at top level")
    if len(nested) != 1:
        raise TranslatorError("generate_async: expected exactly one generation_options_var.set(options)")
    if top:
        if top[0] > use[0]:
            raise TranslatorError("generate_async: generation_options_var is set after the events are computed")
        always = True
    else:
        # recognised regression shape: only inside `if options:`
        holders = [n for n in ast.walk(gen) if isinstance(n, ast.If) and any(_dump(x) == want for x in n.body)]
        if len(holders) == 1 and _dump(holders[0].test) == _expr("options"):
            always = False
        else:
            raise TranslatorError("generate_async: generation_options_var.set(options) is in an unrecognised place")
    # raw_llm_request: set in both branches of `if prompt is not None`; llm_stats_var: top level
    ok_raw = False
    for st in body[:use[0]]:
        if isinstance(st, ast.If) and _dump(st.test) == _expr("prompt is not None"):
            a = any(_dump(x) == _stmt_dump("raw_llm_request.set(prompt)")[0] for x in st.body)
            b = any(_dump(x) == _stmt_dump("raw_llm_request.set(messages)")[0] for x in st.orelse)
            ok_raw = a and b
    if not ok_raw:
        raise TranslatorError("generate_async: raw_llm_request is not set in both branches of `if prompt is not None`")
    if not any(_dump(st) == _stmt_dump("llm_stats_var.set(llm_stats)")[0] for st in body[:use[0]]):
        raise TranslatorError("generate_async: llm_stats_var.set(llm_stats) not found before the events are computed")
    return {"options_always_set": always}


def emit():
    x = context_consts()
    k = history_key_consts()
    c = history_cache_consts()
    p = params_consts()
    roles = dict(k["cases"])
    lines = [
        "(* GENERATED on every run by /verif/translator/gen_c15.py from /repo's current working tree.",
        "   Do not edit. *)",
        "From Coq Require Import String List.",
        "Import ListNotations.",
        "Open Scope string_scope.",
        "",
        "(* --- rails/llm/utils.py::get_history_cache_key --- *)",
        f"Definition hist_sep : string := {coq_str(k['sep'])}.",
        "Definition hist_key_cases : list (string * string) := ["
        + "; ".join(f"({coq_str(r)}, {coq_str(kind)})" for r, kind in k["cases"]) + "].",
        f"Definition hist_key_user : bool := {coq_bool('user' in roles)}.",
        f"Definition hist_key_assistant : bool := {coq_bool('assistant' in roles)}.",
        f"Definition hist_key_context : bool := {coq_bool('context' in roles)}.",
        f"Definition hist_key_event : bool := {coq_bool('event' in roles)}.",
        "Definition hist_key_other : bool := false.   (* no else branch: other roles append nothing *)",
        "",
        "(* --- rails/llm/llmrails.py::_get_events_for_messages / generate_async --- *)",
        "(* prefixes messages[0:p] are tried for p = len-1 .. 1; stored for messages + [new_message] *)",
        f"Definition hist_lookup_verifies_messages : bool := {coq_bool(c['verifies'])}.",
        "",
        "(* --- rails/llm/llmrails.py::generate_async, per-request context variables --- *)",
        f"Definition ctx_options_always_set : bool := {coq_bool(x['options_always_set'])}.",
        "",
        "(* --- llm/params.py::LLMParams --- *)",
        f"Definition params_exit_restores_all : bool := {coq_bool(p['exit_restores_all'])}.",
        "",
    ]
    return "\n".join(lines)


GENERATORS = {"C15Consts": emit}

if __name__ == "__main__":
    print(emit())
