"""Run /repo's pinned test suite with the guard OFF and compare with BASELINE.json stable_pass.
Usage: baseline_check.py [repo_dir]"""
import json
import os
import subprocess
import sys
import tempfile
import xml.etree.ElementTree as ET

repo = sys.argv[1] if len(sys.argv) > 1 else "/repo"
base = json.load(open("/root/.vp/BASELINE.json"))
want = set(base["stable_pass"])
fd, xml = tempfile.mkstemp(suffix=".xml")
os.close(fd)
env = {k: v for k, v in os.environ.items() if not k.startswith("NEMO_GUARDRAILS_VERIF")}
env["PYTHONPATH"] = repo
p = subprocess.run(
    ["/venv/bin/python", "-m", "pytest", "-ra", "-q", "-p", "no:cacheprovider", "--timeout=900",
     "--continue-on-collection-errors", f"--junitxml={xml}"],
    cwd=repo, env=env, stdout=subprocess.PIPE, stderr=subprocess.STDOUT, text=True)
passed = set()
for tc in ET.parse(xml).getroot().iter("testcase"):
    if not list(tc):
        passed.add(f"{tc.get('classname')}::{tc.get('name')}")
os.remove(xml)
missing = sorted(want - passed)
print(p.stdout.splitlines()[-1])
print(f"stable_pass: {len(want)}; passed now: {len(want & passed)}; missing: {len(missing)}")
for m in missing[:40]:
    print("  MISSING", m)
sys.exit(1 if missing else 0)
