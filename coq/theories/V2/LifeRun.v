(* V2/LifeRun.v - executable checkers for the snapshot correspondence of harness/c06.py.
   A case is (pre-snapshot, operation, what the implementation did); the checker runs the
   model of V2/Life.v on the pre-snapshot and compares. *)
From Coq Require Import ZArith NArith List Bool.
From NG Require Import Gen.LifeConsts V2.Life.
Import ListNotations.
Open Scope N_scope.

Definition fstatus_eqb (x y : fstatus) : bool :=
  match x, y with
  | FWaiting, FWaiting | FStarting, FStarting | FStarted, FStarted
  | FStopping, FStopping | FStopped, FStopped | FFinished, FFinished => true
  | _, _ => false
  end.

Fixpoint list_eqb {A} (eqb : A -> A -> bool) (l1 l2 : list A) : bool :=
  match l1, l2 with
  | [], [] => true
  | x :: l1', y :: l2' => eqb x y && list_eqb eqb l1' l2'
  | _, _ => false
  end.

Definition option_eqb {A} (eqb : A -> A -> bool) (x y : option A) : bool :=
  match x, y with
  | None, None => true
  | Some a, Some b => eqb a b
  | _, _ => false
  end.

Definition scope_eqb (x y : N * (list uid * list uid)) : bool :=
  N.eqb (fst x) (fst y) && list_eqb N.eqb (fst (snd x)) (fst (snd y))
  && list_eqb N.eqb (snd (snd x)) (snd (snd y)).

Definition inst_eqb (x y : inst) : bool :=
  N.eqb (i_flow x) (i_flow y) && fstatus_eqb (i_status x) (i_status y)
  && option_eqb N.eqb (i_parent x) (i_parent y)
  && list_eqb N.eqb (i_children x) (i_children y)
  && list_eqb N.eqb (i_actions x) (i_actions y)
  && list_eqb scope_eqb (i_scopes x) (i_scopes y)
  && Z.eqb (i_activated x) (i_activated y)
  && Bool.eqb (i_nis x) (i_nis y).

Definition act_eqb (x y : act) : bool :=
  astatus_eqb (a_status x) (a_status y) && Z.eqb (a_count x) (a_count y).

Definition emit_eqb (x y : emit) : bool :=
  match x, y with
  | EStop a, EStop b => N.eqb a b
  | EFailed a, EFailed b => N.eqb a b
  | EFinished a, EFinished b => N.eqb a b
  | ERestart f s v, ERestart f' s' v' => N.eqb f f' && N.eqb s s' && Z.eqb v v'
  | EStarted a, EStarted b => N.eqb a b
  | _, _ => false
  end.

Definition st_eqb (x y : st) : bool :=
  list_eqb (fun a b => N.eqb (fst a) (fst b) && inst_eqb (snd a) (snd b)) (flows x) (flows y)
  && list_eqb (fun a b => N.eqb (fst a) (fst b) && act_eqb (snd a) (snd b)) (acts x) (acts y)
  && list_eqb emit_eqb (out x) (out y).

Inductive op :=
| OAbort (f : uid) (d : bool)
| OAbortNR (f : uid) (d : bool)      (* _abort_flow(..., restart_flow=False) *)
| OFinish (f : uid) (d : bool)
| OEndScope (f : uid) (name : N)
| OEvent (k : akind) (a : uid)
| OStartLink (x src : uid) (a : Z)         (* _start_flow *)
| OCleanup (aged : list uid).              (* _clean_up_state; instances older than 5 s *)

(* exceptions of the implementation: KeyError, ValueError (list.remove), ColangRuntimeError (scope) *)
Inductive exn := XKey | XValue | XScope.

Definition exn_of (e : err) : option exn :=
  match e with
  | EKeyFlow | EKeyAction => Some XKey
  | ENotInList => Some XValue
  | ENoScope => Some XScope
  | EFuel => None
  end.

Definition exn_eqb (x y : exn) : bool :=
  match x, y with XKey, XKey | XValue, XValue | XScope, XScope => true | _, _ => false end.

Definition run_op (s : st) (o : op) : res st :=
  let fuel := S (length (flows s)) in
  match o with
  | OAbort f d => abort fuel s f d
  | OAbortNR f d => abort_top false fuel s f d
  | OFinish f d => finish fuel s f d
  | OEndScope f n => end_scope scope_release_shared fuel s f n
  | OEvent k a => Ok (action_event k a s)
  | OStartLink x src a => start_link s x src a
  | OCleanup aged => cleanup cleanup_keeps_needed_parents (fun u => memb u aged) s
  end.

(* the pre-snapshot has out = []; the implementation side lists what was emitted during the call *)
Definition check_case (c : st * op * (st + exn)) : bool :=
  let '(s, o, expected) := c in
  match run_op s o, expected with
  | Ok s', inl e => st_eqb s' e
  | Err er, inr x => match exn_of er with Some x' => exn_eqb x x' | None => false end
  | _, _ => false
  end.

(* START_FLOW branch: (pre, event, uids whose parameters match, expected post, expected
   effective sender of a created instance) *)
Definition check_start (c : st * sfev * list uid * (st * option uid + exn)) : bool :=
  let '(s, e, matching, expected) := c in
  match start_proc (fun u => existsb (N.eqb u) matching) s e, expected with
  | Ok (s', o), inl (es, eo) => st_eqb s' es && option_eqb N.eqb o eo
  | Err er, inr x => match exn_of er with Some x' => exn_eqb x x' | None => false end
  | _, _ => false
  end.

(* end-of-slide guard: (status, activated, finished, waiting) -> (status', started pushed, finished') *)
Definition check_guard (c : (fstatus * Z * bool * bool) * (fstatus * bool * bool)) : bool :=
  let '((stt, actv, fin, wait), (stt', pushed', fin')) := c in
  let '(m_st, m_pushed, m_fin) := end_of_slide stt actv fin wait in
  fstatus_eqb m_st stt' && Bool.eqb m_pushed pushed' && Bool.eqb m_fin fin'.

Example check_ex :
  check_case (ex_state, OAbort 3 false,
              inl (mkSt [ (1, ex_i 0 FStarted None [2] [] 1%Z);
                          (2, ex_i 1 FStarted (Some 1) [] [10; 11] 0%Z);
                          (3, ex_i 2 FStopped (Some 2) [] [11; 12] 0%Z) ]
                        [ (10, mkAct AStarted 1%Z); (11, mkAct AStarting 1%Z); (12, mkAct AFinished 0%Z) ]
                        [ EFailed 3 ])) = true.
Proof. vm_compute. reflexivity. Qed.
