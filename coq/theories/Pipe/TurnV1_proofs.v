(* Pipe.TurnV1_proofs - the gates of the Colang 1.0 pipeline model: for rail lists of any length,
   every verdict function, every LLM, every dialog policy, every text and every prior state. *)
From Coq Require Import List String Bool Arith Lia.
From NG Require Import Pipe.Rails Pipe.Rails_proofs Pipe.TurnV1.
Import ListNotations.
Open Scope list_scope.

Definition is_from_llm (e : tev) : bool := match e with TBot FromLLM _ => true | _ => false end.
Definition is_in_rail (e : tev) : bool := is_rail SIn e.

Lemma forall_map_mk_out_not_in : forall calls, Forall (fun e => is_in_rail e = false) (map (mk SOut) calls).
Proof. intros calls. induction calls as [|[r x] rest IH]; constructor; auto. Qed.

Lemma forall_map_mk_in : forall calls, Forall (fun e => is_in_rail e = true) (map (mk SIn) calls).
Proof. intros calls. induction calls as [|[r x] rest IH]; constructor; auto. Qed.

Lemma forall_map_mk_not_llm : forall s calls, Forall (fun e => is_from_llm e = false) (map (mk s) calls).
Proof. intros s calls. induction calls as [|[r x] rest IH]; constructor; auto. Qed.

Section V1.
  Variable vf : nat -> nat -> rail -> text -> verdict.
  Variable llm : nat -> nat -> prompt -> text.
  Variable post_general : text -> text.
  Variable intent_step : nat -> text -> dstep.
  Variable next_of : text -> string.
  Variable predefined : string -> option text.
  Variable msg_of : text -> text.
  Variable refusal : text.

  Notation process_bot := (process_bot vf refusal).
  Notation gen_reply := (gen_reply vf llm post_general intent_step next_of predefined msg_of refusal).
  Notation after_input := (after_input vf llm post_general intent_step next_of predefined msg_of refusal).
  Notation turn_v1 := (turn_v1 vf llm post_general intent_step next_of predefined msg_of refusal).
  Notation conv_v1 := (conv_v1 vf llm post_general intent_step next_of predefined msg_of refusal).

  (* what follows a blocked bot message *)
  Definition block_tail (cf : cfg) (r : rail) : list tev :=
    if exceptions cf then [TExc SOut r] else [TBot Predefined refusal; TEmit refusal].
  Definition block_reply (cf : cfg) (s : side) (r : rail) : reply :=
    if exceptions cf then RExc s r else RMsg [refusal].

  (* ---- `process bot message` ---- *)

  Lemma process_bot_skip :
    forall cf st c m, skip st = true ->
      exists st', process_bot cf st c m = (st', [TEmit m], c, RMsg [m]) /\ skip st' = false /\ tidx st' = tidx st.
  Proof.
    intros cf st c m Hs. unfold TurnV1.process_bot. simpl. rewrite Hs.
    eexists. split; [reflexivity|]. split; reflexivity.
  Qed.

  Lemma process_bot_checked :
    forall cf st c m st' tr c' rp,
      skip st = false -> process_bot cf st c m = (st', tr, c', rp) ->
      skip st' = false /\ tidx st' = tidx st /\
      exists trO res,
        run_rails (vf (tidx st)) SOut (orails cf) c m = (trO, c', res) /\
        match res with
        | Passed m' => tr = trO ++ [TEmit m'] /\ rp = RMsg [m']
        | Blocked r x => tr = trO ++ block_tail cf r /\ rp = block_reply cf SOut r
        end.
  Proof.
    intros cf st c m st' tr c' rp Hs H. unfold TurnV1.process_bot in H. simpl in H. rewrite Hs in H.
    destruct (orails cf) as [|r0 rs] eqn:Ho.
    - inversion H; subst; clear H. simpl. repeat split; auto.
      exists [], (Passed m). simpl. auto.
    - destruct (run_rails (vf (tidx st)) SOut (r0 :: rs) c m) as [[trO cO] res] eqn:Hr.
      destruct res as [m'|r x].
      + inversion H; subst; clear H. simpl. repeat split; auto.
        exists trO, (Passed m'). auto.
      + unfold block_tail, block_reply. destruct (exceptions cf) eqn:He.
        * inversion H; subst; clear H. simpl. repeat split; auto.
          exists trO, (Blocked r x). auto.
        * inversion H; subst; clear H. simpl. repeat split; auto.
          exists trO, (Blocked r x). auto.
  Qed.

  (* the checking of a bot message depends on the conversation state only through the turn
     index and the (always reset) skip flag *)
  Lemma process_bot_state_independent :
    forall cf st1 st2 c m,
      skip st1 = false -> skip st2 = false -> tidx st1 = tidx st2 ->
      snd (fst (fst (process_bot cf st1 c m))) = snd (fst (fst (process_bot cf st2 c m))) /\
      snd (fst (process_bot cf st1 c m)) = snd (fst (process_bot cf st2 c m)) /\
      snd (process_bot cf st1 c m) = snd (process_bot cf st2 c m).
  Proof.
    intros cf st1 st2 c m H1 H2 Ht. unfold TurnV1.process_bot. simpl. rewrite H1, H2, Ht.
    destruct (orails cf) as [|r0 rs]; [simpl; auto|].
    destruct (run_rails (vf (tidx st2)) SOut (r0 :: rs) c m) as [[trO cO] [m'|r x]]; simpl; auto.
    destruct (exceptions cf); simpl; auto.
  Qed.

  Lemma process_bot_no_in_rail :
    forall cf st c m st' tr c' rp,
      process_bot cf st c m = (st', tr, c', rp) -> Forall (fun e => is_in_rail e = false) tr.
  Proof.
    intros cf st c m st' tr c' rp H. destruct (skip st) eqn:Hs.
    - destruct (process_bot_skip cf st c m Hs) as (st1 & H1 & _). rewrite H1 in H.
      inversion H; subst. repeat constructor.
    - apply process_bot_checked in H; [|exact Hs].
      destruct H as (_ & _ & trO & res & Hr & Hres).
      apply run_rails_shape in Hr. destruct Hr as (calls & -> & _).
      destruct res as [m'|r x]; destruct Hres as (-> & _).
      + apply Forall_app. split; [apply forall_map_mk_out_not_in|repeat constructor].
      + apply Forall_app. split; [apply forall_map_mk_out_not_in|].
        unfold block_tail. destruct (exceptions cf); repeat constructor.
  Qed.

  (* ---- dialog / generation ---- *)

  Definition is_llm_ev (e : tev) : bool := is_llm e.

  Lemma gen_reply_cases :
    forall cf st c um st' tr c' rp,
      gen_reply cf st c um = (st', tr, c', rp) ->
      exists pre, Forall (fun e => is_llm e = true) pre /\
        ((exists m, tr = pre ++ [TBot Predefined m; TEmit m] /\ rp = RMsg [m] /\ c' = c /\
                    skip st' = false /\ tidx st' = tidx st)
         \/
         (exists m tr', tr = pre ++ TBot FromLLM m :: tr' /\ process_bot cf st c m = (st', tr', c', rp))).
  Proof.
    intros cf st c um st' tr c' rp H. unfold TurnV1.gen_reply in H.
    destruct (dialog cf).
    - destruct (intent_step (tidx st) (llm (tidx st) 0 (mkPrompt KIntent (hist st) um))) as [bi| |mv] eqn:Hi.
      + destruct (predefined bi) as [m|] eqn:Hp.
        * destruct (process_bot_skip cf (set_skip st true) c m eq_refl) as (st1 & Hpb & Hsk & Hti).
          rewrite Hpb in H. inversion H; subst; clear H.
          eexists [TLLM 0 _]. split; [repeat constructor|]. left. exists m. simpl. auto.
        * destruct (TurnV1.process_bot vf refusal cf st c _) as [[[st1 tr1] c1] rp1] eqn:Hpb.
          inversion H; subst; clear H.
          eexists [TLLM 0 _; TLLM 1 _]. split; [repeat constructor|]. right.
          eexists _, tr1. split; [reflexivity|exact Hpb].
      + destruct (predefined _) as [m|] eqn:Hp.
        * destruct (process_bot_skip cf (set_skip st true) c m eq_refl) as (st1 & Hpb & Hsk & Hti).
          rewrite Hpb in H. inversion H; subst; clear H.
          eexists [TLLM 0 _; TLLM 1 _]. split; [repeat constructor|]. left. exists m. simpl. auto.
        * destruct (TurnV1.process_bot vf refusal cf st c _) as [[[st1 tr1] c1] rp1] eqn:Hpb.
          inversion H; subst; clear H.
          eexists [TLLM 0 _; TLLM 1 _; TLLM 2 _]. split; [repeat constructor|]. right.
          eexists _, tr1. split; [reflexivity|exact Hpb].
      + destruct (TurnV1.process_bot vf refusal cf st c mv) as [[[st1 tr1] c1] rp1] eqn:Hpb.
        inversion H; subst; clear H.
        eexists [TLLM 0 _]. split; [repeat constructor|]. right.
        eexists mv, tr1. split; [reflexivity|exact Hpb].
    - destruct (TurnV1.process_bot vf refusal cf st c _) as [[[st1 tr1] c1] rp1] eqn:Hpb.
      inversion H; subst; clear H.
      eexists [TLLM 0 _]. split; [repeat constructor|]. right.
      eexists _, tr1. split; [reflexivity|exact Hpb].
  Qed.

  (* ---- the turn: input stage followed by `after_input` ---- *)

  Lemma turn_v1_unfold :
    forall cf st u,
      turn_v1 cf st u =
      let '(trI, c, res) := run_rails (vf (tidx st)) SIn (irails cf) 0 u in
      let '(st', tr, rp) := after_input cf (set_user st u) c res in
      (push_raw st' (HUser (match res with Passed um => um | Blocked _ _ => u end)
                     :: match rp with RMsg parts => map HBot parts | RExc _ _ => [] end),
       trI ++ tr, rp).
  Proof. reflexivity. Qed.

  (* the part of a turn after the input rails *)
  Definition rest_of_turn (cf : cfg) (st : pstate) (u : text) : list tev :=
    let '(trI, c, res) := run_rails (vf (tidx st)) SIn (irails cf) 0 u in
    snd (fst (after_input cf (set_user st u) c res)).

  Lemma turn_trace_split :
    forall cf st u,
      snd (fst (turn_v1 cf st u)) =
      fst (fst (run_rails (vf (tidx st)) SIn (irails cf) 0 u)) ++ rest_of_turn cf st u.
  Proof.
    intros cf st u. rewrite turn_v1_unfold. unfold rest_of_turn.
    destruct (run_rails (vf (tidx st)) SIn (irails cf) 0 u) as [[trI c] res].
    destruct (after_input cf (set_user st u) c res) as [[st' tr] rp]. reflexivity.
  Qed.

  (* nothing after the input stage is an input-rail call; all of the input stage is *)
  Lemma after_input_no_in_rail :
    forall cf st0 c res st' tr rp,
      after_input cf st0 c res = (st', tr, rp) ->
      Forall (fun e => is_in_rail e = false) tr.
  Proof.
    intros cf st0 c res st' tr rp H. unfold TurnV1.after_input in H.
    destruct res as [um|r x].
    - match type of H with context[TurnV1.gen_reply _ _ _ _ _ _ _ _ ?a ?b ?c ?d] =>
        destruct (TurnV1.gen_reply vf llm post_general intent_step next_of predefined msg_of refusal a b c d)
          as [[[st2 tr2] c2] rp2] eqn:Hg end.
      inversion H; subst; clear H. constructor; [reflexivity|].
      apply gen_reply_cases in Hg.
      destruct Hg as (pre & Hpre & [(m & -> & _)|(m & tr' & -> & Hpb)]).
      + apply Forall_app. split.
        * eapply Forall_impl; [|exact Hpre]. intros [] Ha; simpl in *; try discriminate; reflexivity.
        * repeat constructor.
      + apply Forall_app. split.
        * eapply Forall_impl; [|exact Hpre]. intros [] Ha; simpl in *; try discriminate; reflexivity.
        * constructor; [reflexivity|]. eapply process_bot_no_in_rail; eauto.
    - destruct (exceptions cf); inversion H; subst; repeat constructor.
  Qed.

  (* a rejected input: no LLM call, no output rail, the reply is the refusal / the exception *)
  Lemma after_input_blocked :
    forall cf st0 c r x, skip st0 = false ->
      exists st', after_input cf st0 c (Blocked r x) =
                  (st', (if exceptions cf then [TExc SIn r] else [TBot Predefined refusal; TEmit refusal]),
                   block_reply cf SIn r) /\ skip st' = false.
  Proof.
    intros cf st0 c r x Hs. unfold TurnV1.after_input, block_reply.
    destruct (exceptions cf); eexists; (split; [reflexivity|]); simpl; auto.
  Qed.

  (* the released part of a turn is a function of the text that left the input rails *)
  Lemma after_input_passed_spec :
    forall cf st0 c um st' tr rp,
      skip st0 = false -> after_input cf st0 c (Passed um) = (st', tr, rp) ->
      skip st' = false /\
      exists pre, Forall (fun e => is_llm e = true) pre /\
        ((exists m, tr = TUser um :: pre ++ [TBot Predefined m; TEmit m] /\ rp = RMsg [m])
         \/
         (exists m trO res,
            tr = TUser um :: pre ++ TBot FromLLM m :: trO ++
                 match res with Passed m' => [TEmit m'] | Blocked r _ => block_tail cf r end /\
            run_rails (vf (tidx st0)) SOut (orails cf) c m = (trO, c + n_rail_calls trO, res) /\
            rp = match res with Passed m' => RMsg [m'] | Blocked r _ => block_reply cf SOut r end)).
  Proof.
    intros cf st0 c um st' tr rp Hs H. unfold TurnV1.after_input in H.
    match type of H with context[TurnV1.gen_reply _ _ _ _ _ _ _ _ ?a ?b ?c ?d] =>
      destruct (TurnV1.gen_reply vf llm post_general intent_step next_of predefined msg_of refusal a b c d)
        as [[[st2 tr2] c2] rp2] eqn:Hg end.
    inversion H; subst; clear H.
    apply gen_reply_cases in Hg.
    destruct Hg as (pre & Hpre & [(m & -> & -> & _ & Hsk & _)|(m & tr' & -> & Hpb)]).
    - split; [exact Hsk|]. exists pre. split; [exact Hpre|]. left. exists m. auto.
    - apply process_bot_checked in Hpb; [|try destruct (irails cf); simpl; exact Hs].
      destruct Hpb as (Hsk & _ & trO & res & Hr & Hres).
      split; [exact Hsk|]. exists pre. split; [exact Hpre|]. right. exists m, trO, res.
      assert (Hti : tidx (push_hist (set_user match irails cf with [] => st0 | _ :: _ => set_trig_in st0 None end um) (HUser um)) = tidx st0)
        by (destruct (irails cf); reflexivity).
      rewrite Hti in Hr.
      pose proof (run_rails_shape _ _ _ _ _ _ _ _ Hr) as (calls & Htr & _ & Hc & _).
      assert (Hn : n_rail_calls trO = List.length calls) by (rewrite Htr; apply n_rail_calls_map_mk).
      rewrite Hn, <- Hc.
      destruct res as [m'|r x]; destruct Hres as (-> & ->); auto.
  Qed.

  (* ---- the flag invariant ---- *)

  Lemma turn_v1_skip_invariant :
    forall cf st u, skip st = false -> skip (fst (fst (turn_v1 cf st u))) = false.
  Proof.
    intros cf st u Hs. rewrite turn_v1_unfold.
    destruct (run_rails (vf (tidx st)) SIn (irails cf) 0 u) as [[trI c] res].
    destruct (after_input cf (set_user st u) c res) as [[st' tr] rp] eqn:Ha. simpl.
    destruct res as [um|r x].
    - apply after_input_passed_spec in Ha; [|exact Hs]. tauto.
    - destruct (after_input_blocked cf (set_user st u) c r x Hs) as (st1 & Hb & Hsk).
      rewrite Hb in Ha. inversion Ha; subst. exact Hsk.
  Qed.

  Lemma turn_v1_tidx : forall cf st u, tidx (fst (fst (turn_v1 cf st u))) = S (tidx st).
  Proof.
    intros cf st u. rewrite turn_v1_unfold.
    destruct (run_rails (vf (tidx st)) SIn (irails cf) 0 u) as [[trI c] res].
    destruct res as [um|r x].
    - unfold TurnV1.after_input.
      match goal with |- context[TurnV1.gen_reply _ _ _ _ _ _ _ _ ?a ?b ?c ?d] =>
        destruct (TurnV1.gen_reply vf llm post_general intent_step next_of predefined msg_of refusal a b c d)
          as [[[st2 tr2] c2] rp2] eqn:Hg end.
      simpl.
      assert (tidx st2 = tidx st).
      { unfold TurnV1.gen_reply in Hg.
        repeat match type of Hg with
               | context[match ?x with _ => _ end] => destruct x eqn:?
               | context[if ?x then _ else _] => destruct x eqn:?
               end;
        unfold TurnV1.process_bot in *; simpl in *;
        repeat match goal with
               | H : context[match ?x with _ => _ end] |- _ => destruct x eqn:?
               | H : context[if ?x then _ else _] |- _ => destruct x eqn:?
               end; simpl in *;
        repeat match goal with H : (_, _, _, _) = (_, _, _, _) |- _ => inversion H; subst; clear H end;
        simpl; try reflexivity; destruct (irails cf); reflexivity. }
      congruence.
    - unfold TurnV1.after_input. destruct (exceptions cf); reflexivity.
  Qed.

  Lemma conv_v1_skip_invariant :
    forall cf us st, skip st = false ->
      Forall (fun r => skip (fst (fst r)) = false) (conv_v1 cf st us).
  Proof.
    intros cf us. induction us as [|u us IH]; intros st Hs; simpl; constructor.
    - apply turn_v1_skip_invariant. exact Hs.
    - apply IH. apply turn_v1_skip_invariant. exact Hs.
  Qed.

  (* states reachable from the initial state by any conversation *)
  Inductive reachable (cf : cfg) : pstate -> Prop :=
  | reach_init : reachable cf init_state
  | reach_turn : forall st u, reachable cf st -> reachable cf (fst (fst (turn_v1 cf st u))).

  Lemma reachable_skip_false : forall cf st, reachable cf st -> skip st = false.
  Proof. intros cf st H. induction H; [reflexivity|apply turn_v1_skip_invariant; assumption]. Qed.
End V1.
