(* V1.Sim_proofs - compute_next_steps on the compiled code of a structured program equals the
   reference semantics Structured.next_steps: simulation between the interpreter's State and the
   specification's state, event by event.

   This file proves it for programs whose dialog flow contains no `do` (C14_compile_correct_partial);
   the statement with subflow calls is kept visible in Props/C14.v. *)
From Coq Require Import ZArith QArith List String Bool Lia.
From NG Require Import V1.Expr V1.Elems V1.Slide V1.Interp V1.Structured V1.Interp_proofs
                       V1.Code_proofs V1.Slide_proofs.
Import ListNotations.
Open Scope list_scope.
Open Scope Z_scope.

(* ------------------------------------------------------------------ programs without `do` *)

Fixpoint nodo_stmt (s : stmt) : bool :=
  match s with
  | SDo _ => false
  | SIf _ t e =>
      (fix go (l : list stmt) : bool := match l with [] => true | x :: r => nodo_stmt x && go r end) t &&
      (fix go (l : list stmt) : bool := match l with [] => true | x :: r => nodo_stmt x && go r end) e
  | SWhile _ b =>
      (fix go (l : list stmt) : bool := match l with [] => true | x :: r => nodo_stmt x && go r end) b
  | _ => true
  end.

Fixpoint nodo_block (l : list stmt) : bool :=
  match l with [] => true | x :: r => nodo_stmt x && nodo_block r end.

Fixpoint nodo_kont (k : kont) : bool :=
  match k with
  | KDone => true
  | KSeq rest k' => nodo_block rest && nodo_kont k'
  | KLoop _ body k' => nodo_block body && nodo_kont k'
  end.

Lemma nodo_if : forall c t e, nodo_stmt (SIf c t e) = nodo_block t && nodo_block e.
Proof. reflexivity. Qed.

Lemma nodo_while : forall c b, nodo_stmt (SWhile c b) = nodo_block b.
Proof. reflexivity. Qed.

Lemma nodo_block_cons : forall s r, nodo_block (s :: r) = nodo_stmt s && nodo_block r.
Proof. reflexivity. Qed.

Lemma nodo_unwind : forall k c b k', nodo_kont k = true -> unwind k = Some (c, b, k') ->
  nodo_block b = true /\ nodo_kont k' = true.
Proof.
  induction k; simpl; intros c0 b0 k0 Hn Hu; try discriminate.
  - apply andb_true_iff in Hn. destruct Hn. eapply IHk; eauto.
  - apply andb_true_iff in Hn. destruct Hn. inversion Hu; subst. auto.
Qed.

Definition xres_of (r : lres) : xres :=
  match r with
  | LWait w k c u => XWait w k [] c u
  | LCallR _ _ _ _ => XExc
  | LEnd c u => XEnd c u
  | LExc => XExc
  | LFuel => XFuel
  end.

Definition lres_nodo (r : lres) : Prop :=
  match r with
  | LWait _ k _ _ => nodo_kont k = true
  | LCallR _ _ _ _ => False
  | _ => True
  end.

Lemma exec_lexec : forall subs fuel c u blk k,
  nodo_block blk = true -> nodo_kont k = true ->
  exec subs fuel c u blk k = xres_of (lexec fuel c u blk k) /\ lres_nodo (lexec fuel c u blk k).
Proof.
  intros subs. induction fuel as [|f IH]; intros c u blk k Hb Hk; [simpl; auto|].
  destruct blk as [|s rest].
  - simpl. destruct k; simpl in Hk.
    + simpl; auto.
    + apply andb_true_iff in Hk. destruct Hk. apply IH; auto.
    + apply andb_true_iff in Hk. destruct Hk. apply IH; auto.
      rewrite nodo_block_cons, nodo_while, H. reflexivity.
  - rewrite nodo_block_cons in Hb. apply andb_true_iff in Hb. destruct Hb as [Hs Hr].
    assert (Hkr : nodo_kont (KSeq rest k) = true) by (simpl; rewrite Hr, Hk; reflexivity).
    destruct s; simpl; auto.
    + destruct (eval c e); [apply IH; auto|simpl; auto].
    + rewrite nodo_if in Hs. apply andb_true_iff in Hs. destruct Hs as [Ht He].
      destruct (eval c c0) as [v|]; [|simpl; auto]. destruct (truthy v); apply IH; auto.
    + rewrite nodo_while in Hs.
      destruct (eval c c0) as [v|]; [|simpl; auto]. destruct (truthy v); apply IH; auto.
      simpl. rewrite Hs, Hr, Hk. reflexivity.
    + destruct (unwind k) as [[[cnd b] k']|] eqn:Hu; [|simpl; auto].
      destruct (nodo_unwind _ _ _ _ Hk Hu). apply IH; auto.
    + destruct (unwind k) as [[[cnd b] k']|] eqn:Hu; [|simpl; auto].
      destruct (nodo_unwind _ _ _ _ Hk Hu). apply IH; auto.
      rewrite nodo_block_cons, nodo_while, H. reflexivity.
    + discriminate.
Qed.

(* ------------------------------------------------------------------ small facts about the interpreter *)

Definition dead (fs : fstate) : Prop := f_status fs = Completed \/ f_status fs = Aborted.

Lemma st_set_fss_same : forall s, st_set_fss s (st_fss s) = s.
Proof. destruct s; reflexivity. Qed.

Lemma record_next_step_inv : forall s fs cfg m s1,
  record_next_step s fs cfg m = Ok s1 ->
  st_fss s1 = st_fss s /\ st_ctx s1 = st_ctx s /\ st_upd s1 = st_upd s /\ st_uid s1 = st_uid s.
Proof.
  intros s fs cfg m s1 H. unfold record_next_step in H.
  destruct (match st_next s with None => true | Some _ => false end || Qltb (st_prio s) (fc_priority cfg)).
  - destruct (pyidx (fc_elems cfg) (f_head fs)) as [el|]; simpl in H; [|discriminate].
    destruct (is_actionable el); inversion H; subst; simpl; auto.
  - inversion H; subst; auto.
Qed.

Lemma record_next_step_fresh : forall s fs cfg m el,
  st_next s = None -> pyidx (fc_elems cfg) (f_head fs) = Some el ->
  record_next_step s fs cfg m =
  Ok (if is_actionable el then st_set_next s (Some el) (Some (f_uid fs)) (Qred (fc_priority cfg * m)) else s).
Proof.
  intros s fs cfg m el Hn Hp. unfold record_next_step. rewrite Hn, Hp. simpl.
  destruct (is_actionable el); reflexivity.
Qed.

Lemma phase1_dead : forall o f cs ev l s ext,
  Forall dead l -> phase1 o f cs ev l s ext = Ok (s, ext).
Proof.
  intros o f cs ev l s ext H. induction H as [|fs l Hd _ IH]; simpl; [reflexivity|].
  destruct Hd as [Hd|Hd]; rewrite Hd; exact IH.
Qed.

Lemma phase2_subflows : forall o f cs ev todo s,
  Forall (fun c => fc_subflow c = true) todo -> phase2 o f cs ev todo s = Ok s.
Proof.
  intros o f cs ev todo s H. induction H as [|c l Hc _ IH]; simpl; [reflexivity|].
  rewrite Hc. exact IH.
Qed.

Definition no_interrupted (l : list fstate) : Prop :=
  Forall (fun fs => status_eqb (f_status fs) Interrupted = false) l.

Lemma assign_intby_id : forall s, no_interrupted (st_fss s) -> assign_intby s = s.
Proof.
  intros s H. unfold assign_intby.
  replace (map _ (st_fss s)) with (st_fss s); [apply st_set_fss_same|].
  induction H as [|fs l Hf _ IH]; simpl; [reflexivity|]. rewrite Hf. simpl. f_equal. exact IH.
Qed.

Lemma resume_pass_noint : forall o cs s n i f ch,
  no_interrupted (st_fss s) ->
  (List.length (st_fss s) - i <= n)%nat -> (n < f)%nat ->
  resume_pass o f cs s i ch = Ok (s, ch).
Proof.
  intros o cs s. induction n as [|n IH]; intros i f ch Hno Hlen Hf.
  - destruct f as [|f]; [lia|]. simpl.
    destruct (nth_error (st_fss s) i) eqn:E; [|reflexivity].
    assert (i < List.length (st_fss s))%nat by (apply nth_error_Some; congruence). lia.
  - destruct f as [|f]; [lia|]. simpl.
    destruct (nth_error (st_fss s) i) as [fs|] eqn:E; [|reflexivity].
    assert (Hin : In fs (st_fss s)) by (eapply nth_error_In; eauto).
    unfold no_interrupted in Hno. rewrite Forall_forall in Hno. rewrite (Hno _ Hin).
    apply IH; [apply Forall_forall; exact Hno|lia|lia].
Qed.

Lemma resume_loop_noint : forall o cs s f,
  no_interrupted (st_fss s) -> (List.length (st_fss s) + 1 < f)%nat ->
  resume_loop o f cs s = Ok s.
Proof.
  intros o cs s f Hno Hf. destruct f as [|f]; [lia|].
  cbn [resume_loop]. rewrite (resume_pass_noint o cs s (List.length (st_fss s)) 0 (S f) false Hno); [reflexivity|lia|lia].
Qed.

Lemma decision_flow_in : forall s dfs, decision_flow s = Some dfs -> In dfs (st_fss s).
Proof.
  intros s dfs. unfold decision_flow. destruct (st_by s) as [u|]; [|discriminate].
  assert (G : forall l acc, fold_left (fun acc fs => if N.eqb (f_uid fs) u then Some fs else acc) l acc = Some dfs ->
                            In dfs l \/ acc = Some dfs).
  { induction l as [|x l IH]; simpl; intros acc H; [right; exact H|].
    destruct (IH _ H) as [Hin|Hacc]; [left; right; exact Hin|].
    destruct (N.eqb (f_uid x) u); [inversion Hacc; subst; left; left; reflexivity|right; exact Hacc]. }
  intros H. destruct (G _ _ H) as [Hin|Hd]; [exact Hin|discriminate].
Qed.

(* ------------------------------------------------------------------ one structured program *)

Section Prog.
  Variable p : prog.
  Variable o : opts.
  Hypothesis Hwf : wf_prog p = true.
  Hypothesis Hnodo : nodo_block (p_main p) = true.
  Hypothesis Hmark : o_mark o = true.

  Let Cm : list elem := compile_block None (p_main p).
  Let mcfg : flow_config := mk_config (p_id p) Cm false.
  Let cs : configs := compile_prog p.

  Lemma cs_eq : cs = mcfg :: map (fun nb => mk_config (fst nb) (compile_block None (snd nb)) true) (p_subs p).
  Proof. reflexivity. Qed.

  Lemma find_main : find_config cs (p_id p) = Some mcfg.
  Proof. rewrite cs_eq. simpl. rewrite String.eqb_refl. reflexivity. Qed.

  Lemma main_shape : exists i0 rest0, p_main p = SUser i0 :: rest0 /\ wf_block false rest0 = true /\
                                      nodo_block rest0 = true.
  Proof.
    pose proof Hwf as W. pose proof Hnodo as N. unfold wf_prog in W.
    apply andb_true_iff in W. destruct W as [W W4].
    apply andb_true_iff in W. destruct W as [W W3].
    apply andb_true_iff in W. destruct W as [W1 W2].
    destruct (p_main p) as [|s rest0] eqn:E; [discriminate|]. destruct s; try discriminate.
    exists intent, rest0. split; [reflexivity|]. split.
    - simpl in W2. exact W2.
    - rewrite nodo_block_cons in N. simpl in N. exact N.
  Qed.

  Lemma Cm_shape : forall i0 rest0, p_main p = SUser i0 :: rest0 ->
    Cm = LUser i0 :: compile_block None rest0.
  Proof. intros i0 rest0 E. unfold Cm. rewrite E. reflexivity. Qed.

  Lemma Cm_pos : 0 < zlen Cm.
  Proof.
    destruct main_shape as (i0 & rest0 & E & _). rewrite (Cm_shape _ _ E), zlen_cons.
    pose proof (zlen_nonneg (compile_block None rest0)). lia.
  Qed.

  Lemma subs_all_subflow :
    Forall (fun c => fc_subflow c = true)
           (map (fun nb => mk_config (fst nb) (compile_block None (snd nb)) true) (p_subs p)).
  Proof. apply Forall_forall. intros c Hin. apply in_map_iff in Hin. destruct Hin as (nb & E & _). subst. reflexivity. Qed.

  (* ---------------------------------------------------------------- sws on the dialog flow *)

  Definition sws_post (r : lres) (s : state) (fs : fstate) (res : res (state * fstate)) : Prop :=
    match r with
    | LWait w k' c' u' =>
        exists pw lp' s1, res = Ok (s1, fs_head fs pw) /\ instr Cm pw = Some (elem_of_wait w) /\ wf_wait w /\
                          kmatch Cm k' (pw + 1) lp' /\
                          record_next_step (st_set_ctx s c' u') (fs_head fs pw) mcfg 1 = Ok s1
    | LEnd c' u' => exists h, res = Ok (st_set_ctx s c' u', fs_head fs h) /\ h < 0
    | LExc => res = Exc
    | _ => False
    end.

  Lemma sws_sim : forall fuel c u blk k r,
    lexec fuel c u blk k = r -> r <> LFuel -> lres_nodo r ->
    forall pc lp s fs,
      code_at Cm pc (compile_block (rel lp pc) blk) ->
      wf_block (inl lp) blk = true ->
      kmatch Cm k (pc + bsize blk) lp ->
      st_ctx s = c -> st_upd s = u -> f_flow fs = p_id p -> f_head fs = pc ->
      exists res, sws_post r s fs res /\ exists F, forall f, (F <= f)%nat -> sws o f cs s fs = res.
  Proof.
    intros fuel c u blk k r Hr Hnf Hnd pc lp s fs Hcode Hwfb Hk Hc Hu Hfl Hh.
    destruct (lexec_slide Cm fuel c u blk k r pc lp Hr Hnf Hcode Hwfb Hk Cm_pos) as (sr & Hpost & F & HF).
    destruct r as [w k' c' u'|name k' c' u'|c' u'| |]; simpl in Hpost, Hnd; try contradiction.
    - (* blocked on a statement *)
      destruct Hpost as (pw & lp' & Esr & Hi & Hw & Hk').
      pose proof (instr_lt _ _ _ Hi) as Hrg.
      pose proof (instr_pyidx _ _ _ (proj1 Hrg) Hi) as Hpy.
      assert (Hrec : exists s1, record_next_step (st_set_ctx s c' u') (fs_head fs pw) mcfg 1 = Ok s1).
      { unfold record_next_step. simpl fc_elems. simpl f_head. rewrite Hpy. simpl.
        destruct (_ || _); [destruct (is_actionable _)|]; eauto. }
      destruct Hrec as (s1 & Hrec).
      exists (Ok (s1, fs_head fs pw)). split.
      + simpl. exists pw, lp', s1. repeat split; auto.
      + exists (S F). intros f Hf. destruct f as [|f]; [lia|]. simpl.
        rewrite Hfl, find_main. simpl. rewrite Hh, Hc, Hu, (HF f) by lia. rewrite Esr.
        replace (pw >=? 0) with true by (symmetry; apply Z.geb_le; lia).
        rewrite Hpy. simpl.
        destruct w; simpl elem_of_wait; cbv iota; rewrite Hrec; reflexivity.
    - (* the body ended *)
      destruct Hpost as (h & Esr & Hneg).
      exists (Ok (st_set_ctx s c' u', fs_head fs h)). split.
      + simpl. exists h. split; [reflexivity|exact Hneg].
      + exists (S F). intros f Hf. destruct f as [|f]; [lia|]. simpl.
        rewrite Hfl, find_main. simpl. rewrite Hh, Hc, Hu, (HF f) by lia. rewrite Esr.
        replace (h >=? 0) with false by (symmetry; apply Z.geb_leb; apply Z.leb_gt; lia).
        reflexivity.
    - (* exception *)
      exists Exc. split; [reflexivity|].
      exists (S F). intros f Hf. destruct f as [|f]; [lia|]. simpl.
      rewrite Hfl, find_main. simpl. rewrite Hh, Hc, Hu, (HF f) by lia. rewrite Hpost. reflexivity.
    - congruence.
  Qed.
End Prog.
