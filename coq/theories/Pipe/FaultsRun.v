(* Pipe/FaultsRun.v - concrete executable instance of Pipe/Faults.v for the correspondence with the
   real LLMRails under fault injection (harness/c03.py prints observed conversations as Coq terms
   and evaluates `check_conv` on them with vm_compute).  The instance uses the flags read from the
   CURRENT source (conv_v1_now / conv_v2_now), so it predicts what the code at hand does. *)
From Coq Require Import String List Bool Arith.
From NG Require Import Gen.C03Consts Pipe.Faults.
Import ListNotations.
Open Scope string_scope.
Open Scope list_scope.

Definition digit (n : nat) : string :=
  match n with 0 => "0" | 1 => "1" | 2 => "2" | 3 => "3" | 4 => "4" | 5 => "5" | 6 => "6" | 7 => "7" | 8 => "8" | _ => "9" end.

Definition user_text_c (t : nat) : string := "USER-TEXT-" ++ digit t.
Definition llm_text_v1 (t : nat) : string := "LLM-GEN-TEXT".
Definition llm_text_v2 (t : nat) : string := "LLM-GEN-TEXT-" ++ digit t.
Definition refusal_c : string := "I'm sorry, I can't respond to that.".

Definition site_beq (a b : site) : bool :=
  match a, b with
  | SIn x, SIn y | SOut x, SOut y => Nat.eqb x y
  | SDialog, SDialog | SRet, SRet => true
  | _, _ => false
  end.

Definition script_of (l : list (nat * site * nat * outcome)) : script :=
  fun t s o =>
    match find (fun e => let '(t', s', o', _) := e in Nat.eqb t t' && site_beq s s' && Nat.eqb o o') l with
    | Some (_, _, _, r) => r
    | None => OAccept
    end.

Inductive eres := EReply (s : string) | ERaises.
Record eobs := mkEO { e_res : eres; e_calls : list (site * option string); e_llm : nat }.

Inductive version := V1 | V2.
(* cc_user / cc_llm: texts of the turns (user message; LLM bot message in v1, generation action in
   v2); turns beyond the list use the default marker texts *)
Record ccase := mkCC { cc_version : version; cc_cfg : vcfg; cc_turns : nat;
                       cc_script : list (nat * site * nat * outcome);
                       cc_user : list string; cc_llm : list string; cc_exp : list eobs }.

Definition text_of (l : list string) (d : nat -> string) (t : nat) : string :=
  match nth_error l t with Some s => s | None => d t end.

Definition ostr_beq (a b : option string) : bool :=
  match a, b with Some x, Some y => String.eqb x y | None, None => true | _, _ => false end.

Fixpoint list_beq {A} (eq : A -> A -> bool) (a b : list A) : bool :=
  match a, b with
  | [], [] => true
  | x :: a', y :: b' => eq x y && list_beq eq a' b'
  | _, _ => false
  end.

Definition obs_matches (check_llm : bool) (e : eobs) (o : obs) : bool :=
  match e_res e, o_res o with
  | EReply s, TReply us => String.eqb s (String.concat (String (Ascii.ascii_of_nat 10) "") us)
  | ERaises, TEscapes => true
  | _, _ => false
  end
  && list_beq (fun a b => site_beq (fst a) (fst b) && ostr_beq (snd a) (snd b)) (e_calls e) (o_calls o)
  && (negb check_llm || Nat.eqb (e_llm e) (o_llm o)).

Definition model_conv (c : ccase) : list obs :=
  match cc_version c with
  | V1 => fst (conv_v1_now (script_of (cc_script c)) (text_of (cc_user c) user_text_c) (text_of (cc_llm c) llm_text_v1)
                           refusal_c (cc_cfg c) 0 (cc_turns c) [])
  | V2 => fst (conv_v2_now (script_of (cc_script c)) (text_of (cc_user c) user_text_c) (text_of (cc_llm c) llm_text_v2)
                           refusal_c (cc_cfg c) 0 (cc_turns c) (mkS2 false false))
  end.

Fixpoint all2 {A B} (f : A -> B -> bool) (a : list A) (b : list B) : bool :=
  match a, b with
  | [], [] => true
  | x :: a', y :: b' => f x y && all2 f a' b'
  | _, _ => false
  end.

Definition check_conv (c : ccase) : bool :=
  all2 (obs_matches (match cc_version c with V1 => true | V2 => false end)) (cc_exp c) (model_conv c).
