(* C15 - proofs about Svc/Params.v: save/set/restore is exact without overlap; with
   overlapping tasks it is not (witness schedules). *)
From Coq Require Import List Bool Arith ZArith Lia.
From NG Require Import Svc.Params.
Import ListNotations.

(* ---------- dict lemmas ---------- *)

Lemma pget_pset_same : forall m p v, pget (pset m p v) p = Some v.
Proof.
  induction m as [|[q w] m IH]; intros p v; simpl.
  - rewrite Nat.eqb_refl. reflexivity.
  - destruct (Nat.eqb q p) eqn:E; simpl; rewrite E; auto.
Qed.

Lemma pget_pset_other : forall m p q v, p <> q -> pget (pset m p v) q = pget m q.
Proof.
  induction m as [|[r w] m IH]; intros p q v Hne; simpl.
  - apply Nat.eqb_neq in Hne. rewrite Hne. reflexivity.
  - destruct (Nat.eqb r p) eqn:E; simpl.
    + apply Nat.eqb_eq in E. subst r. apply Nat.eqb_neq in Hne. rewrite Hne. reflexivity.
    + destruct (Nat.eqb r q); auto.
Qed.

Lemma pset_restore : forall m p v old, pget m p = Some old -> pset (pset m p v) p old = m.
Proof.
  induction m as [|[q w] m IH]; intros p v old H; simpl in *; [discriminate|].
  destruct (Nat.eqb q p) eqn:E; simpl; rewrite E.
  - inversion H. reflexivity.
  - f_equal. apply IH. exact H.
Qed.

Lemma pset_comm : forall m p q v w,
    p <> q -> pget m p <> None -> pget m q <> None ->
    pset (pset m p v) q w = pset (pset m q w) p v.
Proof.
  induction m as [|[r x] m IH]; intros p q v w Hne Hp Hq; simpl in *; [congruence|].
  destruct (Nat.eqb r p) eqn:Ep; destruct (Nat.eqb r q) eqn:Eq; simpl; rewrite ?Ep, ?Eq; try reflexivity.
  - apply Nat.eqb_eq in Ep. apply Nat.eqb_eq in Eq. congruence.
  - f_equal. apply IH; assumption.
Qed.

Lemma pset_absent : forall m p v, ~ In p (keys m) -> pset m p v = m ++ [(p, v)].
Proof.
  induction m as [|[q w] m IH]; intros p v H; simpl in *; [reflexivity|].
  destruct (Nat.eqb q p) eqn:E.
  - apply Nat.eqb_eq in E. exfalso. apply H. left. exact E.
  - f_equal. apply IH. intro Hin. apply H. right. exact Hin.
Qed.

(* ---------- one parameter ---------- *)

Lemma restore1_comm : forall l p q v w,
    p <> q -> restore1 (restore1 l p v) q w = restore1 (restore1 l q w) p v.
Proof.
  intros [at_ kw] p q v w Hne. unfold restore1, set_attr, set_kw. simpl.
  assert (Hqp : q <> p) by congruence.
  destruct (pget at_ p) as [ap|] eqn:Ap; destruct (pget at_ q) as [aq|] eqn:Aq; simpl;
    rewrite ?(pget_pset_other at_ p q v Hne), ?(pget_pset_other at_ q p w Hqp), ?Ap, ?Aq; simpl.
  - f_equal. apply pset_comm; congruence.
  - destruct kw as [kw|]; simpl; [|rewrite Ap; reflexivity].
    destruct (pget kw q); simpl; rewrite Ap; reflexivity.
  - destruct kw as [kw|]; simpl; [|rewrite Aq; reflexivity].
    destruct (pget kw p); simpl; rewrite Aq; reflexivity.
  - destruct kw as [kw|]; simpl; [|rewrite ?Ap, ?Aq; reflexivity].
    destruct (pget kw p) as [kp|] eqn:Kp; destruct (pget kw q) as [kq|] eqn:Kq; simpl;
      rewrite ?Ap, ?Aq; simpl;
      rewrite ?(pget_pset_other kw p q v Hne), ?(pget_pset_other kw q p w Hqp), ?Kp, ?Kq; simpl; try reflexivity.
    f_equal. f_equal. apply pset_comm; congruence.
Qed.

Lemma exit_restore_comm : forall d l p v,
    ~ In p (keys d) -> exit_ d (restore1 l p v) = restore1 (exit_ d l) p v.
Proof.
  induction d as [|[q w] d IH]; intros l p v Hnin; simpl in *; [reflexivity|].
  rewrite restore1_comm by (intro E; apply Hnin; left; congruence).
  apply IH. intro Hin. apply Hnin. right. exact Hin.
Qed.

Lemma enter1_restore : forall l p v l1 old,
    placed l p -> enter1 l p v = (l1, Some old) -> restore1 l1 p old = l.
Proof.
  intros [at_ kw] p v l1 old Hpl H. unfold enter1 in H. simpl in H.
  destruct (pget at_ p) as [a|] eqn:Ap.
  - inversion H; subst. unfold restore1, set_attr. simpl. rewrite pget_pset_same.
    rewrite pset_restore by exact Ap. reflexivity.
  - destruct kw as [kw|]; [|discriminate].
    inversion H; subst. unfold restore1, set_kw. simpl. rewrite Ap. rewrite pget_pset_same.
    destruct Hpl as [Hpl | [[kw' [Hk Hpl]] | [_ Hpl]]]; simpl in *; try congruence.
    inversion Hk; subst kw'. destruct (pget kw p) as [k|] eqn:Kp; [|congruence].
    rewrite pset_restore by exact Kp. reflexivity.
Qed.

Lemma enter1_none : forall l p v l1, enter1 l p v = (l1, None) -> l1 = l.
Proof.
  intros [at_ kw] p v l1 H. unfold enter1 in H. simpl in H.
  destruct (pget at_ p); [discriminate|]. destruct kw; [discriminate|]. inversion H. reflexivity.
Qed.

Lemma enter1_placed : forall l p v q, p <> q -> placed l q -> placed (fst (enter1 l p v)) q.
Proof.
  intros [at_ kw] p v q Hne Hpl. unfold enter1. simpl.
  destruct (pget at_ p) as [a|] eqn:Ap; simpl.
  - destruct Hpl as [H | [[kw' [Hk H]] | [H1 H2]]]; simpl in *.
    + left. simpl. rewrite pget_pset_other by exact Hne. exact H.
    + right. left. exists kw'. auto.
    + right. right. simpl. rewrite pget_pset_other by exact Hne. auto.
  - destruct kw as [kw|]; simpl; [|exact Hpl].
    destruct Hpl as [H | [[kw' [Hk H]] | [H1 H2]]]; simpl in *.
    + left. exact H.
    + right. left. inversion Hk; subst kw'. eexists. split. reflexivity.
      rewrite pget_pset_other by exact Hne. exact H.
    + discriminate.
Qed.

(* ---------- one manager ---------- *)

Lemma enter_saved : forall alt l s0,
    NoDup (keys alt) -> (forall k, In k (keys alt) -> ~ In k (keys s0)) ->
    enter alt l s0 = (fst (enter alt l []), s0 ++ snd (enter alt l [])) /\
    (forall k, In k (keys (snd (enter alt l []))) -> In k (keys alt)).
Proof.
  induction alt as [|[p v] rest IH]; intros l s0 Hnd Hdis.
  - simpl. rewrite app_nil_r. split; [reflexivity | intros k []].
  - simpl in Hnd. inversion Hnd as [|? ? Hp Hnd']; subst.
    simpl. destruct (enter1 l p v) as [l1 [old|]] eqn:E1.
    + assert (Hs0 : pset s0 p old = s0 ++ [(p, old)]).
      { apply pset_absent. apply Hdis. left. reflexivity. }
      rewrite Hs0.
      destruct (IH l1 (s0 ++ [(p, old)]) Hnd') as [E2 K2].
      { intros k Hk Hin. unfold keys in Hin. rewrite map_app in Hin. apply in_app_or in Hin.
        destruct Hin as [Hin | [Hin | []]].
        - apply (Hdis k); [right; exact Hk | exact Hin].
        - simpl in Hin. subst k. contradiction. }
      destruct (IH l1 [(p, old)] Hnd') as [E3 K3].
      { intros k Hk [Hin | []]. simpl in Hin. subst k. contradiction. }
      rewrite E2, E3. simpl. rewrite <- app_assoc. split; [reflexivity|].
      intros k [Hk | Hk]; [left; exact Hk | right; apply K2; exact Hk].
    + destruct (IH l1 s0 Hnd') as [E2 K2].
      { intros k Hk. apply Hdis. right. exact Hk. }
      rewrite E2. split; [reflexivity|]. intros k Hk. right. apply K2. exact Hk.
Qed.

Theorem exit_enter : forall alt l,
    normal l alt -> exit_ (snd (enter alt l [])) (fst (enter alt l [])) = l.
Proof.
  induction alt as [|[p v] rest IH]; intros l [Hnd Hpl]; [reflexivity|].
  simpl in Hnd, Hpl. inversion Hnd as [|? ? Hp Hnd']; subst. inversion Hpl as [|? ? Hplp Hplr]; subst.
  simpl. destruct (enter1 l p v) as [l1 [old|]] eqn:E1.
  - assert (Hn1 : normal l1 rest).
    { split; [exact Hnd'|]. rewrite Forall_forall in *. intros q Hq.
      replace l1 with (fst (enter1 l p v)) by (rewrite E1; reflexivity).
      apply enter1_placed; [intro E; subst q; contradiction | apply Hplr; exact Hq]. }
    destruct (enter_saved rest l1 [(p, old)] Hnd') as [E2 K2].
    { intros k Hk [Hin | []]. simpl in Hin. subst k. contradiction. }
    simpl. rewrite E2. simpl.
    rewrite exit_restore_comm.
    + rewrite IH by exact Hn1. eapply enter1_restore; eassumption.
    + intro Hin. apply Hp. apply K2. exact Hin.
  - apply enter1_none in E1. subst l1. apply IH. split; assumption.
Qed.

(* ---------- serial schedules ---------- *)

Lemma srun_app : forall a b s,
    srun (a ++ b) s =
    let '(s1, l1) := srun a s in let '(s2, l2) := srun b s1 in (s2, l1 ++ l2).
Proof.
  induction a as [|t a IH]; intros b s; simpl.
  - destruct (srun b s). reflexivity.
  - destruct (sstep s t) as [s1 ob]. rewrite IH.
    destruct (srun a s1) as [s2 l1]. destruct (srun b s2) as [s3 l2].
    destruct ob; reflexivity.
Qed.

Section Serial.
  Variable l : llm.

  Definition good (ob : pobs) : Prop := po_seen ob = with_params (po_own ob) l.

  Definition SInv (s : sys) : Prop :=
    p_llm (s_st s) = l /\
    (forall t, p_open (s_st s) t = []) /\
    (forall t, exists calls, s_prog s t = task_ops calls /\ Forall (normal l) calls).

  Lemma supd_same : forall f t v, supd f t v t = v.
  Proof. intros. unfold supd. rewrite Nat.eqb_refl. reflexivity. Qed.
  Lemma pupd_same : forall f t v, pupd f t v t = v.
  Proof. intros. unfold pupd. rewrite Nat.eqb_refl. reflexivity. Qed.

  Lemma srun_cons : forall t rest s,
      srun (t :: rest) s =
      let '(s1, ob) := sstep s t in
      let '(s2, log) := srun rest s1 in
      (s2, match ob with Some x => x :: log | None => log end).
  Proof. reflexivity. Qed.

  Lemma sstep_nil : forall s t, s_prog s t = [] -> sstep s t = (s, None).
  Proof. intros s t H. unfold sstep. rewrite H. reflexivity. Qed.

  Lemma sstep_cons : forall s t o rest st' ob,
      s_prog s t = o :: rest -> pstep (s_st s) t o = Some (st', ob) ->
      sstep s t = (Sys st' (supd (s_prog s) t rest), ob).
  Proof. intros s t o rest st' ob H1 H2. unfold sstep. rewrite H1, H2. reflexivity. Qed.

  Lemma block_ok : forall s t,
      SInv s -> SInv (fst (srun [t; t; t] s)) /\ Forall good (snd (srun [t; t; t] s)).
  Proof.
    intros s t HInv. pose proof HInv as [Hl [Hopen Hprog]].
    destruct (Hprog t) as [calls [Hp Hn]].
    destruct calls as [|alt calls].
    - (* the task has finished: three no-ops *)
      simpl in Hp.
      rewrite srun_cons, (sstep_nil s t Hp). rewrite srun_cons, (sstep_nil s t Hp).
      rewrite srun_cons, (sstep_nil s t Hp). simpl. split; [exact HInv | constructor].
    - inversion Hn as [|? ? Hna Hnc]; subst.
      change (task_ops (alt :: calls)) with (OEnter alt :: OCall :: OExit :: task_ops calls) in Hp.
      destruct (enter alt (p_llm (s_st s)) []) as [l1 sv] eqn:Een.
      (* enter *)
      set (st1 := PState l1 (pupd (p_open (s_st s)) t (Window alt sv :: p_open (s_st s) t))).
      assert (H1 : pstep (s_st s) t (OEnter alt) = Some (st1, None)).
      { unfold pstep. rewrite Een. reflexivity. }
      rewrite srun_cons, (sstep_cons s t _ _ _ _ Hp H1).
      set (s1 := Sys st1 (supd (s_prog s) t (OCall :: OExit :: task_ops calls))).
      (* call *)
      assert (Hp1 : s_prog s1 t = OCall :: OExit :: task_ops calls) by apply supd_same.
      assert (H2 : pstep (s_st s1) t OCall = Some (st1, Some (PObs t alt l1))).
      { unfold pstep. simpl. rewrite pupd_same. reflexivity. }
      rewrite srun_cons, (sstep_cons s1 t _ _ _ _ Hp1 H2).
      set (s2 := Sys st1 (supd (s_prog s1) t (OExit :: task_ops calls))).
      (* exit *)
      assert (Hp2 : s_prog s2 t = OExit :: task_ops calls) by apply supd_same.
      set (st3 := PState (exit_ sv l1) (pupd (p_open st1) t (p_open (s_st s) t))).
      assert (H3 : pstep (s_st s2) t OExit = Some (st3, None)).
      { unfold pstep. simpl. rewrite pupd_same. reflexivity. }
      rewrite srun_cons, (sstep_cons s2 t _ _ _ _ Hp2 H3).
      simpl. split.
      + split; [|split]; simpl.
        * pose proof (exit_enter alt (p_llm (s_st s))) as H. rewrite Hl in H. specialize (H Hna).
          rewrite Hl in Een. rewrite Een in H. exact H.
        * intros t'. unfold pupd. destruct (Nat.eqb t' t) eqn:E; try rewrite E; apply Hopen.
        * intros t'. unfold supd. destruct (Nat.eqb t' t) eqn:E.
          { exists calls. split; [reflexivity | exact Hnc]. }
          { apply Hprog. }
      + constructor; [|constructor]. unfold good, with_params. simpl. rewrite <- Hl, Een. reflexivity.
  Qed.

  Lemma serial_ok_from : forall sched s,
      serial sched -> SInv s -> SInv (fst (srun sched s)) /\ Forall good (snd (srun sched s)).
  Proof.
    intros sched s Hser. revert s. induction Hser as [|t rest Hser IH]; intros s HInv.
    - simpl. split; [exact HInv | constructor].
    - change (t :: t :: t :: rest) with ([t; t; t] ++ rest). rewrite srun_app.
      destruct (block_ok s t HInv) as [HInv1 Hg1].
      destruct (srun [t; t; t] s) as [s1 l1]. simpl in HInv1, Hg1.
      destruct (IH s1 HInv1) as [HInv2 Hg2].
      destruct (srun rest s1) as [s2 l2]. simpl in *.
      split; [exact HInv2|]. apply Forall_app. split; assumption.
  Qed.

  Lemma SInv_init : forall tasks, (forall t, Forall (normal l) (tasks t)) -> SInv (sinit l tasks).
  Proof.
    intros tasks H. split; [reflexivity|]. split; [reflexivity|].
    intros t. exists (tasks t). split; [reflexivity | apply H].
  Qed.

  (* without overlap: afterwards the object is the configured one, nothing is in flight, and
     every call saw the configured object with exactly its own parameters *)
  Theorem serial_ok : forall tasks sched,
      (forall t, Forall (normal l) (tasks t)) -> serial sched ->
      p_llm (s_st (fst (srun sched (sinit l tasks)))) = l /\
      quiescent (fst (srun sched (sinit l tasks))) /\
      Forall good (snd (srun sched (sinit l tasks))).
  Proof.
    intros tasks sched Hn Hser.
    destruct (serial_ok_from sched (sinit l tasks) Hser (SInv_init tasks Hn)) as [[H1 [H2 _]] H3].
    split; [exact H1|]. split; [exact H2 | exact H3].
  Qed.
End Serial.

(* ---------- witnesses ---------- *)

Definition cfg : llm := Llm [(0, PVal 500)] None.                     (* temperature 0.5 *)
Definition two_tasks (t : nat) : list pmap :=
  match t with
  | 0 => [[(0, PVal 200)]]
  | 1 => [[(0, PVal 900)]]
  | _ => []
  end.
(* enter0 enter1 call0 call1 exit0 exit1 *)
Definition overlap_sched : list nat := [0; 1; 0; 1; 0; 1].

Lemma two_tasks_normal : forall t, Forall (normal cfg) (two_tasks t).
Proof.
  intros [|[|t]]; simpl; constructor; try constructor.
  - constructor. intros []. constructor.
  - constructor; [|constructor]. left. simpl. discriminate.
  - constructor. intros []. constructor.
  - constructor; [|constructor]. left. simpl. discriminate.
Qed.

Theorem overlap_refuted :
  exists l tasks sched,
    (forall t, Forall (normal l) (tasks t)) /\
    let s' := fst (srun sched (sinit l tasks)) in
    let log := snd (srun sched (sinit l tasks)) in
    (forall t, t < 2 -> s_prog s' t = [] /\ p_open (s_st s') t = []) /\   (* both tasks finished *)
    p_llm (s_st s') <> l /\
    exists ob, In ob log /\ po_task ob = 0 /\ po_own ob = [(0, PVal 200)] /\
               po_seen ob = with_params [(0, PVal 900)] l /\ po_seen ob <> with_params (po_own ob) l.
Proof.
  exists cfg, two_tasks, overlap_sched. split; [exact two_tasks_normal|].
  split; [|split].
  - intros [|[|t]] Ht; try lia; vm_compute; auto.
  - vm_compute. discriminate.
  - eexists. split. vm_compute. left. reflexivity. vm_compute. repeat split; discriminate.
Qed.

(* a parameter that is neither an attribute nor a model_kwargs entry is left behind as None,
   even without any concurrency (pinned by tests/test_llm_params.py) *)
Theorem absent_kwarg_refuted :
  exists l alt, NoDup (keys alt) /\ exit_ (snd (enter alt l [])) (fst (enter alt l [])) <> l.
Proof.
  exists (Llm [] (Some [])), [(1, PVal 7)]. split.
  - constructor. intros []. constructor.
  - vm_compute. discriminate.
Qed.

(* hypotheses of serial_ok are inhabited by a non-trivial run *)
Example serial_example :
  serial [0; 0; 0; 1; 1; 1] /\
  snd (srun [0; 0; 0; 1; 1; 1] (sinit cfg two_tasks))
  = [PObs 0 [(0, PVal 200)] (Llm [(0, PVal 200)] None); PObs 1 [(0, PVal 900)] (Llm [(0, PVal 900)] None)].
Proof. split. repeat constructor. reflexivity. Qed.
