(* C11 - proofs about V2/Cleanup.v (_clean_up_state). *)
From Coq Require Import ZArith List String Bool Lia.
From NG Require Import V2.Cleanup.
Import ListNotations.
Open Scope string_scope.
Open Scope Z_scope.

(* ---------------------------------------------------------------------------------- *)
(* association lists *)

Lemma slook_in {A} (l : list (string * A)) k x : slook l k = Some x -> In (k, x) l.
Proof.
  induction l as [|[k' y] r IH]; simpl; [discriminate|].
  destruct (String.eqb k' k) eqn:E; intro H.
  - apply String.eqb_eq in E. inversion H. subst. now left.
  - right. auto.
Qed.

Lemma in_slook {A} (l : list (string * A)) k x : NoDup (map fst l) -> In (k, x) l -> slook l k = Some x.
Proof.
  induction l as [|[k' y] r IH]; simpl; intros Hn Hi; [contradiction|].
  inversion Hn as [|? ? Hnot Hn']; subst.
  destruct Hi as [Hi|Hi].
  - inversion Hi; subst. now rewrite String.eqb_refl.
  - destruct (String.eqb k' k) eqn:E.
    + apply String.eqb_eq in E. subst. exfalso. apply Hnot. apply in_map_iff. exists (k, x). auto.
    + auto.
Qed.

Lemma slook_sdelete {A} (l : list (string * A)) k u :
  slook (sdelete k l) u = if String.eqb u k then None else slook l u.
Proof.
  induction l as [|[k' y] r IH]; simpl; [now destruct (String.eqb u k)|].
  destruct (String.eqb k' k) eqn:E1; simpl.
  - rewrite IH. destruct (String.eqb u k) eqn:E2; [reflexivity|].
    destruct (String.eqb k' u) eqn:E3; [|reflexivity].
    apply String.eqb_eq in E1, E3. subst. now rewrite String.eqb_refl in E2.
  - destruct (String.eqb k' u) eqn:E3.
    + apply String.eqb_eq in E3. subst. now rewrite E1.
    + exact IH.
Qed.

Lemma slook_supdate {A} (l : list (string * A)) k x u :
  slook (supdate k x l) u = if String.eqb k u then option_map (fun _ => x) (slook l u) else slook l u.
Proof.
  induction l as [|[k' y] r IH]; simpl; [now destruct (String.eqb k u)|].
  destruct (String.eqb k' k) eqn:E1; simpl.
  - apply String.eqb_eq in E1. subst k'. destruct (String.eqb k u) eqn:E2; reflexivity || exact IH.
  - destruct (String.eqb k' u) eqn:E3.
    + apply String.eqb_eq in E3. subst k'. rewrite String.eqb_sym, E1. reflexivity.
    + exact IH.
Qed.

Lemma in_sdelete {A} (l : list (string * A)) k u x : In (u, x) (sdelete k l) -> In (u, x) l /\ u <> k.
Proof.
  unfold sdelete. intro H. apply filter_In in H as [H1 H2]. split; [exact H1|].
  simpl in H2. apply negb_true_iff in H2. now apply String.eqb_neq in H2.
Qed.

Lemma in_supdate {A} (l : list (string * A)) k x u y :
  In (u, y) (supdate k x l) -> (u = k /\ y = x /\ exists y0, In (u, y0) l) \/ (u <> k /\ In (u, y) l).
Proof.
  unfold supdate. intro H. apply in_map_iff in H as ([k' y'] & H1 & H2). simpl in H1.
  destruct (String.eqb k' k) eqn:E.
  - apply String.eqb_eq in E. inversion H1; subst. left. eauto.
  - apply String.eqb_neq in E. inversion H1; subst. right. auto.
Qed.

Lemma smem_in s l : smem s l = true <-> In s l.
Proof.
  unfold smem. rewrite existsb_exists. split.
  - intros (x & H1 & H2). apply String.eqb_eq in H2. now subst.
  - intro H. exists s. split; [exact H|apply String.eqb_refl].
Qed.

Lemma remove_first_in s l x : In x (remove_first s l) -> In x l.
Proof.
  induction l as [|y r IH]; simpl; [tauto|]. destruct (String.eqb y s); simpl; [auto|]. intros [H|H]; auto.
Qed.

Lemma remove_first_keep s l x : In x l -> x <> s -> In x (remove_first s l).
Proof.
  induction l as [|y r IH]; simpl; [tauto|]. intros [H|H] Hn.
  - subst. destruct (String.eqb x s) eqn:E; [apply String.eqb_eq in E; congruence|now left].
  - destruct (String.eqb y s); [exact H|right; auto].
Qed.

Lemma filter_none {A} (f : A -> bool) (l : list A) : (forall x, In x l -> f x = false) -> filter f l = [].
Proof.
  induction l as [|x r IH]; simpl; intro H; [reflexivity|].
  rewrite (H x (or_introl eq_refl)). apply IH. intros; apply H; now right.
Qed.

Lemma slook_app_l {A} (a b : list (string * A)) k x : slook a k = Some x -> slook (a ++ b) k = Some x.
Proof.
  induction a as [|[k' y] r IH]; simpl; [discriminate|]. destruct (String.eqb k' k); auto.
Qed.

Lemma slook_app_r {A} (a b : list (string * A)) k : slook a k = None -> slook (a ++ b) k = slook b k.
Proof.
  induction a as [|[k' y] r IH]; simpl; auto. destruct (String.eqb k' k); [discriminate|auto].
Qed.

(* ---------------------------------------------------------------------------------- *)
(* everything of an instance except its child list / its head scores *)

Definition same_but_children (a b : inst) : Prop :=
  i_flow a = i_flow b /\ i_status a = i_status b /\ i_updated a = i_updated b /\ i_activated a = i_activated b /\
  i_parent a = i_parent b /\ i_actions a = i_actions b /\ i_heads a = i_heads b /\ i_rest a = i_rest b /\
  i_scopes a = i_scopes b.

Lemma sbc_refl a : same_but_children a a.
Proof. unfold same_but_children. tauto. Qed.

Lemma sbc_set_children a ch : same_but_children a (set_children a ch).
Proof. unfold same_but_children. simpl. tauto. Qed.

Lemma sbc_trans a b c : same_but_children a b -> same_but_children b c -> same_but_children a c.
Proof. unfold same_but_children. intuition congruence. Qed.

(* the fields a removal condition may depend on *)
Definition core_eq (a b : inst) : Prop :=
  i_flow a = i_flow b /\ i_status a = i_status b /\ i_updated a = i_updated b /\ i_activated a = i_activated b /\
  i_parent a = i_parent b.

Definition core_pred (P : string -> inst -> bool) : Prop := forall u a b, core_eq a b -> P u a = P u b.

Lemma sbc_core a b : same_but_children a b -> core_eq a b.
Proof. unfold same_but_children, core_eq. tauto. Qed.

Lemma clear_core a : core_eq (clear_heads a) a.
Proof. unfold core_eq. simpl. tauto. Qed.

Lemma sbc_removable c now a b : same_but_children a b -> removable c now a = removable c now b.
Proof.
  intros (H1 & H2 & H3 & H4 & _). unfold removable, is_done, old_enough. now rewrite H2, H3, H4.
Qed.

Lemma clear_heads_removable c now a : removable c now (clear_heads a) = removable c now a.
Proof. reflexivity. Qed.

Lemma clear_heads_idem a : clear_heads (clear_heads a) = clear_heads a.
Proof.
  unfold clear_heads. simpl. f_equal. rewrite map_map. reflexivity.
Qed.

Lemma slook_map_snd {A B} (f : A -> B) (l : list (string * A)) k :
  slook (map (fun kv => (fst kv, f (snd kv))) l) k = option_map f (slook l k).
Proof.
  induction l as [|[k' y] r IH]; simpl; [reflexivity|]. destruct (String.eqb k' k); [reflexivity|exact IH].
Qed.

Lemma slook_clear (l : list (string * list Z)) k :
  slook (map (fun hs => (fst hs, @nil Z)) l) k = option_map (fun _ => @nil Z) (slook l k).
Proof.
  induction l as [|[k' y] r IH]; simpl; [reflexivity|]. destruct (String.eqb k' k); [reflexivity|exact IH].
Qed.

(* ---------------------------------------------------------------------------------- *)
(* the invariant of the removal loop *)

Section Loop.
  Variable F1 : list (string * inst).        (* flow_states after step 1 *)
  Variable B1 : list (string * list string). (* flow_id_states *)
  Variable A1 : list (string * Z).
  Variable R1 : Z.

  Record LInv (done : list string) (s : state) : Prop := {
    li_in : forall u i, In (u, i) (flows s) ->
            ~ In u done /\ exists i0, In (u, i0) F1 /\ same_but_children i0 i /\
            (forall c, In c (i_children i) -> In c (i_children i0)) /\
            (forall c, In c (i_children i0) -> ~ In c (i_children i) -> In c done);
    li_look : forall u i, slook (flows s) u = Some i ->
            exists i0, slook F1 u = Some i0 /\ same_but_children i0 i /\
            (forall c, In c (i_children i) -> In c (i_children i0)) /\
            (forall c, In c (i_children i0) -> ~ In c (i_children i) -> In c done);
    li_keep : forall u i0, slook F1 u = Some i0 -> ~ In u done -> exists i, slook (flows s) u = Some i;
    li_by : forall f l, slook (by_flow s) f = Some l ->
            exists l0, slook B1 f = Some l0 /\ (forall x, In x l -> In x l0) /\
                       (forall x, In x l0 -> ~ In x l -> In x done);
    li_by_keep : forall f l0, slook B1 f = Some l0 -> exists l, slook (by_flow s) f = Some l;
    li_act : actions s = A1;
    li_rest : s_rest s = R1
  }.

  Lemma linv_init : LInv [] (mkState F1 B1 A1 R1).
  Proof.
    constructor; simpl; auto.
    - intros u i H. split; [tauto|]. exists i. split; [exact H|]. split; [apply sbc_refl|]. split; [auto|tauto].
    - intros u i H. exists i. split; [exact H|]. split; [apply sbc_refl|]. split; [auto|tauto].
    - intros u i0 H _. eauto.
    - intros f l H. exists l. split; [exact H|]. split; [auto|tauto].
    - intros f l0 H. eauto.
  Qed.

  Lemma linv_step done s uid s' :
    LInv done s -> remove_one (Some s) uid = Some s' -> LInv (done ++ [uid]) s'.
  Proof.
    intros [Hin Hlook Hkeep Hby Hbyk Hact Hrest] H. simpl in H.
    destruct (slook (flows s) uid) as [fs|] eqn:Hfs; [|discriminate].
    destruct (slook (by_flow s) (i_flow fs)) as [lst|] eqn:Hl; [|discriminate].
    destruct (smem uid lst) eqn:Hm; [|discriminate].
    inversion H; subst s'; clear H. simpl.
    (* the flows after the parent's update *)
    set (fl1 := match i_parent fs with
                | Some p => if String.eqb p "" then flows s
                            else match slook (flows s) p with
                                 | Some pi => if smem uid (i_children pi)
                                              then supdate p (set_children pi (remove_first uid (i_children pi))) (flows s)
                                              else flows s
                                 | None => flows s
                                 end
                | None => flows s
                end).
    assert (Hfl1 : fl1 = flows s \/
                   exists p pi, slook (flows s) p = Some pi /\
                                fl1 = supdate p (set_children pi (remove_first uid (i_children pi))) (flows s)).
    { unfold fl1. destruct (i_parent fs) as [p|]; [|now left]. destruct (String.eqb p ""); [now left|].
      destruct (slook (flows s) p) as [pi|] eqn:Hp; [|now left]. destruct (smem uid (i_children pi)); [|now left].
      right. eauto. }
    assert (Hdone : forall x, In x done -> In x (done ++ [uid])) by (intros; apply in_or_app; now left).
    assert (Huid : In uid (done ++ [uid])) by (apply in_or_app; right; now left).
    assert (Hnd : forall x, ~ In x done -> x <> uid -> ~ In x (done ++ [uid])).
    { intros x H1 H2 H3. apply in_app_or in H3 as [H3|[H3|[]]]; auto. }
    constructor; simpl; auto.
    - (* li_in *)
      intros u i Hi. apply in_sdelete in Hi as [Hi Hne].
      destruct Hfl1 as [->|(p & pi & Hp & ->)].
      + destruct (Hin u i Hi) as (Hnd0 & i0 & H1 & H2 & H3 & H4). split; [auto|].
        exists i0. split; [auto|]. split; [auto|]. split; auto.
      + apply in_supdate in Hi as [(-> & -> & y0 & Hy0)|(Hnp & Hi)].
        * destruct (Hlook p pi Hp) as (i0 & H1 & H2 & H3 & H4).
          destruct (Hin p y0 Hy0) as (Hnd0 & _). split; [auto|].
          exists i0. split; [now apply slook_in|]. split; [eapply sbc_trans; [exact H2|apply sbc_set_children]|].
          simpl. split.
          -- intros c Hc. apply H3. eapply remove_first_in; eauto.
          -- intros c Hc Hnc. destruct (String.eqb c uid) eqn:E; [apply String.eqb_eq in E; now subst|].
             apply String.eqb_neq in E. apply Hdone. apply H4; [exact Hc|]. intro Hc2. apply Hnc.
             now apply remove_first_keep.
        * destruct (Hin u i Hi) as (Hnd0 & i0 & H1 & H2 & H3 & H4). split; [auto|].
          exists i0. split; [auto|]. split; [auto|]. split; auto.
    - (* li_look *)
      intros u i Hi. rewrite slook_sdelete in Hi. destruct (String.eqb u uid) eqn:E; [discriminate|].
      destruct Hfl1 as [->|(p & pi & Hp & ->)].
      + destruct (Hlook u i Hi) as (i0 & H1 & H2 & H3 & H4). exists i0. split; [auto|]. split; [auto|]. split; auto.
      + rewrite slook_supdate in Hi. destruct (String.eqb p u) eqn:E2.
        * apply String.eqb_eq in E2. subst u. rewrite Hp in Hi. simpl in Hi. inversion Hi; subst i.
          destruct (Hlook p pi Hp) as (i0 & H1 & H2 & H3 & H4).
          exists i0. split; [auto|]. split; [eapply sbc_trans; [exact H2|apply sbc_set_children]|].
          simpl. split.
          -- intros c Hc. apply H3. eapply remove_first_in; eauto.
          -- intros c Hc Hnc. destruct (String.eqb c uid) eqn:E3; [apply String.eqb_eq in E3; now subst|].
             apply String.eqb_neq in E3. apply Hdone. apply H4; [exact Hc|]. intro Hc2. apply Hnc.
             now apply remove_first_keep.
        * destruct (Hlook u i Hi) as (i0 & H1 & H2 & H3 & H4). exists i0. split; [auto|]. split; [auto|]. split; auto.
    - (* li_keep *)
      intros u i0 H0 Hnd0.
      assert (Hnd1 : ~ In u done) by (intro; apply Hnd0; auto).
      assert (Hne : u <> uid) by (intro; subst; apply Hnd0; auto).
      destruct (Hkeep u i0 H0 Hnd1) as (i & Hi).
      rewrite slook_sdelete. apply String.eqb_neq in Hne. rewrite Hne.
      destruct Hfl1 as [->|(p & pi & Hp & ->)]; [eauto|].
      rewrite slook_supdate. destruct (String.eqb p u); [rewrite Hi; simpl; eauto|eauto].
    - (* li_by *)
      intros f l Hf. rewrite slook_supdate in Hf. destruct (String.eqb (i_flow fs) f) eqn:E.
      + apply String.eqb_eq in E. subst f. rewrite Hl in Hf. simpl in Hf. inversion Hf; subst l.
        destruct (Hby _ _ Hl) as (l0 & H1 & H2 & H3). exists l0. split; [auto|]. split.
        * intros x Hx. apply H2. eapply remove_first_in; eauto.
        * intros x Hx Hnx. destruct (String.eqb x uid) eqn:E3; [apply String.eqb_eq in E3; now subst|].
          apply String.eqb_neq in E3. apply Hdone. apply H3; [exact Hx|]. intro Hx2. apply Hnx.
          now apply remove_first_keep.
      + destruct (Hby _ _ Hf) as (l0 & H1 & H2 & H3). exists l0. split; [auto|]. split; auto.
    - (* li_by_keep *)
      intros f l0 Hf. destruct (Hbyk f l0 Hf) as (l & Hl'). rewrite slook_supdate.
      destruct (String.eqb (i_flow fs) f); [rewrite Hl'; simpl; eauto|eauto].
  Qed.

  Lemma linv_fold rem : forall done s s',
    LInv done s -> fold_left remove_one rem (Some s) = Some s' -> LInv (done ++ rem) s'.
  Proof.
    induction rem as [|u r IH]; intros done s s' HI H; cbn [fold_left] in H.
    - inversion H; subst. now rewrite app_nil_r.
    - destruct (remove_one (Some s) u) as [s1|] eqn:E.
      + replace (done ++ u :: r)%list with ((done ++ [u]) ++ r)%list by (rewrite <- app_assoc; reflexivity).
        eapply IH; [eapply linv_step; eauto|exact H].
      + exfalso. clear -H. induction r as [|x r IHr]; cbn [fold_left] in H; [discriminate|auto].
  Qed.

  (* the per-flow lists: a removed instance is no longer listed under its flow *)
  Definition BInv (done : list string) (s : state) : Prop :=
    forall f l, slook (by_flow s) f = Some l ->
      NoDup l /\ (forall x i0, In x done -> slook F1 x = Some i0 -> i_flow i0 = f -> ~ In x l).

  Lemma remove_first_nodup s l : NoDup l -> NoDup (remove_first s l) /\ ~ In s (remove_first s l).
  Proof.
    induction l as [|x r IH]; simpl; intro H; [split; [constructor|tauto]|].
    inversion H as [|? ? Hx Hr]; subst. destruct (String.eqb x s) eqn:E.
    - apply String.eqb_eq in E. subst. auto.
    - apply String.eqb_neq in E. destruct (IH Hr) as [I1 I2]. split.
      + constructor; [|exact I1]. intro Hin. apply Hx. eapply remove_first_in; eauto.
      + intros [->|Hin]; [congruence|tauto].
  Qed.

  Lemma binv_init : (forall f l, slook B1 f = Some l -> NoDup l) -> BInv [] (mkState F1 B1 A1 R1).
  Proof. intros H f l Hl. simpl in Hl. split; [eauto|]. intros x i0 []. Qed.

  Lemma binv_step done s uid s' :
    LInv done s -> BInv done s -> remove_one (Some s) uid = Some s' -> BInv (done ++ [uid]) s'.
  Proof.
    intros HI HB H. simpl in H.
    destruct (slook (flows s) uid) as [fs|] eqn:Hfs; [|discriminate].
    destruct (slook (by_flow s) (i_flow fs)) as [lst|] eqn:Hl; [|discriminate].
    destruct (smem uid lst) eqn:Hm; [|discriminate].
    inversion H; subst s'; clear H. intros f l Hf. simpl in Hf.
    rewrite slook_supdate in Hf. destruct (String.eqb (i_flow fs) f) eqn:E.
    - apply String.eqb_eq in E. subst f. rewrite Hl in Hf. simpl in Hf. inversion Hf; subst l.
      destruct (HB _ _ Hl) as [Hnd Hg]. destruct (remove_first_nodup uid lst Hnd) as [N1 N2].
      split; [exact N1|]. intros x i0 Hx Hx0 Hfl Hin. apply in_app_or in Hx as [Hx|[<-|[]]].
      + apply (Hg x i0 Hx Hx0 Hfl). eapply remove_first_in; eauto.
      + exact (N2 Hin).
    - destruct (HB _ _ Hf) as [Hnd Hg]. split; [exact Hnd|].
      intros x i0 Hx Hx0 Hfl Hin. apply in_app_or in Hx as [Hx|[<-|[]]].
      + exact (Hg x i0 Hx Hx0 Hfl Hin).
      + destruct (li_look _ _ HI _ _ Hfs) as (i1 & H1 & (Hflow & _) & _).
        rewrite Hx0 in H1. inversion H1; subst i1. apply String.eqb_neq in E. congruence.
  Qed.

  Lemma lb_fold rem : forall done s s',
    LInv done s -> BInv done s -> fold_left remove_one rem (Some s) = Some s' -> BInv (done ++ rem) s'.
  Proof.
    induction rem as [|u r IH]; intros done s s' HI HB H; cbn [fold_left] in H.
    - inversion H; subst. now rewrite app_nil_r.
    - destruct (remove_one (Some s) u) as [s1|] eqn:E.
      + replace (done ++ u :: r)%list with ((done ++ [u]) ++ r)%list by (rewrite <- app_assoc; reflexivity).
        eapply IH; [eapply linv_step; eauto|eapply binv_step; eauto|exact H].
      + exfalso. clear -H. induction r as [|x r IHr]; cbn [fold_left] in H; [discriminate|auto].
  Qed.
End Loop.

(* ---------------------------------------------------------------------------------- *)
(* the rebuilt action table *)

Lemma rebuild_prefix old : forall uids acc B, rebuild_actions old uids acc = Some B -> exists t, B = (acc ++ t)%list.
Proof.
  induction uids as [|a r IH]; intros acc B H; simpl in H.
  - inversion H. exists []. now rewrite app_nil_r.
  - destruct (slook acc a); [eauto|]. destruct (slook old a) as [x|]; [|discriminate].
    destruct (IH _ _ H) as (t & ->). exists ((a, x) :: t). now rewrite <- app_assoc.
Qed.

Lemma rebuild_sound old : forall uids acc B, rebuild_actions old uids acc = Some B ->
  (forall a x, slook acc a = Some x -> slook old a = Some x) ->
  (forall a x, slook B a = Some x -> slook old a = Some x) /\
  (forall a, In a uids -> slook B a <> None) /\
  (forall a x, slook B a = Some x -> slook acc a = Some x \/ In a uids).
Proof.
  induction uids as [|a r IH]; intros acc B H Hacc; simpl in H.
  - inversion H; subst. split; [auto|split; [intros a []|auto]].
  - destruct (slook acc a) as [y|] eqn:Ea.
    + destruct (IH _ _ H Hacc) as (H1 & H2 & H3). repeat split; auto.
      * intros b [->|Hb]; [|auto]. destruct (rebuild_prefix _ _ _ _ H) as (t & ->).
        rewrite (slook_app_l _ _ _ _ Ea). discriminate.
      * intros b x Hb. destruct (H3 b x Hb); [now left|right; now right].
    + destruct (slook old a) as [x|] eqn:Eo; [|discriminate].
      assert (Hacc' : forall b z, slook (acc ++ [(a, x)])%list b = Some z -> slook old b = Some z).
      { intros b z Hb. destruct (slook acc b) as [w|] eqn:Eb.
        - rewrite (slook_app_l _ _ _ _ Eb) in Hb. inversion Hb; subst. auto.
        - rewrite slook_app_r in Hb by exact Eb. simpl in Hb. destruct (String.eqb a b) eqn:E; [|discriminate].
          apply String.eqb_eq in E. inversion Hb; subst. exact Eo. }
      destruct (IH _ _ H Hacc') as (H1 & H2 & H3). repeat split; auto.
      * intros b [->|Hb]; [|auto]. destruct (rebuild_prefix _ _ _ _ H) as (t & ->).
        assert (slook (acc ++ [(b, x)])%list b = Some x) by (rewrite slook_app_r by exact Ea; simpl; now rewrite String.eqb_refl).
        rewrite (slook_app_l _ _ _ _ H0). discriminate.
      * intros b z Hb. destruct (H3 b z Hb) as [Hb2|Hb2]; [|right; now right].
        destruct (slook acc b) as [w|] eqn:Eb.
        -- rewrite (slook_app_l _ _ _ _ Eb) in Hb2. left. exact Hb2.
        -- rewrite slook_app_r in Hb2 by exact Eb. simpl in Hb2. destruct (String.eqb a b) eqn:E; [|discriminate].
           apply String.eqb_eq in E. subst. right. now left.
Qed.

Lemma rebuild_idem old : forall uids acc B, rebuild_actions old uids acc = Some B -> rebuild_actions B uids acc = Some B.
Proof.
  induction uids as [|a r IH]; intros acc B H; simpl in *; [exact H|].
  destruct (slook acc a) as [y|] eqn:Ea; [auto|].
  destruct (slook old a) as [x|] eqn:Eo; [|discriminate].
  destruct (rebuild_prefix _ _ _ _ H) as (t & HB).
  assert (slook B a = Some x).
  { rewrite HB. apply slook_app_l. rewrite slook_app_r by exact Ea. simpl. now rewrite String.eqb_refl. }
  rewrite H0. auto.
Qed.

(* ---------------------------------------------------------------------------------- *)
(* the theorems *)

Definition heads_cleared (i i' : inst) : Prop := i_heads i' = map (fun hs => (fst hs, @nil Z)) (i_heads i).

(* how a surviving instance may differ: scores cleared, removed children pruned, removed flows
   dropped from the flow lists of its open scopes; nothing else *)
Definition frame_core (gone : string -> Prop) (i i' : inst) : Prop :=
  i_flow i' = i_flow i /\ i_status i' = i_status i /\ i_updated i' = i_updated i /\
  i_activated i' = i_activated i /\ i_parent i' = i_parent i /\ i_actions i' = i_actions i /\
  i_rest i' = i_rest i /\ heads_cleared i i' /\
  (forall c, In c (i_children i') -> In c (i_children i)) /\
  (forall c, In c (i_children i) -> ~ In c (i_children i') -> gone c).

Definition scopes_rel (gone : string -> Prop) (i i' : inst) : Prop :=
  map fst (i_scopes i') = map fst (i_scopes i) /\
  (forall k l', slook (i_scopes i') k = Some l' ->
     exists l, slook (i_scopes i) k = Some l /\ (forall x, In x l' -> In x l) /\
               (forall x, In x l -> ~ In x l' -> gone x)).

Definition frame_rel (gone : string -> Prop) (i i' : inst) : Prop :=
  frame_core gone i i' /\ scopes_rel gone i i'.

(* steps 1-3 and 4 (without step 3b) *)
Definition cleanup0 (P : string -> inst -> bool) (s : state) : option state :=
  let s1 := clear_scores s in
  match fold_left remove_one (to_remove_gen P s1) (Some s1) with
  | None => None
  | Some s2 =>
    match rebuild_actions (actions s2) (all_action_uids s2) [] with
    | None => None
    | Some acts => Some (mkState (flows s2) (by_flow s2) acts (s_rest s2))
    end
  end.

Section Theorems0.
  Variable P : string -> inst -> bool.
  Hypothesis HP : core_pred P.
  Variable s s' : state.
  Hypothesis Hdict : NoDup (map fst (flows s)).          (* flow_states is a dict *)
  Hypothesis Hrun : cleanup0 P s = Some s'.

  Let F1 := map (fun kv => (fst kv, clear_heads (snd kv))) (flows s).
  Let rem := to_remove_gen P (clear_scores s).

  Lemma F1_keys : map fst F1 = map fst (flows s).
  Proof. unfold F1. rewrite map_map. reflexivity. Qed.

  Lemma cleanup_inv :
    exists s2, LInv F1 (by_flow s) (actions s) (s_rest s) rem s2 /\
               flows s' = flows s2 /\ by_flow s' = by_flow s2 /\ s_rest s' = s_rest s2 /\
               rebuild_actions (actions s2) (all_action_uids s2) [] = Some (actions s').
  Proof.
    unfold cleanup0 in Hrun. fold rem in Hrun.
    destruct (fold_left remove_one rem (Some (clear_scores s))) as [s2|] eqn:E; [|discriminate].
    destruct (rebuild_actions (actions s2) (all_action_uids s2) []) as [acts|] eqn:E2; [|discriminate].
    inversion Hrun; subst s'. simpl. exists s2. split; [|repeat split; auto].
    change rem with ([] ++ rem)%list. eapply linv_fold; [|exact E]. apply linv_init.
  Qed.

  Lemma rem_spec u : In u rem <-> exists i, slook (flows s) u = Some i /\ P u i = true.
  Proof.
    unfold rem, to_remove_gen. simpl. fold F1. rewrite in_map_iff. split.
    - intros ([u' i1] & <- & Hf). apply filter_In in Hf as [Hi Hr]. simpl in *.
      unfold F1 in Hi. apply in_map_iff in Hi as ([u2 i] & Heq & Hi). inversion Heq; subst.
      exists i. split; [apply in_slook; auto|]. simpl. rewrite <- (HP _ _ _ (clear_core i)). exact Hr.
    - intros (i & Hi & Hr). exists (u, clear_heads i). split; [reflexivity|]. apply filter_In. split.
      + unfold F1. apply in_map_iff. exists (u, i). split; [reflexivity|now apply slook_in].
      + simpl. rewrite (HP u _ _ (clear_core i)). exact Hr.
  Qed.

  Lemma F1_look u : slook F1 u = option_map clear_heads (slook (flows s) u).
  Proof. unfold F1. apply slook_map_snd. Qed.

  (* only done, non-activated, old instances are removed; only unreferenced actions are removed *)
  Theorem cleanup0_only_done :
    (forall u i, slook (flows s) u = Some i -> slook (flows s') u = None -> P u i = true) /\
    (forall a x, slook (actions s) a = Some x -> slook (actions s') a = None ->
                 forall u i, In (u, i) (flows s') -> ~ In a (i_actions i)).
  Proof.
    destruct cleanup_inv as (s2 & HI & Hf & Hb & Hr & Ha). split.
    - intros u i Hi Hn. destruct (P u i) eqn:E; [reflexivity|]. exfalso.
      assert (Hnr : ~ In u rem).
      { intro H. apply rem_spec in H as (i2 & H1 & H2). rewrite Hi in H1. inversion H1; subst. congruence. }
      destruct (li_keep _ _ _ _ _ _ HI u (clear_heads i)) as (i2 & H2); [rewrite F1_look, Hi; reflexivity|exact Hnr|].
      rewrite Hf in Hn. congruence.
    - intros a x Hx Hn u i Hi Hin.
      rewrite (li_act _ _ _ _ _ _ HI) in Ha.
      destruct (rebuild_sound _ _ _ _ Ha) as (_ & H2 & _); [intros ? ? H; discriminate|].
      apply (H2 a); [|exact Hn]. unfold all_action_uids. apply in_flat_map. exists (u, i).
      rewrite <- Hf. auto.
  Qed.

  (* frame: everything else is unchanged *)
  Theorem cleanup0_frame :
    s_rest s' = s_rest s /\
    (forall u i, slook (flows s) u = Some i -> P u i = false ->
                 exists i', slook (flows s') u = Some i' /\ frame_core (fun x => slook (flows s') x = None) i i' /\
                           i_scopes i' = i_scopes i) /\
    (forall u i', slook (flows s') u = Some i' ->
                  exists i, slook (flows s) u = Some i /\ P u i = false) /\
    (forall a x, slook (actions s') a = Some x -> slook (actions s) a = Some x) /\
    (forall u i a, In (u, i) (flows s') -> In a (i_actions i) -> slook (actions s') a <> None) /\
    (forall f l', slook (by_flow s') f = Some l' ->
                  exists l, slook (by_flow s) f = Some l /\ (forall x, In x l' -> In x l) /\
                            (forall x, In x l -> ~ In x l' -> slook (flows s') x = None)) /\
    (forall f l, slook (by_flow s) f = Some l -> exists l', slook (by_flow s') f = Some l').
  Proof.
    destruct cleanup_inv as (s2 & HI & Hf & Hb & Hr & Ha).
    assert (Hgone : forall x, In x rem -> slook (flows s') x = None).
    { intros x Hx. rewrite Hf. destruct (slook (flows s2) x) as [i|] eqn:E; [|reflexivity].
      apply slook_in in E. destruct (li_in _ _ _ _ _ _ HI x i E) as (Hn & _). rewrite app_nil_l in Hn || idtac. tauto. }
    rewrite (li_act _ _ _ _ _ _ HI) in Ha.
    destruct (rebuild_sound _ _ _ _ Ha) as (A1 & A2 & _); [intros ? ? H; discriminate|].
    split; [rewrite Hr; exact (li_rest _ _ _ _ _ _ HI)|]. split; [|split; [|split; [|split; [|split]]]].
    - intros u i Hi Hnr.
      assert (Hnrem : ~ In u rem).
      { intro H. apply rem_spec in H as (i2 & H1 & H2). rewrite Hi in H1. inversion H1; subst. congruence. }
      destruct (li_keep _ _ _ _ _ _ HI u (clear_heads i)) as (i2 & H2); [rewrite F1_look, Hi; reflexivity|exact Hnrem|].
      exists i2. rewrite Hf. split; [exact H2|].
      destruct (li_look _ _ _ _ _ _ HI u i2 H2) as (i0 & H3 & H4 & H5 & H6).
      rewrite F1_look, Hi in H3. simpl in H3. inversion H3; subst i0.
      destruct H4 as (E1 & E2 & E3 & E4 & E5 & E6 & E7 & E8 & E9). simpl in *.
      split; [|auto].
      unfold frame_core, heads_cleared. repeat split; auto.
      intros x Hx Hnx. rewrite <- Hf. apply Hgone. apply H6; auto.
    - intros u i' Hi'. rewrite Hf in Hi'.
      destruct (li_look _ _ _ _ _ _ HI u i' Hi') as (i0 & H3 & H4 & _).
      rewrite F1_look in H3. destruct (slook (flows s) u) as [i|] eqn:Hi; [|discriminate]. simpl in H3. inversion H3; subst i0.
      exists i. split; [reflexivity|]. destruct (P u i) eqn:E; [|reflexivity]. exfalso.
      apply slook_in in Hi'. destruct (li_in _ _ _ _ _ _ HI u i' Hi') as (Hn & _). apply Hn.
      apply rem_spec. eauto.
    - exact A1.
    - intros u i a Hi Hin. apply A2. unfold all_action_uids. apply in_flat_map. exists (u, i). rewrite <- Hf. auto.
    - intros f l' Hl'. rewrite Hb in Hl'. destruct (li_by _ _ _ _ _ _ HI f l' Hl') as (l0 & H1 & H2 & H3).
      exists l0. split; [auto|]. split; [auto|]. intros x Hx Hnx. apply Hgone. apply H3; auto.
    - intros f l Hl. rewrite Hb. exact (li_by_keep _ _ _ _ _ _ HI f l Hl).
  Qed.

  (* a second clean-up at the same clock value changes nothing *)
  Lemma cleanup0_fix_facts :
    clear_scores s' = s' /\ to_remove_gen P s' = [] /\
    rebuild_actions (actions s') (all_action_uids s') [] = Some (actions s').
  Proof.
    destruct cleanup_inv as (s2 & HI & Hf & Hb & Hr & Ha).
    assert (Hcl : clear_scores s' = s').
    { unfold clear_scores. destruct s' as [fl bf ac rs]. simpl in *. f_equal.
      rewrite <- (map_id fl) at 2. apply map_ext_in. intros [u i] Hi. simpl. f_equal.
      subst fl. destruct (li_in _ _ _ _ _ _ HI u i Hi) as (_ & i0 & H1 & H2 & _).
      unfold F1 in H1. apply in_map_iff in H1 as ([u1 i1] & Heq & _). inversion Heq; subst.
      destruct H2 as (_ & _ & _ & _ & _ & _ & E7 & _). simpl in E7.
      unfold clear_heads. destruct i; simpl in *. f_equal. rewrite <- E7. rewrite map_map. simpl.
      clear. induction (i_heads i1) as [|[a b] r IH]; simpl; [reflexivity|now f_equal]. }
    assert (Hno : to_remove_gen P s' = []).
    { unfold to_remove_gen. rewrite filter_none; [reflexivity|].
      intros [u i] Hi. simpl. rewrite Hf in Hi.
      destruct (li_in _ _ _ _ _ _ HI u i Hi) as (Hn & i0 & H1 & H2 & _).
      destruct (P u i) eqn:E; [|reflexivity]. exfalso. apply Hn. simpl.
      unfold F1 in H1. apply in_map_iff in H1 as ([u1 i1] & Heq & Hi1). inversion Heq; subst.
      apply rem_spec. exists i1. split; [apply in_slook; auto|].
      rewrite <- (HP _ _ _ (clear_core i1)). rewrite (HP _ _ _ (sbc_core _ _ H2)). exact E. }
    split; [exact Hcl|]. split; [exact Hno|].
    assert (Hu : all_action_uids s' = all_action_uids s2) by (unfold all_action_uids; now rewrite Hf).
    rewrite Hu. exact (rebuild_idem _ _ _ _ Ha).
  Qed.



  Lemma cleanup0_actions_ref a x :
    slook (actions s') a = Some x -> exists u i, In (u, i) (flows s') /\ In a (i_actions i).
  Proof.
    destruct cleanup_inv as (s2 & HI & Hf & Hb & Hr & Ha). intro Hx.
    destruct (rebuild_sound _ _ _ _ Ha) as (_ & _ & A3); [intros ? ? H; discriminate|].
    destruct (A3 a x Hx) as [H|H]; [discriminate|].
    unfold all_action_uids in H. apply in_flat_map in H as ([u i] & Hin & Hia). exists u, i. rewrite Hf. auto.
  Qed.

  Lemma cleanup0_by_gone :
    (forall f l, slook (by_flow s) f = Some l -> NoDup l) ->
    forall f l', slook (by_flow s') f = Some l' ->
      NoDup l' /\ forall x i, slook (flows s) x = Some i -> P x i = true -> i_flow i = f -> ~ In x l'.
  Proof.
    intros Hnd f l' Hl'.
    unfold cleanup0 in Hrun. fold rem in Hrun.
    destruct (fold_left remove_one rem (Some (clear_scores s))) as [s2|] eqn:E; [|discriminate].
    destruct (rebuild_actions (actions s2) (all_action_uids s2) []) as [acts|] eqn:E2; [|discriminate].
    inversion Hrun; subst s'. simpl in Hl'.
    assert (HB : BInv F1 ([] ++ rem) s2).
    { eapply (lb_fold F1 (by_flow s) (actions s) (s_rest s)); [apply linv_init|apply binv_init; exact Hnd|exact E]. }
    destruct (HB f l' Hl') as [N G]. split; [exact N|].
    intros x i Hi Hr Hfl. apply (G x (clear_heads i)); [|rewrite F1_look, Hi; reflexivity|exact Hfl].
    simpl. apply rem_spec. eauto.
  Qed.

End Theorems0.

(* ---------------------------------------------------------------------------------- *)
(* the whole function: cleanup = step 3b after cleanup0 *)

Lemma keep_uids_in rem l x : In x (keep_uids rem l) <-> In x l /\ ~ In x rem.
Proof.
  unfold keep_uids. rewrite filter_In. split; intros [H1 H2]; split; auto.
  - intro H. apply smem_in in H. rewrite H in H2. discriminate.
  - destruct (smem x rem) eqn:E; [|reflexivity]. apply smem_in in E. contradiction.
Qed.

Lemma keep_uids_nil l : keep_uids [] l = l.
Proof. unfold keep_uids. induction l as [|x r IH]; simpl; [reflexivity|f_equal; exact IH]. Qed.

Lemma purge_inst_nil c i : purge_inst c [] i = i.
Proof.
  unfold purge_inst. destruct i as [a b d e f ch ac hs sc r]. simpl. f_equal.
  - destruct (purge_children c); [apply keep_uids_nil|reflexivity].
  - destruct (purge_scopes c); [|reflexivity].
    induction sc as [|[k l] t IH]; simpl; [reflexivity|]. rewrite keep_uids_nil. now f_equal.
Qed.

Lemma purge_flows_nil c l : purge_flows c [] l = l.
Proof.
  unfold purge_flows. induction l as [|[k x] r IH]; simpl; [reflexivity|]. rewrite purge_inst_nil. now f_equal.
Qed.

Lemma slook_purge c rem l u : slook (purge_flows c rem l) u = option_map (purge_inst c rem) (slook l u).
Proof. unfold purge_flows. apply slook_map_snd. Qed.

Lemma in_purge c rem l u i : In (u, i) (purge_flows c rem l) -> exists i0, In (u, i0) l /\ i = purge_inst c rem i0.
Proof.
  unfold purge_flows. intro H. apply in_map_iff in H as ([u0 i0] & Heq & Hin). inversion Heq; subst. eauto.
Qed.

Lemma slook_scopes_purge rem (sc : list (string * list string)) k :
  slook (map (fun kl => (fst kl, keep_uids rem (snd kl))) sc) k = option_map (keep_uids rem) (slook sc k).
Proof. apply (slook_map_snd (keep_uids rem)). Qed.

Lemma cleanup_split c P s :
  cleanup_gen c P s =
  match cleanup0 P s with
  | None => None
  | Some s0 => Some (mkState (purge_flows c (to_remove_gen P (clear_scores s)) (flows s0)) (by_flow s0) (actions s0) (s_rest s0))
  end.
Proof.
  unfold cleanup_gen, cleanup0.
  destruct (fold_left remove_one (to_remove_gen P (clear_scores s)) (Some (clear_scores s))) as [s2|]; [|reflexivity].
  destruct (rebuild_actions (actions s2) (all_action_uids s2) []); reflexivity.
Qed.

Lemma actions_purge c rem l :
  flat_map (fun kv : string * inst => i_actions (snd kv)) (purge_flows c rem l)
  = flat_map (fun kv : string * inst => i_actions (snd kv)) l.
Proof. unfold purge_flows. induction l as [|[k x] r IH]; simpl; [reflexivity|now rewrite IH]. Qed.

Section Theorems.
  Variable c : cfg.
  Variable P : string -> inst -> bool.
  Hypothesis HP : core_pred P.
  Variable s s' : state.
  Hypothesis Hdict : NoDup (map fst (flows s)).          (* flow_states is a dict *)
  Hypothesis Hrun : cleanup_gen c P s = Some s'.

  Let rem := to_remove_gen P (clear_scores s).

  Lemma cleanup_via0 :
    exists s0, cleanup0 P s = Some s0 /\ flows s' = purge_flows c rem (flows s0) /\
               by_flow s' = by_flow s0 /\ actions s' = actions s0 /\ s_rest s' = s_rest s0.
  Proof.
    rewrite cleanup_split in Hrun. destruct (cleanup0 P s) as [s0|]; [|discriminate].
    inversion Hrun; subst s'. exists s0. simpl. auto.
  Qed.

  Lemma look_none u s0 : flows s' = purge_flows c rem (flows s0) ->
    (slook (flows s') u = None <-> slook (flows s0) u = None).
  Proof. intros ->. rewrite slook_purge. destruct (slook (flows s0) u); simpl; split; congruence. Qed.

  Theorem cleanup_only_done :
    (forall u i, slook (flows s) u = Some i -> slook (flows s') u = None -> P u i = true) /\
    (forall a x, slook (actions s) a = Some x -> slook (actions s') a = None ->
                 forall u i, In (u, i) (flows s') -> ~ In a (i_actions i)).
  Proof.
    destruct cleanup_via0 as (s0 & H0 & Hf & Hb & Ha & Hr).
    destruct (cleanup0_only_done P HP s s0 Hdict H0) as [P1 P2]. split.
    - intros u i Hi Hn. apply (P1 u i Hi). now apply (look_none u s0 Hf).
    - intros a x Hx Hn u i Hi. rewrite Hf in Hi. apply in_purge in Hi as (i0 & Hi0 & ->). simpl.
      rewrite Ha in Hn. exact (P2 a x Hx Hn u i0 Hi0).
  Qed.

  Theorem cleanup_frame :
    s_rest s' = s_rest s /\
    (forall u i, slook (flows s) u = Some i -> P u i = false ->
                 exists i', slook (flows s') u = Some i' /\ frame_rel (fun x => slook (flows s') x = None) i i') /\
    (forall u i', slook (flows s') u = Some i' ->
                  exists i, slook (flows s) u = Some i /\ P u i = false) /\
    (forall a x, slook (actions s') a = Some x -> slook (actions s) a = Some x) /\
    (forall u i a, In (u, i) (flows s') -> In a (i_actions i) -> slook (actions s') a <> None) /\
    (forall f l', slook (by_flow s') f = Some l' ->
                  exists l, slook (by_flow s) f = Some l /\ (forall x, In x l' -> In x l) /\
                            (forall x, In x l -> ~ In x l' -> slook (flows s') x = None)) /\
    (forall f l, slook (by_flow s) f = Some l -> exists l', slook (by_flow s') f = Some l').
  Proof.
    destruct cleanup_via0 as (s0 & H0 & Hf & Hb & Ha & Hr).
    destruct (cleanup0_frame P HP s s0 Hdict H0) as (F0 & F1 & F2 & F3 & F4 & F5 & F6).
    assert (Hg : forall x, slook (flows s0) x = None -> slook (flows s') x = None)
      by (intros x; apply (look_none x s0 Hf)).
    assert (Hrem : forall x, In x rem -> slook (flows s') x = None).
    { intros x Hx. apply Hg. destruct (slook (flows s0) x) as [i'|] eqn:E; [|reflexivity]. exfalso.
      destruct (F2 x i' E) as (i & Hi & Hnr).
      apply (rem_spec P HP s Hdict) in Hx as (i2 & Hi2 & Hr2). rewrite Hi in Hi2. inversion Hi2; subst. congruence. }
    split; [congruence|]. split; [|split; [|split; [|split; [|split]]]].
    - intros u i Hi Hnr. destruct (F1 u i Hi Hnr) as (i0 & Hi0 & Hc & Hsc).
      exists (purge_inst c rem i0). split; [rewrite Hf, slook_purge, Hi0; reflexivity|].
      destruct Hc as (E1 & E2 & E3 & E4 & E5 & E6 & E7 & E8 & E9 & E10).
      split.
      + unfold frame_core, heads_cleared in *. simpl. repeat split; auto.
        * intros x Hx. apply E9. destruct (purge_children c); [apply keep_uids_in in Hx; tauto|exact Hx].
        * intros x Hx Hnx. destruct (purge_children c).
          -- destruct (in_dec string_dec x (i_children i0)) as [Hin|Hin].
             ++ apply Hrem. destruct (in_dec string_dec x rem) as [?|Hnr2]; [assumption|].
                exfalso. apply Hnx. apply keep_uids_in. tauto.
             ++ apply Hg. apply E10; auto.
          -- apply Hg. apply E10; auto.
      + unfold scopes_rel. simpl. rewrite <- Hsc. destruct (purge_scopes c).
        * split; [rewrite map_map; reflexivity|].
          intros k l' Hl'. rewrite slook_scopes_purge in Hl'.
          destruct (slook (i_scopes i0) k) as [l|] eqn:El; [|discriminate]. simpl in Hl'. inversion Hl'; subst l'.
          exists l. split; [reflexivity|]. split.
          -- intros x Hx. apply keep_uids_in in Hx. tauto.
          -- intros x Hx Hnx. apply Hrem. destruct (in_dec string_dec x rem) as [?|Hnr2]; [assumption|].
             exfalso. apply Hnx. apply keep_uids_in. tauto.
        * split; [reflexivity|]. intros k l' Hl'. exists l'. split; [exact Hl'|]. split; [auto|tauto].
    - intros u i' Hi'. rewrite Hf, slook_purge in Hi'. destruct (slook (flows s0) u) as [i0|] eqn:E; [|discriminate].
      exact (F2 u i0 E).
    - intros a x Hx. rewrite Ha in Hx. auto.
    - intros u i a Hi Hin. rewrite Hf in Hi. apply in_purge in Hi as (i0 & Hi0 & ->). simpl in Hin.
      rewrite Ha. eapply F4; eauto.
    - intros f l' Hl'. rewrite Hb in Hl'. destruct (F5 f l' Hl') as (l & H1 & H2 & H3).
      exists l. split; [auto|]. split; [auto|]. intros x Hx Hnx. apply Hg. auto.
    - intros f l Hl. rewrite Hb. exact (F6 f l Hl).
  Qed.

  (* a second clean-up at the same clock value changes nothing *)
  Theorem cleanup_idempotent : cleanup_gen c P s' = Some s'.
  Proof.
    destruct cleanup_via0 as (s0 & H0 & Hf & Hb & Ha & Hr).
    destruct (cleanup0_fix_facts P HP s s0 Hdict H0) as (Hcl & Hno & Hre).
    assert (Hcl' : clear_scores s' = s').
    { unfold clear_scores in *. destruct s' as [fl bf ac rs], s0 as [fl0 bf0 ac0 rs0]. simpl in *. f_equal.
      inversion Hcl as [Hm]. subst fl. unfold purge_flows. rewrite map_map. simpl.
      rewrite <- Hm at 2. rewrite map_map. simpl. apply map_ext. intros [u i]. reflexivity. }
    assert (Hno' : to_remove_gen P s' = []).
    { unfold to_remove_gen in *. rewrite filter_none; [reflexivity|]. intros [u i] Hi. simpl.
      rewrite Hf in Hi. apply in_purge in Hi as (i0 & Hi0 & ->).
      assert (Hce : core_eq (purge_inst c rem i0) i0) by (unfold core_eq; simpl; tauto).
      rewrite (HP u _ _ Hce).
      destruct (P u i0) eqn:E; [|reflexivity]. exfalso.
      assert (In (u, i0) (filter (fun kv => P (fst kv) (snd kv)) (flows s0))) by (apply filter_In; auto).
      destruct (filter (fun kv => P (fst kv) (snd kv)) (flows s0)); [contradiction|discriminate]. }
    rewrite cleanup_split. unfold cleanup0. rewrite Hcl', Hno'. simpl.
    assert (Hu : all_action_uids s' = all_action_uids s0).
    { unfold all_action_uids. rewrite Hf. apply actions_purge. }
    rewrite Hu, Ha, Hre. simpl. rewrite purge_flows_nil. destruct s'; simpl in *; subst; reflexivity.
  Qed.

  Definition gone' (x : string) : Prop := slook (flows s') x = None.

  Lemma cleanup_actions_ref a x :
    slook (actions s') a = Some x -> exists u i, In (u, i) (flows s') /\ In a (i_actions i).
  Proof.
    destruct cleanup_via0 as (s0 & H0 & Hf & Hb & Ha & Hr). rewrite Ha. intro Hx.
    destruct (cleanup0_actions_ref P s s0 H0 a x Hx) as (u & i & Hin & Hia).
    exists u, (purge_inst c rem i). split; [|exact Hia].
    rewrite Hf. unfold purge_flows. apply in_map_iff. exists (u, i). auto.
  Qed.

  (* step 3b: no uid removed by this clean-up stays listed as a child or in an open scope *)
  Lemma cleanup_purged u i' :
    slook (flows s') u = Some i' ->
    (purge_children c = true -> forall x, In x (i_children i') -> ~ In x rem) /\
    (purge_scopes c = true -> forall k l x, slook (i_scopes i') k = Some l -> In x l -> ~ In x rem).
  Proof.
    destruct cleanup_via0 as (s0 & H0 & Hf & Hb & Ha & Hr). intro Hi'.
    rewrite Hf, slook_purge in Hi'. destruct (slook (flows s0) u) as [i0|]; [|discriminate].
    simpl in Hi'. inversion Hi'; subst i'. simpl. split.
    - intros -> x Hx. apply keep_uids_in in Hx. tauto.
    - intros -> k l x Hl Hx. rewrite slook_scopes_purge in Hl.
      destruct (slook (i_scopes i0) k) as [l0|]; [|discriminate]. simpl in Hl. inversion Hl; subst l.
      apply keep_uids_in in Hx. tauto.
  Qed.

  Lemma not_rem_present x ix :
    slook (flows s) x = Some ix -> ~ In x rem -> slook (flows s') x <> None.
  Proof.
    intros Hx Hn. destruct cleanup_frame as (_ & Fr & _).
    destruct (P x ix) eqn:E.
    - exfalso. apply Hn. apply (rem_spec P HP s Hdict). eauto.
    - destruct (Fr x ix Hx E) as (i' & Hi' & _). congruence.
  Qed.

  (* the reference closure is an invariant of the clean-up (thanks to step 3b) *)
  Theorem cleanup_preserves_closed :
    purge_children c = true -> purge_scopes c = true -> closed_refs s -> closed_refs s'.
  Proof.
    intros Pc Ps [C1 C2 C3 C4].
    destruct cleanup_frame as (_ & Fr & Fb & Fa & Fra & Fby & _).
    constructor.
    - intros u i' x Hi' Hx. destruct (Fb u i' Hi') as (i & Hi & Hnr).
      destruct (Fr u i Hi Hnr) as (i2 & Hi2 & ((_ & _ & _ & _ & _ & _ & _ & _ & Hsub & _) & _)).
      rewrite Hi' in Hi2. inversion Hi2; subst i2.
      specialize (C1 u i x Hi (Hsub x Hx)). unfold present in *.
      destruct (slook (flows s) x) as [ix|] eqn:Ex; [|congruence].
      eapply not_rem_present; eauto. destruct (cleanup_purged u i' Hi') as [Pg _]. exact (Pg Pc x Hx).
    - intros u i' k l x Hi' Hl Hx. destruct (Fb u i' Hi') as (i & Hi & Hnr).
      destruct (Fr u i Hi Hnr) as (i2 & Hi2 & (_ & (_ & Hsc))).
      rewrite Hi' in Hi2. inversion Hi2; subst i2.
      destruct (Hsc k l Hl) as (l0 & Hl0 & Hsub & _).
      specialize (C2 u i k l0 x Hi Hl0 (Hsub x Hx)). unfold present in *.
      destruct (slook (flows s) x) as [ix|] eqn:Ex; [|congruence].
      eapply not_rem_present; eauto. destruct (cleanup_purged u i' Hi') as [_ Pg]. exact (Pg Ps k l x Hl Hx).
    - intros u i' a Hi' Ha. exact (Fra u i' a (slook_in _ _ _ Hi') Ha).
    - intros f l' Hl'. destruct (Fby f l' Hl') as (l & Hl & Hsub & _).
      destruct (C4 f l Hl) as [Hnd Hmem].
      destruct cleanup_via0 as (s0 & H0 & Hf & Hb & Ha & Hr).
      assert (HndAll : forall f0 l0, slook (by_flow s) f0 = Some l0 -> NoDup l0) by (intros f0 l0 H; exact (proj1 (C4 f0 l0 H))).
      rewrite Hb in Hl'. destruct (cleanup0_by_gone P HP s s0 Hdict H0 HndAll f l' Hl') as [N G].
      split; [exact N|]. intros u Hu. destruct (Hmem u (Hsub u Hu)) as (i & Hi & Hfl).
      destruct (P u i) eqn:E; [exfalso; exact (G u i Hi E Hfl Hu)|].
      destruct (Fr u i Hi E) as (i' & Hi' & ((Efl & _) & _)). exists i'. split; [exact Hi'|congruence].
  Qed.

  (* every lookup through a list of a remaining instance resolves after the clean-up to the
     frame-image of what it resolved to before; a uid that left a list named an instance this
     clean-up discarded; the actions a remaining instance lists are the same objects *)
  Theorem cleanup_lookups :
    purge_children c = true -> purge_scopes c = true -> closed_refs s ->
    forall u i i', slook (flows s) u = Some i -> slook (flows s') u = Some i' ->
      (forall x, In x (i_children i') ->
         exists ix ix', slook (flows s) x = Some ix /\ slook (flows s') x = Some ix' /\ frame_rel gone' ix ix') /\
      (forall x, In x (i_children i) -> ~ In x (i_children i') ->
         exists ix, slook (flows s) x = Some ix /\ P x ix = true /\ slook (flows s') x = None) /\
      (forall k l' x, slook (i_scopes i') k = Some l' -> In x l' ->
         exists ix ix', slook (flows s) x = Some ix /\ slook (flows s') x = Some ix' /\ frame_rel gone' ix ix') /\
      (forall a, In a (i_actions i') -> exists act, slook (actions s) a = Some act /\ slook (actions s') a = Some act).
  Proof.
    intros Pc Ps Hcl u i i' Hi Hi'. pose proof Hcl as [C1 C2 C3 C4].
    destruct cleanup_frame as (_ & Fr & Fb & Fa & Fra & _).
    destruct (Fb u i' Hi') as (i1 & Hi1 & Hnr). rewrite Hi in Hi1. inversion Hi1; subst i1.
    destruct (Fr u i Hi Hnr) as (i2 & Hi2 & Hfr). rewrite Hi' in Hi2. inversion Hi2; subst i2.
    destruct Hfr as ((_ & _ & _ & _ & _ & Eact & _ & _ & Hsub & Hgone) & (_ & Hsc)).
    assert (Res : forall x, present s x -> ~ In x rem ->
              exists ix ix', slook (flows s) x = Some ix /\ slook (flows s') x = Some ix' /\ frame_rel gone' ix ix').
    { intros x Hp Hn. unfold present in Hp. destruct (slook (flows s) x) as [ix|] eqn:Ex; [|congruence].
      destruct (P x ix) eqn:E; [exfalso; apply Hn; apply (rem_spec P HP s Hdict); eauto|].
      destruct (Fr x ix Ex E) as (ix' & Hx' & Hf). exists ix, ix'. auto. }
    destruct (cleanup_purged u i' Hi') as [P1 P2].
    split; [|split; [|split]].
    - intros x Hx. apply Res; [exact (C1 u i x Hi (Hsub x Hx))|exact (P1 Pc x Hx)].
    - intros x Hx Hnx. specialize (Hgone x Hx Hnx). pose proof (C1 u i x Hi Hx) as Hp. unfold present in Hp.
      destruct (slook (flows s) x) as [ix|] eqn:Ex; [|congruence]. exists ix. split; [reflexivity|]. split; [|exact Hgone].
      destruct (P x ix) eqn:E; [reflexivity|]. destruct (Fr x ix Ex E) as (ix' & Hx' & _). congruence.
    - intros k l' x Hl' Hx. destruct (Hsc k l' Hl') as (l0 & Hl0 & Hs2 & _).
      apply Res; [exact (C2 u i k l0 x Hi Hl0 (Hs2 x Hx))|exact (P2 Ps k l' x Hl' Hx)].
    - intros a Ha. pose proof (Fra u i' a (slook_in _ _ _ Hi') Ha) as Hn.
      destruct (slook (actions s') a) as [act|] eqn:Ea; [|congruence]. exists act. split; [exact (Fa a act Ea)|reflexivity].
  Qed.

  (* the part of event dispatch that is modelled: resolving the entries of the matcher index.
     If the index only lists heads of instances that are not done (the invariant the harness
     checks on real states), then after the clean-up every entry resolves to the same head of
     the same instance; the instance differs only as the frame allows. *)

  Theorem cleanup_candidates (ix : index) :
    (forall name es e, slook ix name = Some es -> In e es ->
       exists i, slook (flows s) (fst e) = Some i /\ P (fst e) i = false /\ slook (i_heads i) (snd e) <> None) ->
    forall name,
      Forall2 (fun a b => exists fu hu i i', a = Some (fu, hu, i) /\ b = Some (fu, hu, i') /\ frame_rel gone' i i')
              (candidates ix s name) (candidates ix s' name).
  Proof.
    intros Hix name. unfold candidates. destruct (slook ix name) as [es|] eqn:E; [|constructor].
    assert (H : forall e, In e es -> exists i, slook (flows s) (fst e) = Some i /\ P (fst e) i = false /\
                                               slook (i_heads i) (snd e) <> None) by (intros; eapply Hix; eauto).
    clear E Hix. induction es as [|e r IH]; simpl; constructor.
    - destruct (H e (or_introl eq_refl)) as (i & Hi & Hd & Hh).
      destruct cleanup_frame as (_ & Fr & _).
      pose proof Hd as Hnr.
      destruct (Fr _ _ Hi Hnr) as (i' & Hi' & Hfr).
      exists (fst e), (snd e), i, i'. unfold resolve. rewrite Hi, Hi'.
      destruct (slook (i_heads i) (snd e)) as [sc|] eqn:Eh; [|congruence].
      pose proof Hfr as Hfr0.
      destruct Hfr as ((_ & _ & _ & _ & _ & _ & _ & Hc & _) & _). unfold heads_cleared in Hc. rewrite Hc.
      rewrite slook_clear, Eh. simpl. split; [reflexivity|split; [reflexivity|exact Hfr0]].
    - apply IH. intros; apply H; now right.
  Qed.
End Theorems.


(* with the constants of the unchanged source: removed => FINISHED or STOPPED, not activated,
   strictly older than the age *)
Lemma removable_meaning age0 pc ps nu now i :
  removable (mkCfg age0 true true true ["FINISHED"; "STOPPED"] pc ps nu) now i = true ->
  (i_status i = "FINISHED" \/ i_status i = "STOPPED") /\ i_activated i = 0 /\ age0 < now - i_updated i.
Proof.
  unfold removable, is_done, old_enough, smem. simpl. intro H.
  apply andb_true_iff in H as [H H3]. apply andb_true_iff in H as [H1 H2].
  apply Z.eqb_eq in H3. apply Z.ltb_lt in H2. repeat split; auto.
  apply orb_true_iff in H1 as [H1|H1]; [left; now apply String.eqb_eq|].
  apply orb_true_iff in H1 as [H1|H1]; [right; now apply String.eqb_eq|discriminate].
Qed.
