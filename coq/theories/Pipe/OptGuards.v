(* Pipe/OptGuards.v - the guard expressions of the shipped Colang flows as data with a meaning.

   * `gexpr`: the fragment of Colang 1.0 / Python expressions the `if` guards of llm_flows.co and of
     the self-check rails are written in; `show` prints an expression back to source text (no
     parentheses: `prec_ok` says none are needed), so Coq can CHECK that a translated AST is the
     parse of the guard string found in the compiled flow (Gen/C01Flows.v);
   * `eval` / `truthy`: the meaning eval_expression + `if` give to it (undefined variable = None,
     dict / object attribute access, Python `and`/`or` returning operands, truthiness of None,
     bools, dicts/objects and lists; attribute access on None etc. = exception = `None` here);
   * `walk`: the path `slide` follows through a compiled flat flow under a valuation of its
     guards (proved to be a `path` of Pipe/FlowCheck_proofs.v in OptGuards_proofs.v).
   Definitions only.  Types of the compiled flows come from Pipe/FlowCheck.v (C01 builder).  The values of a
   turn's context ($generation_options, $config) are in Pipe/OptGuardsEnv.v (C16 only). *)
From Coq Require Import List String Bool ZArith.
From NG Require Import Pipe.FlowCheck.
Import ListNotations.
Open Scope string_scope.
Open Scope list_scope.

Inductive gexpr :=
| GVar (v : string)                 (* $v *)
| GAttr (e : gexpr) (a : string)    (* e.a *)
| GNone | GTrue | GFalse
| GIs (a b : gexpr)                 (* a is b *)
| GEq (a b : gexpr)                 (* a == b *)
| GNot (e : gexpr)
| GAnd (a b : gexpr)
| GOr (a b : gexpr).

(* Python precedence: or < and < not < comparisons < atoms *)
Definition level (e : gexpr) : nat :=
  match e with
  | GOr _ _ => 1 | GAnd _ _ => 2 | GNot _ => 3 | GIs _ _ | GEq _ _ => 4
  | _ => 5
  end.

Fixpoint show (e : gexpr) : string :=
  match e with
  | GVar v => "$" ++ v
  | GAttr e a => show e ++ "." ++ a
  | GNone => "None" | GTrue => "True" | GFalse => "False"
  | GIs a b => show a ++ " is " ++ show b
  | GEq a b => show a ++ " == " ++ show b
  | GNot e => "not " ++ show e
  | GAnd a b => show a ++ " and " ++ show b
  | GOr a b => show a ++ " or " ++ show b
  end.

(* the un-parenthesised print is the source of exactly this tree *)
Fixpoint prec_ok (e : gexpr) : bool :=
  match e with
  | GVar _ | GNone | GTrue | GFalse => true
  | GAttr e _ => Nat.eqb (level e) 5 && prec_ok e
  | GIs a b | GEq a b => Nat.eqb (level a) 5 && Nat.eqb (level b) 5 && prec_ok a && prec_ok b
  | GNot e => Nat.leb 3 (level e) && prec_ok e
  | GAnd a b => Nat.leb 2 (level a) && Nat.leb 3 (level b) && prec_ok a && prec_ok b
  | GOr a b => Nat.leb 1 (level a) && Nat.leb 2 (level b) && prec_ok a && prec_ok b
  end.

(* values *)
Inductive gval :=
| VNone
| VBool (b : bool)
| VRec (fields : list (string * gval))    (* a dict (AttributeDict) or an object with attributes *)
| VList (n : nat).                        (* a list of n elements *)

Definition truthy (v : gval) : bool :=
  match v with
  | VNone => false
  | VBool b => b
  | VRec f => negb (match f with [] => true | _ => false end)
  | VList n => negb (Nat.eqb n 0)
  end.

Fixpoint field (a : string) (f : list (string * gval)) : option gval :=
  match f with
  | [] => None
  | (k, v) :: r => if String.eqb a k then Some v else field a r
  end.

(* comparison with a constant (the only comparisons of the fragment); None = not modelled *)
Definition const_cmp (va vb : gval) : option bool :=
  match va, vb with
  | VNone, VNone => Some true
  | VBool x, VBool y => Some (Bool.eqb x y)
  | VNone, VBool _ | VBool _, VNone => Some false
  | (VRec _ | VList _), (VNone | VBool _) => Some false
  | _, _ => None
  end.

Definition env := string -> gval.     (* context.get(name): an undefined variable is None *)

Fixpoint eval (rho : env) (e : gexpr) : option gval :=
  match e with
  | GVar v => Some (rho v)
  | GAttr e a => match eval rho e with
                 | Some (VRec f) => field a f       (* missing attribute / key: exception *)
                 | _ => None                        (* attribute of None, bool, list: exception *)
                 end
  | GNone => Some VNone
  | GTrue => Some (VBool true)
  | GFalse => Some (VBool false)
  | GIs a b | GEq a b =>
    match eval rho a, eval rho b with
    | Some va, Some vb => option_map VBool (const_cmp va vb)
    | _, _ => None
    end
  | GNot e => option_map (fun v => VBool (negb (truthy v))) (eval rho e)
  | GAnd a b => match eval rho a with
                | Some va => if truthy va then eval rho b else Some va
                | None => None
                end
  | GOr a b => match eval rho a with
               | Some va => if truthy va then Some va else eval rho b
               | None => None
               end
  end.

(* the `if` of sliding.py: truthiness of the value; None = the evaluation raises *)
Definition holds (rho : env) (e : gexpr) : option bool := option_map truthy (eval rho e).

(* a table guard string -> AST (generated), checked entry by entry *)
Definition entry_ok (p : string * gexpr) : bool := String.eqb (fst p) (show (snd p)) && prec_ok (snd p).

Fixpoint lookup_guard (s : string) (t : list (string * gexpr)) : option gexpr :=
  match t with
  | [] => None
  | (k, e) :: r => if String.eqb s k then Some e else lookup_guard s r
  end.

(* valuation of guard strings induced by a table and an environment *)
Definition valuation (t : list (string * gexpr)) (rho : env) (s : string) : option bool :=
  match lookup_guard s t with Some e => holds rho e | None => None end.

(* ---------- following a compiled flow under a valuation ---------- *)
(* steps (index, edge taken) until the flow ends; None = a guard raises / a loop / out of fuel *)
Fixpoint walk (es : list elem) (val : string -> option bool) (fuel : nat) (pc : Z) : option (list (Z * edge)) :=
  match fuel with
  | O => None
  | S f =>
    match elem_at es pc with
    | None => Some []
    | Some e =>
      match e with
      | EIf x ne =>
        match val x with
        | Some true => option_map (cons (pc, LTrue x)) (walk es val f (pc + 1)%Z)
        | Some false => option_map (cons (pc, LFalse x)) (walk es val f (pc + ne)%Z)
        | None => None
        end
      | EWhile _ _ => None
      | EJump n => option_map (cons (pc, LNext)) (walk es val f (pc + n)%Z)
      | _ => option_map (cons (pc, LNext)) (walk es val f (pc + 1)%Z)
      end
    end
  end.

(* the elements executed on the way that are not control elements *)
Definition visible (es : list elem) (p : list (Z * edge)) : list elem :=
  flat_map (fun s => match elem_at es (fst s) with
                     | Some (EIf _ _) | Some (EJump _) | Some EMeta | None => []
                     | Some e => [e]
                     end) p.

Definition run_flow (es : list elem) (t : list (string * gexpr)) (rho : env) : option (list elem) :=
  option_map (visible es) (walk es (valuation t rho) (S (List.length es)) 0%Z).

Definition calls_flow (n : string) (tr : option (list elem)) : option bool :=
  option_map (existsb (is_flow n)) tr.

Definition elem_beq (a b : elem) : bool :=
  match a, b with
  | EMatch x, EMatch y | EFlow x, EFlow y | EUtter x, EUtter y => String.eqb x y
  | EAction x k, EAction y k' => String.eqb x y && String.eqb k k'
  | ESet k x, ESet k' x' => String.eqb k k' && String.eqb x x'
  | ECreate x ps, ECreate y qs =>
    String.eqb x y && (Nat.eqb (List.length ps) (List.length qs)) &&
    forallb (fun pq => String.eqb (fst (fst pq)) (fst (snd pq)) && String.eqb (snd (fst pq)) (snd (snd pq))) (combine ps qs)
  | EMeta, EMeta => true
  | _, _ => false
  end.

Fixpoint trace_beq (a b : list elem) : bool :=
  match a, b with
  | [], [] => true
  | x :: a', y :: b' => elem_beq x y && trace_beq a' b'
  | _, _ => false
  end.

(* the guard strings occurring in a flow *)
Definition guards_of (es : list elem) : list string :=
  flat_map (fun e => match e with EIf x _ => [x] | EWhile x _ => [x] | _ => [] end) es.

Definition all_guards_known (es : list elem) (t : list (string * gexpr)) : bool :=
  forallb (fun s => match lookup_guard s t with Some _ => true | None => false end) (guards_of es).

(* ---------- sanity ---------- *)
Example show_or : show (GOr (GIs (GVar "generation_options") GNone)
                           (GAttr (GAttr (GVar "generation_options") "rails") "input"))
                  = "$generation_options is None or $generation_options.rails.input".
Proof. reflexivity. Qed.

Example eval_none_attr : eval (fun _ => VNone) (GAttr (GVar "x") "a") = None.
Proof. reflexivity. Qed.
