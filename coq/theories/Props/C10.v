(* C10 - Event processing terminates and a faulty flow fails alone.
   Property theorems only; every proof is `exact <lemma>`; Print Assumptions beneath each.
   Models: V2/Term.v (slide, guardedb), V2/Isolate.v (_advance_head_front try/except, _abort_flow,
   retry loop of process_events), V2/Cascade.v (StartFlow/restart cascade of run_to_completion). *)
From Coq Require Import List Arith Bool.
From NG Require Import V2.Term V2.Term_proofs V2.Isolate V2.Isolate_proofs.
Import ListNotations.

(* one `slide` of a flow whose jump-graph cycles all pass a blocking element stops within
   |elements|+1 steps - from every start position a head can be at (with the catch-label stack the
   verifier `compute_stk` predicts there; the harness checks that real heads start exactly so), for
   every outcome of every expression (true / false / raises), for programs of any size *)
Theorem C10_slide_bound : forall p, guardedb p = true ->
  forall es, In es p ->
  forall orc pos cs, (pos < length es -> stk_at (compute_stk es) pos = Some cs) ->
    s_stop (slide (length es + 1) es orc pos cs) <> OutOfFuel.
Proof. exact slide_bound. Qed.
Print Assumptions C10_slide_bound.

(* the premise is needed: an unguarded loop makes the model of slide run forever *)
Theorem C10_slide_unguarded_spins : exists es orc, guarded_flowb es = false /\
  forall n, s_stop (slide n es orc 1 []) = OutOfFuel.
Proof. exact unguarded_spins. Qed.
Print Assumptions C10_slide_unguarded_spins.

(* a runtime error while sliding head `hidx` of instance `u`: the new state differs from the old
   one only inside the sub-tree of `u` (status, heads, activation of every other instance are
   untouched; child lists elsewhere can only lose entries), no queued event is lost, a ColangError
   event is queued.  Holds for the unchanged and for the repaired restart logic (`guard`). *)
Theorem C10_error_isolated : forall guard prog st u hidx orc st' i hd es p,
  get st u = Some i ->
  nth_error (i_heads i) hidx = Some hd ->
  nth_error prog (i_flow i) = Some es ->
  h_status hd <> HInactive -> listening (i_status i) = true ->
  s_stop (slide (length es + 1) es orc
                (match h_status hd with HActive => S (h_pos hd) | _ => h_pos hd end) (h_catch hd)) = Raised p ->
  advance guard prog st u hidx orc = Some st' ->
  length (insts st') = length (insts st) /\
  (forall x, ~ reach st u x -> option_map control (get st x) = option_map control (get st' x)) /\
  (forall x i', get st' x = Some i' -> exists i0, get st x = Some i0 /\ incl (i_children i') (i_children i0)) /\
  (exists pre post, queue st' = pre ++ queue st ++ post /\ In EvColangError post).
Proof. exact error_isolated. Qed.
Print Assumptions C10_error_isolated.

(* ... so every other instance listens with exactly the same heads for the current and all later events *)
Theorem C10_others_still_listen : forall guard prog st u hidx orc st' i hd es p,
  get st u = Some i ->
  nth_error (i_heads i) hidx = Some hd ->
  nth_error prog (i_flow i) = Some es ->
  h_status hd <> HInactive -> listening (i_status i) = true ->
  s_stop (slide (length es + 1) es orc
                (match h_status hd with HActive => S (h_pos hd) | _ => h_pos hd end) (h_catch hd)) = Raised p ->
  advance guard prog st u hidx orc = Some st' ->
  forall x, ~ reach st u x -> listening_heads st' x = listening_heads st x.
Proof. exact others_still_listen. Qed.
Print Assumptions C10_others_still_listen.

(* ... and the faulty instance is stopped *)
Theorem C10_faulty_stopped : forall fuel st u d r st' i,
  abort fuel st u d r = Some st' -> get st u = Some i ->
  listening (i_status i) = true \/ i_status i = Stopping ->
  exists i', get st' u = Some i' /\ i_status i' = Stopped /\ i_heads i' = [].
Proof. exact abort_stops. Qed.
Print Assumptions C10_faulty_stopped.

(* the retry loop of process_events ends after at most two run_to_completion calls, provided
   processing a ColangError event does not itself raise *)
Theorem C10_no_escape : forall St Ev Exn (rtc : St -> Ev -> St * option Exn) (ce : Exn -> Ev),
  (forall st x, snd (rtc st (ce x)) = None) ->
  forall st ev, retry St Ev Exn rtc ce 2 st ev <> None.
Proof. exact retry_terminates. Qed.
Print Assumptions C10_no_escape.

(* instance: errors raised while MATCHING escape the unchanged run_to_completion; the loop still
   ends if no flow that waits for ColangError has an erroneous match itself ... *)
Theorem C10_no_escape_unchanged : forall hs ev,
  no_raising_error_handler hs ->
  retry _ _ _ (rtc_match false) (fun _ => ev_colang_error) 2 hs ev <> None.
Proof. exact no_escape_unchanged. Qed.
Print Assumptions C10_no_escape_unchanged.

(* ... without that assumption it does not (regression documentation) *)
Theorem C10_no_escape_refuted_without_assumption :
  exists hs, ~ no_raising_error_handler hs /\
    forall n, retry _ _ _ (rtc_match false) (fun _ => ev_colang_error) n hs ev_colang_error = None.
Proof. exact retry_unbounded_without_assumption. Qed.
Print Assumptions C10_no_escape_refuted_without_assumption.

(* with fixes/C10-match-error-isolation.patch the exception never leaves run_to_completion *)
Theorem C10_no_escape_repaired : forall hs ev,
  retry _ _ _ (rtc_match true) (fun _ => ev_colang_error) 1 hs ev <> None.
Proof. exact no_escape_repaired. Qed.
Print Assumptions C10_no_escape_repaired.

(* ------------------------------------------------------------------------------------------ *)
From NG Require Import V2.Cascade V2.Cascade_proofs.

(* The event cascade of one run_to_completion under the REPAIRED restart logic ends within a bound
   that depends only on the program (through the checked certificate: weights per element) and on
   the number of live heads, live instances and queued events - for every outcome of every
   expression, every reaction of every head to every internal event, every outcome of the action
   conflict resolution (an actionable head wins, or loses and is moved to its catch label / its
   flow is aborted with the default restart) and of every merge.  Instances have any number of
   heads: ForkHead creates them, MergeHeads / WaitForHeads remove them (and/or groups, when).
   _partial: the premise is the checked certificate `cascade_cert_ok` -
     (a) intra-flow: every cycle of the cascade graph passes a match on an external event;
     (b) inter-flow: weights exist, i.e. the StartFlow graph of the segments that run without such
         a match is acyclic;
     (c) side conditions on the region an ACTIVATED flow runs through before it is STARTED: no
         user-level match on an internal event, no action, and behind a fork the end of the flow
         is not reachable without a match on an external event;
   and reactions are oracles (which event wakes which head is not modelled). *)
Theorem C10_rtc_bound_partial : forall prog certs,
  cascade_cert_ok prog certs = true ->
  forall o st, swf prog certs st ->
  exists st', cascade true prog o (rtc_bound prog certs (live_heads st) (live st) (length (c_queue st))) st = COk st' /\
              step true prog o st' = None.
Proof. exact rtc_bound_thm. Qed.
Print Assumptions C10_rtc_bound_partial.

(* the measure behind it: every processed event / advanced head strictly decreases the potential phi *)
Theorem C10_cascade_potential : forall prog certs,
  cascade_cert_ok prog certs = true ->
  forall o st, swf prog certs st ->
    step true prog o st = None \/
    exists st', step true prog o st = Some (COk st') /\ swf prog certs st' /\
                phi prog certs st' + 1 <= phi prog certs st.
Proof. exact step_dec. Qed.
Print Assumptions C10_cascade_potential.

(* On the faithful model of the UNCHANGED restart logic the statement is false: `flow a: abort`,
   `flow main: activate a; match X()` satisfies the premise, and after main has sent
   StartFlow(a, activated) the cascade is still busy after n steps, for every n; with the
   repaired guard the same state is quiescent after at most 20 steps. *)
Theorem C10_activated_abort_refuted :
  cascade_guardedb f4_prog = true /\
  (forall n, cascade false f4_prog eager n (f4_after_send 0 [] 0) = COut) /\
  (exists st', cascade true f4_prog eager 20 (f4_after_send 0 [] 0) = COk st').
Proof. exact activated_abort_refuted. Qed.
Print Assumptions C10_activated_abort_refuted.

(* The premise made precise.  A loop whose only waits are matches on events produced inside the same
   run_to_completion (FlowFinished of a child that finishes at once) never lets the cascade end -
   explicitly (`while True: await b`) or implicitly (`activate a` with `a: await b`): "waiting
   statement" in the premise therefore means a match on an event that cannot be produced inside
   the same run_to_completion, and an activated flow is a loop around its body.  Both programs are
   rejected by the (decidable) certificate and keep the model busy also under the repaired guard. *)
Theorem C10_internal_only_loop_outside_premise :
  (cascade_guardedb f7_prog = false /\ cascade_guardedb f7_explicit = false) /\
  (cascade true f7_prog eager 3000 f7_state = COut /\ cascade true f7_explicit eager 3000 f7_state = COut).
Proof. exact (conj f7_rejected f7_busy). Qed.
Print Assumptions C10_internal_only_loop_outside_premise.

(* ------------------------------------------------------------------------------------------ *)
(* Snapshot discipline of the matching phase: `head_candidates` is a snapshot; as long as the flows
   whose match statement raised are failed AFTER the loop, every candidate lookup succeeds ... *)
Theorem C10_match_snapshot_safe : forall fuel raises cands st errs,
  Forall (cand_valid st) cands ->
  forall u h, match_phase false fuel cands raises st errs <> MLookupError u h.
Proof. exact match_phase_deferred_safe. Qed.
Print Assumptions C10_match_snapshot_safe.

(* ... aborting inside the loop instead makes the lookup of a second head of the same flow (or-group
   on the same event) fail - the KeyError that escapes run_to_completion (regression documentation) *)
Theorem C10_match_immediate_abort_refuted :
  exists st cands raises, Forall (cand_valid st) cands /\
    match_phase true 10 cands raises st [] = MLookupError 1 1.
Proof. exact match_phase_immediate_refuted. Qed.
Print Assumptions C10_match_immediate_abort_refuted.

(* ------------------------------------------------------------------------------------------ *)
From NG Require Import Gen.C10Consts.

(* (T) read from the current source on every run: the error handlers around slide(), around the
   evaluation of a match statement, around the creation of an action event and around
   run_to_completion in process_events catch `Exception` (every Python exception a statement can
   raise, not only the Colang error classes), and the max_events counter of process_events is
   initialised once per call *)
Theorem C10_handlers_in_source :
  advance_catches_exception = true /\ match_catches_exception = true /\
  action_event_catches_exception = true /\ process_events_catches_exception = true /\
  max_events_counter_per_call = true.
Proof. exact (conj eq_refl (conj eq_refl (conj eq_refl (conj eq_refl eq_refl)))). Qed.
Print Assumptions C10_handlers_in_source.

(* the outer loop of process_events (outgoing events are fed back as input events) ends after at
   most max_events handled events, whatever the flows send to each other ... *)
Theorem C10_process_events_terminates : forall St Ev (rtc : St -> Ev -> St * list Ev) max fuel cnt st inp,
  cnt <= max -> max - cnt < fuel -> pe St Ev rtc false fuel max cnt st inp <> None.
Proof. exact process_events_terminates. Qed.
Print Assumptions C10_process_events_terminates.

(* ... but not if the counter is reset in every round: two flows answering each other *)
Theorem C10_process_events_per_round_refuted : forall max, 1 <= max ->
  forall n cnt, pe unit nat (fun st e => (st, [e])) true n max cnt tt [0] = None.
Proof. exact process_events_per_round_refuted. Qed.
Print Assumptions C10_process_events_per_round_refuted.
