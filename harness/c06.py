"""C06 - Flow and action lifetimes are bounded by the parent flow (Colang 2).

Model: coq/theories/V2/Life.v (abort / finish / end_scope / action_event / end_of_slide,
transcriptions of _abort_flow, _finish_flow, the EndScope case of slide,
_update_action_status_by_event and the end-of-slide guard of _advance_head_front);
theorems: Props/C06.v.

Tie (X), function-level snapshot correspondence: real interpreter runs of generated flow
hierarchies; every OUTERMOST real call of the modelled functions is recorded as
(abstract pre-snapshot, arguments, abstract post-snapshot + everything emitted during the
call) and replayed through the model inside Coq (vm_compute).  The EndScope branch and the
end-of-slide guard are reached by re-compiling `slide` / `_advance_head_front` in the harness
process with two hook calls inserted (located in the AST, fail-closed) - no repo change.

Search: the property text evaluated on the real outgoing events and flow statuses after each
run_to_completion (orphans, Stop events, activation).
"""
from __future__ import annotations

import json
import os
import random
import sys
import time

from harness import common as C

PID = "C06"
GEN = ["LifeConsts"]
HERE = os.path.abspath(__file__)

PREAMBLE = """From Coq Require Import ZArith NArith List String Bool.
From NG Require Import V2.Life V2.LifeRun.
Import ListNotations.
Open Scope N_scope.
"""

ACTIONS = [
    'UtteranceBotAction(script="a")',
    'UtteranceBotAction(script="a")',
    'UtteranceBotAction(script="b")',
    'GestureBotAction(gesture="g")',
    'TimerBotAction(timer_name="t", duration=1.0)',
]
NEV = 4  # plain events E0..E3

# =======================================================================================
# program generator


class Gen:
    def __init__(self, rng):
        self.rng = rng
        self.nref = 0

    def action(self):
        return self.rng.choice(ACTIONS)

    def call(self, j):
        """flow call; flows with a parameter are called with one of two values (two values = two
        different reference instances when activated)"""
        if j in getattr(self, "with_param", ()):
            return f'f{j} "{self.rng.choice("ab")}"'
        return f"f{j}"

    def ev(self):
        return f"E{self.rng.randrange(NEV)}()"

    def later(self, i, n, k=1):
        """k distinct flow indices > i (flows only call later flows: finite hierarchy)."""
        cand = list(range(i + 1, n + 1))
        if not cand:
            return []
        self.rng.shuffle(cand)
        return cand[:k]

    def simple_stmt(self, i, n, kinds, refs, activatable, in_when=False):
        r = self.rng
        for _ in range(20):
            k = r.choice(kinds)
            if k == "match":
                return [f"match {self.ev()}"]
            if k == "start_flow":
                js = self.later(i, n)
                if js:
                    if r.random() < 0.5:
                        self.nref += 1
                        refs.append(f"$r{self.nref}")
                        return [f"start {self.call(js[0])} as $r{self.nref}"]
                    return [f"start {self.call(js[0])}"]
            if k == "await_flow":
                js = self.later(i, n)
                if js:
                    return [f"await {self.call(js[0])}"]
            if k == "activate":
                js = [j for j in range(i + 1, n + 1) if j in activatable]
                if js:
                    return [f"activate {self.call(r.choice(js))}"]
            if k == "start_action":
                if r.random() < 0.3:
                    self.nref += 1
                    arefs = getattr(self, "arefs", None)
                    if arefs is not None:
                        arefs.append(f"$a{self.nref}")
                        return [f"start {self.action()} as $a{self.nref}"]
                return [f"start {self.action()}"]
            if k == "stop_action_ref":
                arefs = getattr(self, "arefs", None)
                if arefs:
                    return [f"send {r.choice(arefs)}.Stop()"]
            if k == "await_action":
                return [f"await {self.action()}"]
            if k == "group_flow":
                js = self.later(i, n, 2)
                if len(js) == 2:
                    op = r.choice(["and", "or"])
                    kw = r.choice(["start", "await"])
                    return [f"{kw} {self.call(js[0])} {op} {self.call(js[1])}"]
            if k == "group_action":
                op = r.choice(["and", "or"])
                kw = r.choice(["start", "await"])
                return [f"{kw} {self.action()} {op} {self.action()}"]
            if k == "stop_ref" and refs:
                return [f"send {r.choice(refs)}.Stop()"]
            if k == "match_ref" and refs:
                # wait for the end of a flow started earlier: the waiting flow ends in the very event in
                # which that flow ends, while siblings started later may still have starts / activations queued
                return [f"match {r.choice(refs)}.{r.choice(['Finished', 'Finished', 'Failed'])}()"]
            if k == "stop_id":
                js = self.later(i, n)
                if js:
                    name = r.choice(["StopFlow", "FinishFlow"])
                    d = ", deactivate=True" if r.random() < 0.4 else ""
                    return [f'send {name}(flow_id="f{js[0]}"{d})']
            if k == "deactivate":
                js = [j for j in range(i + 1, n + 1) if j in activatable]
                if js:
                    return [f"deactivate {self.call(r.choice(js))}"]
            if k == "abort":
                return ["abort"]
            if k == "when" and not in_when:
                return self.when_stmt(i, n, refs, activatable)
        return [f"match {self.ev()}"]

    def when_stmt(self, i, n, refs, activatable):
        r = self.rng
        ncase = r.choice([1, 2, 2, 3])
        lines = []
        for c in range(ncase):
            q = r.random()
            if q < 0.4:
                cond = self.ev()
            elif q < 0.7:
                cond = self.action()
            else:
                js = self.later(i, n)
                cond = self.call(js[0]) if js else self.ev()
            lines.append(("when " if c == 0 else "or when ") + cond)
            for _ in range(r.choice([1, 1, 2])):
                body = self.simple_stmt(i, n, BODY_KINDS, refs, activatable, in_when=True)
                lines += ["  " + b for b in body]
        return lines

    def flow_body(self, i, n, activatable, immediate):
        r = self.rng
        refs = []
        self.arefs = []
        lines = []
        if i in immediate:
            for _ in range(r.choice([1, 2])):
                lines.append(f"start {self.action()}")
            return lines
        if i in activatable:
            lines.append(f"match {self.ev()}")
        kinds = MAIN_KINDS if i == 0 else FLOW_KINDS
        for _ in range(r.choice([1, 2, 2, 3, 3, 4])):
            lines += self.simple_stmt(i, n, kinds, refs, activatable)
        if i == 0:
            lines.append("match Never()" if r.random() < 0.8 else f"match {self.ev()}")
        elif r.random() < 0.5:
            lines.append(f"match {self.ev()}")
        return lines

    def program(self):
        r = self.rng
        n = r.choice([2, 3, 3, 4, 4, 5])
        activatable = set(j for j in range(1, n + 1) if r.random() < 0.35)
        immediate = set(j for j in activatable if r.random() < 0.25)
        self.with_param = set(j for j in range(1, n + 1) if r.random() < 0.25)
        out = []
        for i in range(0, n + 1):
            name = "main" if i == 0 else (f"f{i} $x" if i in self.with_param else f"f{i}")
            out.append(f"flow {name}")
            out += ["  " + l for l in self.flow_body(i, n, activatable, immediate)]
            out.append("")
        return "\n".join(out)

    def activation_family(self):
        """Activation identity and reference counting: an activated flow f5 with 0-2 defaulted parameters; two or
        three activators pass positional / named / omitted values, equal to or different from the defaults, some
        activate twice; they end on their own events or on the event f5 itself reacts to (once or twice), in any
        order; f5 restarts on Ek between and together with the ends of its activators."""
        r = self.rng
        k = r.randrange(NEV)
        others = [e for e in range(NEV) if e != k]
        self.with_param = set()
        sig, choices = r.choice([
            ("", [""]),
            (" $x", [' "a"', ' "b"', ' $x="a"']),
            (' $x $y="d"', [' "a"', ' "a" "d"', ' "a" "e"', ' "a" $y="d"', ' "a" $y="e"', ' $x="a"', ' "b"', ' $x="a" $y="e"']),
            (' $x $y="d"', [' "a"', ' "a" "e"', ' "a" $y="e"', ' "a" "d"']),
            (' $x="c" $y="d"', ['', ' "c"', ' "c" "d"', ' "a"', ' $y="e"', ' $y="d"', ' "c" "e"', ' $x="c"']),
        ])
        nact = r.choice([2, 2, 3])
        starts = [f"  start f{i}" for i in range(1, nact + 1)]
        r.shuffle(starts)
        out = ["flow main"] + starts + ["  match Never()", ""]
        ends = []
        for i in range(1, nact + 1):
            out += [f"flow f{i}", f"  activate f5{r.choice(choices)}"]
            if r.random() < 0.2:
                out.append(f"  activate f5{r.choice(choices)}")
            e = k if r.random() < 0.35 else r.choice(others)
            ends.append(e)
            out.append(f"  match E{e}()")
            if r.random() < 0.4:
                out.append(f"  match E{e}()")
            out.append("")
        out += [f"flow f5{sig}", f"  match E{k}()"]
        if r.random() < 0.4:
            out.append(f"  start {self.action()}")
        out.append("")
        hist = [["ev", k]] * r.choice([0, 1, 1, 2])
        tail = [["ev", e] for e in ends] + [["ev", e] for e in ends if r.random() < 0.5] + [["ev", k]] * r.choice([1, 2])
        r.shuffle(tail)
        hist = hist + tail + [["ev", k], ["ev", r.choice(others)], ["ev", k]]
        return "\n".join(out), [list(h) for h in hist]

    def queued_family(self):
        """Starts / activations that are still QUEUED when their sender is ended by a sibling within the same
        external event.  g (f2) starts q (f3) and p2 (f4) and ends when q ends (Finished / Failed) or is stopped
        by main on the same event; q and p2 react to the same event Ek; p2 then starts / activates the target
        (f5), which is - or is not - already activated / started by another running flow p1 (f1).  The order in
        which g starts q and p2 (the hierarchy order decides which internal event is processed first) varies."""
        r = self.rng
        k = r.randrange(NEV)
        others = [e for e in range(NEV) if e != k]
        self.with_param = set()
        failed = r.random() < 0.3
        how = r.choice(["wait", "wait", "wait", "stopped_by_main"])
        p2_first = r.random() < 0.25
        verb = r.choice(["activate f5", "activate f5", "start f5", "await f5", "start f5 and f6", "activate f5 and f6"])
        p1 = r.choice(["activate f5", "activate f5", "start f5", None])
        out = ["flow main"]
        if p1:
            out.append("  start f1")
        out.append("  start f2 as $rg")
        if how == "stopped_by_main":
            out += [f"  match E{k}()", "  send $rg.Stop()"]
        out += ["  match Never()", ""]
        if p1:
            out += ["flow f1", f"  {p1}", f"  match E{r.choice(others)}()", ""]
        starts = ["  start f3 as $rq", "  start f4"]
        if p2_first:
            starts.reverse()
        out += ["flow f2"] + starts
        out.append(f"  match $rq.{'Failed' if failed else 'Finished'}()" if how == "wait" else "  match Never()")
        out.append("")
        out += ["flow f3", f"  match E{k}()"] + (["  abort"] if failed else []) + [""]
        out += ["flow f4", f"  match E{k}()", f"  {verb}", f"  match E{r.choice(others)}()", ""]
        out += ["flow f5", f"  match E{r.choice(others)}()"]
        if r.random() < 0.5:
            out.append(f"  start {self.action()}")
        out += ["", "flow f6", f"  match E{r.choice(others)}()", ""]
        hist = [["ev", k]] + [["ev", e] for e in r.sample(others, len(others))] + [["ev", r.randrange(NEV)] for _ in range(2)]
        if r.random() < 0.3:
            hist.insert(r.randrange(1, len(hist)), ["age", 0])
        return "\n".join(out), hist

    def history(self, maxlen):
        """Adaptive items, resolved at run time against the actions seen so far:
        ev k | started i | finished i (any action started so far: before/after its Stop, early, late,
        twice) | late_started i / late_finished i (an action that WAS ALREADY SENT A STOP) | again (the
        previous event once more) | finished_unknown.  Half of the histories end with a sweep over all
        plain events, which ends owners, parents and enclosing scopes after the action events."""
        r = self.rng
        h = []
        n = r.randint(2, maxlen)
        sweep = r.random() < 0.5
        body = max(1, n - (NEV if sweep else 0))
        for _ in range(body):
            q = r.random()
            if q < 0.42:
                h.append(["ev", r.randrange(NEV)])
            elif q < 0.52:
                h.append(["started", r.randrange(4)])
            elif q < 0.72:
                h.append(["finished", r.randrange(4)])
            elif q < 0.80:
                h.append(["late_started", r.randrange(4)])
            elif q < 0.84:
                h.append(["started_after_finished", r.randrange(4)])   # Started for an action whose Finished was delivered
            elif q < 0.89:
                h.append(["late_finished", r.randrange(4)])
            elif q < 0.93:
                h.append(["again", 0])
            elif q < 0.965:
                h.append(["age", 0])     # more than 5 s pass: the next event's clean-up discards old instances
            else:
                h.append(["finished_unknown", 0])
        if r.random() < 0.25:
            h.insert(r.randrange(len(h) + 1), ["age", 0])
        if sweep:
            if r.random() < 0.6:
                h.insert(r.randrange(len(h) + 1), ["late_started", r.randrange(4)])
            order = list(range(NEV))
            r.shuffle(order)
            h += [["ev", k] for k in order]
        return h


FLOW_KINDS = (["match"] * 5 + ["start_flow"] * 3 + ["await_flow"] * 3 + ["activate"] * 3 + ["start_action"] * 4
              + ["await_action"] * 4 + ["group_flow"] * 2 + ["group_action"] * 2 + ["when"] * 4 + ["stop_ref"] * 1
              + ["stop_id"] * 2 + ["abort"] * 1 + ["deactivate"] * 2 + ["stop_action_ref"] * 1 + ["match_ref"] * 3)
MAIN_KINDS = (["match"] * 3 + ["start_flow"] * 5 + ["activate"] * 4 + ["start_action"] * 2 + ["group_flow"] * 2
              + ["when"] * 2 + ["stop_ref"] * 2 + ["stop_id"] * 2 + ["deactivate"] * 2 + ["await_flow"] * 1
              + ["stop_action_ref"] * 1 + ["match_ref"] * 2)
BODY_KINDS = (["match"] * 4 + ["start_flow"] * 2 + ["await_flow"] * 1 + ["start_action"] * 3 + ["await_action"] * 2
              + ["abort"] * 1 + ["stop_ref"] * 1 + ["stop_action_ref"] * 1)


# hand-written shapes that the random grammar reaches rarely (shared actions, scopes, activation)
SEEDS = [
    # shared action, one owner inside a when-scope
    ("flow main\n  start f1\n  start f2\n  match Never()\n\nflow f1\n  match E0()\n  when UtteranceBotAction(script=\"a\")\n    match E1()\n  or when E2()\n    match E3()\n\nflow f2\n  match E0()\n  await UtteranceBotAction(script=\"a\")\n  match E1()\n",
     [["ev", 0], ["ev", 2], ["ev", 3], ["ev", 1]]),
    # shared action, both owners plain
    ("flow main\n  start f1\n  start f2\n  match Never()\n\nflow f1\n  match E0()\n  start UtteranceBotAction(script=\"a\")\n  match E1()\n\nflow f2\n  match E0()\n  start UtteranceBotAction(script=\"a\")\n  match E2()\n",
     [["ev", 0], ["ev", 1], ["started", 0], ["ev", 2]]),
    # parent finishing while child and actions run; late Finished
    ("flow main\n  start f1\n  match Never()\n\nflow f1\n  start f2\n  start TimerBotAction(timer_name=\"t\", duration=1.0)\n  match E0()\n\nflow f2\n  await UtteranceBotAction(script=\"a\")\n  start f3\n  match E1()\n\nflow f3\n  await GestureBotAction(gesture=\"g\")\n",
     [["started", 0], ["ev", 0], ["finished", 0], ["finished", 1]]),
    # two activators of one flow, ending one after the other
    ("flow main\n  start f1\n  start f2\n  match Never()\n\nflow f1\n  activate f3\n  match E0()\n\nflow f2\n  activate f3\n  match E1()\n\nflow f3\n  match E2()\n  start UtteranceBotAction(script=\"b\")\n",
     [["ev", 2], ["ev", 0], ["ev", 2], ["ev", 1], ["ev", 2]]),
    # activated flow that never waits
    ("flow main\n  activate f1\n  start f2\n  match Never()\n\nflow f1\n  start GestureBotAction(gesture=\"g\")\n\nflow f2\n  activate f1\n  match E0()\n",
     [["ev", 0], ["ev", 1], ["finished", 0]]),
    # when with flows in scope
    ("flow main\n  start f1\n  match Never()\n\nflow f1\n  when f2\n    match E3()\n  or when f3\n    match E3()\n  or when E0()\n    start UtteranceBotAction(script=\"a\")\n    match E3()\n\nflow f2\n  await UtteranceBotAction(script=\"b\")\n\nflow f3\n  start TimerBotAction(timer_name=\"t\", duration=1.0)\n  match E1()\n",
     [["ev", 0], ["finished", 0], ["ev", 3]]),
    # explicit `send $action.Stop()`, then the flow ends: the action was already stopped
    ("flow main\n  start f1\n  match Never()\n\nflow f1\n  start UtteranceBotAction(script=\"a\") as $a1\n  start TimerBotAction(timer_name=\"t\", duration=1.0)\n  match E0()\n  send $a1.Stop()\n  match E1()\n",
     [["ev", 0], ["ev", 1]]),
    # DESIGN F4 (property C10): an activated flow that fails before it ever waited.  On a tree without
    # C10's restart guard run_to_completion does not return: skipped under the watchdog and counted.
    ("flow main\n  activate f1\n  start f2\n  match Never()\n\nflow f1\n  start UtteranceBotAction(script=\"a\")\n  abort\n\nflow f2\n  activate f1\n  match E0()\n",
     [["ev", 0], ["ev", 1]]),
    # Started arriving AFTER the Stop of a scope end (status back to STARTED, count 0), then the owner
    # finishes / is stopped by its parent / an enclosing scope ends: no second Stop
    ("flow main\n  start f1\n  match Never()\n\nflow f1\n  when UtteranceBotAction(script=\"a\")\n    match E1()\n  or when E0()\n    match E1()\n  match E2()\n",
     [["ev", 0], ["late_started", 0], ["ev", 1], ["ev", 2]]),
    ("flow main\n  start f1 as $r1\n  match E3()\n  send $r1.Stop()\n  match Never()\n\nflow f1\n  await UtteranceBotAction(script=\"a\") or TimerBotAction(timer_name=\"t\", duration=1.0)\n  match E2()\n",
     [["finished", 1], ["late_started", 0], ["again", 0], ["ev", 3]]),
    ("flow main\n  start f1\n  match Never()\n\nflow f1\n  when f2\n    match E1()\n  or when E3()\n    match E1()\n\nflow f2\n  when GestureBotAction(gesture=\"g\")\n    match E1()\n  or when E0()\n    match E2()\n  match Never()\n",
     [["ev", 0], ["late_started", 0], ["ev", 3], ["ev", 1]]),
    # the activated instance finishes in the same event in which its last activator ends
    ("flow main\n  start f1\n  start f2\n  match Never()\n\nflow f1\n  activate f3\n  match E1()\n\nflow f2\n  activate f3\n  match E0()\n\nflow f3\n  match E0()\n",
     [["ev", 1], ["ev", 0], ["ev", 0]]),
    # two reference instances of one flow (different parameters), each with its own activators
    ("flow main\n  start f1\n  start f2\n  match Never()\n\nflow f1\n  activate f3 \"a\"\n  activate f3 \"b\"\n  match E1()\n\nflow f2\n  activate f3 \"a\"\n  activate f3 \"a\"\n  match E0()\n\nflow f3 $x\n  match E2()\n  start UtteranceBotAction(script=$x)\n",
     [["ev", 2], ["ev", 1], ["ev", 2], ["ev", 0], ["ev", 2]]),
    # AGED state: the first instance of an activated flow has ended and was restarted, > 5 s pass, then the
    # activator ends (the running instance must stop) / the instance ends by itself (must restart)
    ("flow main\n  start f1\n  match Never()\n\nflow f1\n  activate f2\n  match E1()\n\nflow f2\n  match E0()\n  start UtteranceBotAction(script=\"a\")\n",
     [["ev", 0], ["age", 0], ["ev", 3], ["ev", 1], ["ev", 0]]),
    ("flow main\n  start f1\n  match Never()\n\nflow f1\n  activate f2\n  match E1()\n\nflow f2\n  match E0()\n",
     [["ev", 0], ["age", 0], ["ev", 0], ["age", 0], ["ev", 0], ["ev", 1], ["ev", 0]]),
    # AGED: two activators, the first (the parent of the reference instance) ended long ago
    ("flow main\n  start f1\n  start f2\n  match Never()\n\nflow f1\n  activate f3\n  match E1()\n\nflow f2\n  activate f3\n  match E2()\n\nflow f3\n  match E0()\n",
     [["ev", 1], ["age", 0], ["ev", 0], ["age", 0], ["ev", 3], ["ev", 2], ["ev", 0]]),
    # AGED parent/child family: the child of a flow that ended long ago, grandchildren
    ("flow main\n  start f1\n  match Never()\n\nflow f1\n  start f2\n  await f3\n  match E1()\n\nflow f2\n  start f3\n  match E2()\n\nflow f3\n  match E0()\n  await UtteranceBotAction(script=\"b\")\n",
     [["ev", 0], ["age", 0], ["ev", 3], ["ev", 2], ["age", 0], ["ev", 3], ["ev", 1]]),
    # A start / activation QUEUED by a flow that is ended by a sibling within the same event: f2 waits for f3 to
    # finish; f3 (earlier in the hierarchy) and f4 both react to E0; f4's `activate f5` / `start f5` is still queued
    # when FlowFinished(f3) ends f2 and stops f4.  f5 is already activated by the running f1 / not activated.
    ("flow main\n  start f1\n  start f2\n  match Never()\n\nflow f1\n  activate f5\n  match E2()\n\nflow f2\n  start f3 as $r1\n  start f4\n  match $r1.Finished()\n\nflow f3\n  match E0()\n\nflow f4\n  match E0()\n  activate f5\n  match E1()\n\nflow f5\n  match E3()\n  start UtteranceBotAction(script=\"a\")\n",
     [["ev", 0], ["ev", 3], ["ev", 2], ["ev", 3]]),
    ("flow main\n  start f2\n  match Never()\n\nflow f2\n  start f3 as $r1\n  start f4\n  match $r1.Finished()\n\nflow f3\n  match E0()\n\nflow f4\n  match E0()\n  activate f5\n  match E1()\n\nflow f5\n  match E3()\n  start UtteranceBotAction(script=\"a\")\n",
     [["ev", 0], ["ev", 3], ["ev", 3]]),
    ("flow main\n  start f1\n  start f2\n  match Never()\n\nflow f1\n  activate f5\n  match E2()\n\nflow f2\n  start f3 as $r1\n  start f4\n  match $r1.Failed()\n\nflow f3\n  match E0()\n  abort\n\nflow f4\n  match E0()\n  start f5\n  activate f5\n  match E1()\n\nflow f5\n  match E3()\n",
     [["ev", 0], ["ev", 3], ["ev", 2], ["ev", 3]]),
    ("flow main\n  start f1\n  start f3 as $r1\n  start f4\n  match E1()\n  send $r1.Stop()\n  match Never()\n\nflow f1\n  activate f5\n  match E2()\n\nflow f3\n  start f4 as $r2\n  match E0()\n  send $r2.Stop()\n\nflow f4\n  match E0()\n  activate f5\n  match E1()\n\nflow f5\n  match E3()\n",
     [["ev", 0], ["ev", 3], ["ev", 2], ["ev", 3]]),
    # Finished arriving EARLY, then a delayed Started of the same (finished) action, then the owner ends /
    # its scope ends: no Stop for a finished action
    ("flow main\n  start f1\n  match Never()\n\nflow f1\n  start UtteranceBotAction(script=\"a\")\n  when TimerBotAction(timer_name=\"t\", duration=1.0)\n    match E1()\n  or when E0()\n    match E1()\n  match E2()\n",
     [["finished", 0], ["started_after_finished", 0], ["finished", 1], ["started_after_finished", 1], ["ev", 0], ["ev", 1], ["ev", 2]]),
    # activation identity: a defaulted parameter given explicitly (non-default) by one activator, omitted by the other
    ("flow main\n  start f1\n  start f2\n  match Never()\n\nflow f1\n  activate f5 \"a\" \"e\"\n  match E1()\n\nflow f2\n  activate f5 \"a\"\n  match E2()\n\nflow f5 $x $y=\"d\"\n  match E0()\n",
     [["ev", 0], ["ev", 1], ["ev", 0], ["ev", 2], ["ev", 0]]),
    # restarted once, first activator (parent of the reference instance) ended, then ONE event ends the current
    # instance and the last activator
    ("flow main\n  start f1\n  start f2\n  match Never()\n\nflow f1\n  activate f5\n  match E1()\n\nflow f2\n  activate f5\n  match E0()\n  match E0()\n\nflow f5\n  match E0()\n",
     [["ev", 0], ["ev", 1], ["ev", 0], ["ev", 0], ["ev", 0]]),
    # ... or is stopped by its parent
    ("flow main\n  start f1 as $r1\n  match E1()\n  send $r1.Stop()\n  match Never()\n\nflow f1\n  start UtteranceBotAction(script=\"a\") as $a1\n  start f2\n  match E0()\n  send $a1.Stop()\n  match Never()\n\nflow f2\n  await GestureBotAction(gesture=\"g\")\n",
     [["ev", 0], ["ev", 1], ["finished", 0]]),
    ("flow main\n  start f1\n  match Never()\n\nflow f1\n  when f2\n    match E3()\n  or when f3\n    match E3()\n\nflow f2\n  await UtteranceBotAction(script=\"b\")\n\nflow f3\n  start TimerBotAction(timer_name=\"t\", duration=1.0)\n  match E1()\n",
     [["ev", 1], ["finished", 0], ["ev", 3]]),
]


# =======================================================================================
# worker: runs inside a child process (under `timeout`), drives the real interpreter


def _kind_of(name):
    """Same substring tests, in the same order, as Action.process_event."""
    if "Action" not in name:
        return "KOther"
    if "ActionStarted" in name:
        return "KStarted"
    if "ActionUpdated" in name:
        return "KUpdated"
    if "ActionFinished" in name:
        return "KFinished"
    if "Start" in name:
        return "KStart"
    if "Stop" in name:
        return "KStop"
    return "KOther"


def _params_match(sm, state, inst, event):
    """Independent re-statement of the parameter comparison of _get_reference_activated_flow_instance:
    every declared parameter of the flow has, in the instance, the value the event gives it (by name,
    by position, or - when the event gives none - the declared default)."""
    cfg = state.flow_configs[inst.flow_id]
    args = event.arguments
    for idx, prm in enumerate(cfg.parameters):
        if prm.name not in inst.arguments:
            return False
        val = inst.arguments[prm.name]
        ok = False
        if prm.name in args and val == args[prm.name]:
            ok = True
        if f"${idx}" in args and val == args[f"${idx}"]:
            ok = True
        if prm.name not in args and f"${idx}" not in args and prm.default_value_expr is not None:
            from nemoguardrails.colang.v2_x.runtime.eval import eval_expression

            if val == eval_expression(prm.default_value_expr, {}):
                ok = True
        if not ok:
            return False
    return True


def _bound_values(state, fid, args):
    """Independent re-statement of how a flow call binds its parameters (create_flow_instance): positional
    `$i`, else by name, else the declared default, else None."""
    from nemoguardrails.colang.v2_x.runtime.eval import eval_expression

    out = []
    for idx, prm in enumerate(state.flow_configs[fid].parameters):
        if f"${idx}" in args:
            out.append(args[f"${idx}"])
        elif prm.name in args:
            out.append(args[prm.name])
        elif prm.default_value_expr is not None:
            out.append(eval_expression(prm.default_value_expr, {}))
        else:
            out.append(None)
    return out


class Clock:
    """Controllable clock substituted for `datetime` in statemachine.py / flows.py (only .now() is used
    there): real time plus an offset that the history advances (`age` items)."""
    offset = 0.0

    @staticmethod
    def now(*a, **k):
        import datetime as _dt

        return _dt.datetime.now(*a, **k) + _dt.timedelta(seconds=Clock.offset)


class Recorder:
    """Installs the wrappers/hooks on the statemachine module and records snapshot cases."""

    def __init__(self, sm, fl):
        self.sm = sm
        self.fl = fl
        self.depth = 0
        self.open = []        # records being filled (innermost last)
        self.explicit_stops = set()  # Stop events sent by a `send $action.Stop()` statement
        self.explicit_deactivated = set()  # flow ids named by an explicit deactivate statement
        self.hyp = []                      # violated hypotheses of the activation theorems
        self.activations = []              # [activator uid, flow id, bound parameter values] of `activate` statements
        self.main_finished = False
        self.stack = []       # uids of the flows whose _abort_flow/_finish_flow is executing
        self.cases = []
        self.released = set() # (flow uid, action uid) released by an EndScope   (oracle ledger)
        self.guard_pending = None
        self.guards = []
        self.unsupported = 0
        self.install()

    # ---- snapshots
    def snap(self, state):
        flows = []
        for uid, f in state.flow_states.items():
            flows.append([uid, f.flow_id, f.status.name, f.parent_uid, list(f.child_flow_uids), list(f.action_uids),
                          [[k, list(v[0]), list(v[1])] for k, v in f.scopes.items()],
                          int(f.activated), bool(f.new_instance_started)])
        acts = [[uid, a.status.name, int(a.flow_scope_count)] for uid, a in state.actions.items()]
        return {"flows": flows, "acts": acts}

    def begin(self, state, op):
        """Every real call is recorded (nested calls too): a stack of open records."""
        self.depth += 1
        rec = {"op": op, "pre": self.snap(state), "emit": [], "depth": self.depth}
        self.open.append(rec)
        return rec

    def end(self, state, rec, exc=None):
        self.depth -= 1
        top = self.open.pop()
        assert top is rec
        if exc is not None:
            rec["exc"] = type(exc).__name__
        else:
            rec["post"] = self.snap(state)
        self.cases.append(rec)

    def emit(self, item):
        for rec in self.open:
            rec["emit"].append(item)

    # ---- installation
    def install(self):
        sm = self.sm
        rec = self
        orig_abort, orig_finish = sm._abort_flow, sm._finish_flow
        orig_push, orig_pushl, orig_umim = sm._push_internal_event, sm._push_left_internal_event, sm._generate_umim_event
        orig_upd = sm._update_action_status_by_event

        def mk(orig, opname):
            def wrapper(state, flow_state, matching_scores, deactivate_flow=False, *args, **kwargs):
                # tolerant of the optional `restart_flow` keyword of _abort_flow (default True)
                restart = kwargs.get("restart_flow", args[0] if args else True)
                extra = [k for k in kwargs if k != "restart_flow"] or (["positional"] if len(args) > 1 else [])
                op = [opname if restart else opname + "_norestart", flow_state.uid, bool(deactivate_flow)]
                if extra or (not restart and opname != "abort"):
                    op = ["unmodelled:" + opname + ":" + ",".join(extra), flow_state.uid, bool(deactivate_flow)]
                if opname == "finish" and flow_state.flow_id == "main":
                    rec.main_finished = True
                r0 = rec.begin(state, op)
                rec.stack.append(flow_state.uid)
                try:
                    r = orig(state, flow_state, matching_scores, deactivate_flow, *args, **kwargs)
                except BaseException as e:
                    rec.stack.pop()
                    rec.end(state, r0, e)
                    raise
                rec.stack.pop()
                rec.end(state, r0)
                return r
            return wrapper

        def abort_kw(state, flow_state, matching_scores, deactivate_flow=False, *args, **kwargs):
            return wrapped_abort(state, flow_state, matching_scores, deactivate_flow, *args, **kwargs)

        wrapped_abort = mk(orig_abort, "abort")
        sm._abort_flow = abort_kw
        sm._finish_flow = mk(orig_finish, "finish")

        def push(state, event):
            if rec.open:
                if event.name == "FlowFailed":
                    rec.emit(["failed", event.arguments.get("source_flow_instance_uid")])
                elif event.name == "FlowFinished":
                    rec.emit(["finished", event.arguments.get("source_flow_instance_uid")])
                elif event.name == "FlowStarted" and rec.open[-1]["op"][0] == "startproc":
                    rec.emit(["started", event.arguments.get("source_flow_instance_uid")])
                else:
                    rec.emit(["other", "push:" + event.name])
            if rec.guard_pending is not None and event.name == "FlowStarted":
                rec.guard_pending["pushed"] = True
            return orig_push(state, event)

        def pushl(state, event):
            if rec.open:
                if event.name == "StartFlow" and rec.stack:
                    a = event.arguments.get("activated")
                    rec.emit(["restart", rec.stack[-1], event.arguments.get("source_flow_instance_uid"),
                              int(a) if isinstance(a, (int, bool)) else -999])
                else:
                    rec.emit(["other", "pushleft:" + event.name])
            return orig_pushl(state, event)

        def umim(state, event):
            is_stop = isinstance(event, rec.fl.ActionEvent) and event.name.startswith("Stop") and event.action_uid
            explicit = False
            if rec.open:
                if is_stop:
                    rec.emit(["stop", event.action_uid])
                else:
                    rec.emit(["other", "umim:" + event.name])
            elif is_stop:
                explicit = True
            r = orig_umim(state, event)
            if explicit and isinstance(r, dict) and r.get("uid"):
                rec.explicit_stops.add(r["uid"])   # a `send $action.Stop()` statement of a running flow
            return r

        def upd(state, event):
            uid = getattr(event, "action_uid", None)
            # inside a lifetime operation the Stop status update is part of that operation
            inside = bool(rec.open)
            r0 = None if inside else rec.begin(state, ["event", _kind_of(event.name), uid if uid is not None else "<none>"])
            try:
                r = orig_upd(state, event)
            except BaseException as e:
                if r0 is not None:
                    rec.end(state, r0, e)
                raise
            if r0 is not None:
                rec.end(state, r0)
            return r

        orig_proc = sm._process_internal_events_without_default_matchers

        def proc(state, event):
            # an explicit `deactivate X` / StopFlow(.., deactivate=True) statement: the property speaks about
            # activators that END, so the "must be restarted" rule is not applied to X afterwards
            if event.name in ("StopFlow", "FinishFlow") and event.arguments.get("deactivate") and event.arguments.get("flow_id"):
                rec.explicit_deactivated.add(event.arguments["flow_id"])
            r0 = None
            if event.name == "StartFlow" and event.arguments.get("flow_id") in state.flow_configs and not rec.open:
                a = event.arguments.get("activated")
                a = 0 if not a else (1 if a is True else int(a))
                fid = event.arguments["flow_id"]
                matching = [u for u, f in state.flow_states.items() if f.flow_id == fid and _params_match(rec.sm, state, f, event)]
                new_uid = event.arguments.get("flow_instance_uid", "<none>")
                existed = new_uid in state.flow_states
                r0 = rec.begin(state, ["startproc", fid, new_uid, event.arguments.get("source_flow_instance_uid"), a, matching])
                # hypotheses of C06_activation_count / C06_activation on real StartFlow events
                src = state.flow_states.get(event.arguments.get("source_flow_instance_uid"))
                if a and src is not None and src.flow_id != fid and src.status.name in ("STARTED", "STARTING"):
                    # an `activate` statement of a running flow: identity of the activation = flow id + the tuple
                    # of BOUND parameter values (positional, else named, else the declared default)
                    rec.activations.append([src.uid, fid, _bound_values(state, fid, event.arguments)])
                if src is not None and src.flow_id != fid and a not in (0, 1):
                    rec.hyp.append("ev_wf: start by another flow with marker %r" % a)
                if new_uid in state.flow_states:
                    rec.hyp.append("fresh: uid of the new instance already exists")
                if (src is not None and src.flow_id == fid and a != 0 and src.activated != 0 and src.parent_uid in state.flow_states
                        and state.flow_states[src.parent_uid].flow_id != fid and src.uid not in matching):
                    rec.hyp.append("pm: the restart of a reference instance does not carry its own parameters")
            try:
                r = orig_proc(state, event)
            except BaseException as e:
                if r0 is not None:
                    rec.end(state, r0, e)
                raise
            if r0 is not None:
                created = (new_uid in state.flow_states) and not existed
                r0["eff_src"] = event.arguments.get("source_flow_instance_uid") if created else None
                rec.end(state, r0)
            return r

        orig_cleanup = sm._clean_up_state

        def cleanup(state):
            import datetime as _dt

            now = Clock.now()
            aged = [u for u, f in state.flow_states.items() if (now - f.status_updated) > _dt.timedelta(seconds=5)]
            before = (list(state.flow_states), list(state.actions))
            r0 = rec.begin(state, ["cleanup", aged])
            try:
                r = orig_cleanup(state)
            except BaseException as e:
                rec.end(state, r0, e)
                raise
            rec.end(state, r0)
            if (list(state.flow_states), list(state.actions)) == before:
                rec.cases.pop()      # nothing discarded, nothing reordered: not a case
            return r

        sm._clean_up_state = cleanup
        orig_start = sm._start_flow

        def start_flow(state, flow_state, event_arguments):
            a = event_arguments.get("activated", 0)
            a = 0 if not a else (1 if a is True else int(a))
            src = event_arguments.get("source_flow_instance_uid")
            r0 = None if rec.open else rec.begin(state, ["startlink", flow_state.uid, src if src is not None else "<none>", a])
            try:
                r = orig_start(state, flow_state, event_arguments)
            except BaseException as e:
                if r0 is not None:
                    rec.end(state, r0, e)
                raise
            if r0 is not None:
                rec.end(state, r0)
            return r

        sm._start_flow = start_flow
        sm._process_internal_events_without_default_matchers = proc
        sm._push_internal_event = push
        sm._push_left_internal_event = pushl
        sm._generate_umim_event = umim
        sm._update_action_status_by_event = upd
        sm.__dict__["__c06_hook"] = self.hook
        self.rewrite_slide()
        self.rewrite_advance()

    # ---- AST hooks
    def hook(self, what, state, flow_state, *args):
        if what == "es_pre":
            element = args[0]
            self._es_outer = self.begin(state, ["endscope", flow_state.uid, element.name])
            self._es_open = True
            sc = flow_state.scopes.get(element.name)
            if sc is not None:
                for a in sc[1]:
                    self.released.add((flow_state.uid, a))
        elif what == "es_post":
            self._es_open = False
            self.end(state, self._es_outer)
        elif what == "g_pre":
            fin, waiting = args
            self.guard_pending = {"uid": flow_state.uid, "pre": [flow_state.status.name, int(flow_state.activated), bool(fin), bool(waiting)],
                                  "pushed": False}
        elif what == "g_post":
            fin, aborted = args
            g = self.guard_pending
            self.guard_pending = None
            if g is not None and g["uid"] == flow_state.uid and not aborted:
                self.guards.append([g["pre"], [flow_state.status.name, g["pushed"], bool(fin)]])

    def _recompile(self, fn, transform):
        import ast
        import inspect
        import textwrap

        src = textwrap.dedent(inspect.getsource(fn))
        tree = ast.parse(src)
        transform(ast, tree)
        ast.fix_missing_locations(tree)
        code = compile(tree, self.sm.__file__, "exec")
        exec(code, self.sm.__dict__)

    @staticmethod
    def _hook_call(ast, what, names):
        return ast.Expr(ast.Call(func=ast.Subscript(value=ast.Call(func=ast.Name("globals", ast.Load()), args=[], keywords=[]),
                                                    slice=ast.Constant("__c06_hook"), ctx=ast.Load()),
                                 args=[ast.Constant(what)] + [ast.Name(n, ast.Load()) for n in names], keywords=[]))

    def rewrite_slide(self):
        rec = self

        def transform(ast, tree):
            found = []
            for node in ast.walk(tree):
                if isinstance(node, ast.If):
                    t = node.test
                    if (isinstance(t, ast.Call) and isinstance(t.func, ast.Name) and t.func.id == "isinstance"
                            and len(t.args) == 2 and isinstance(t.args[0], ast.Name) and t.args[0].id == "element"
                            and isinstance(t.args[1], ast.Name) and t.args[1].id == "EndScope"):
                        found.append(node)
            if len(found) != 1:
                raise RuntimeError(f"slide: expected exactly one `isinstance(element, EndScope)` branch, found {len(found)}")
            node = found[0]
            node.body = ([rec._hook_call(ast, "es_pre", ["state", "flow_state", "element"])] + node.body
                         + [rec._hook_call(ast, "es_post", ["state", "flow_state", "element"])])

        self._es_open = False
        self._recompile(self.sm.slide, transform)
        new_slide = self.sm.slide

        def slide(state, flow_state, flow_config, head):
            try:
                return new_slide(state, flow_state, flow_config, head)
            except BaseException as e:
                if rec._es_open:
                    rec._es_open = False
                    rec.end(state, rec._es_outer, e)
                raise

        self.sm.slide = slide

    def rewrite_advance(self):
        rec = self

        def transform(ast, tree):
            pre_done = post_done = 0

            def visit(body):
                nonlocal pre_done, post_done
                i = 0
                while i < len(body):
                    node = body[i]
                    if isinstance(node, ast.If):
                        t = node.test
                        if (isinstance(t, ast.BoolOp) and isinstance(t.op, ast.Or) and len(t.values) == 2
                                and all(isinstance(v, ast.Name) for v in t.values)
                                and [v.id for v in t.values] == ["flow_finished", "all_heads_are_waiting"]):
                            body.insert(i, rec._hook_call(ast, "g_pre", ["state", "flow_state", "flow_finished", "all_heads_are_waiting"]))
                            pre_done += 1
                            i += 1
                        elif (isinstance(t, ast.Name) and t.id == "flow_finished" and node.body
                              and "_finish_flow" in ast.dump(node.body[0])):
                            body.insert(i, rec._hook_call(ast, "g_post", ["state", "flow_state", "flow_finished", "flow_aborted"]))
                            post_done += 1
                            i += 1
                    for fld in ("body", "orelse", "finalbody"):
                        sub = getattr(node, fld, None)
                        if isinstance(sub, list):
                            visit(sub)
                    if isinstance(node, ast.Try):
                        for h in node.handlers:
                            visit(h.body)
                    i += 1

            visit(tree.body)
            if pre_done != 1 or post_done != 1:
                raise RuntimeError(f"_advance_head_front: guard statements not found ({pre_done},{post_done})")

        self._recompile(self.sm._advance_head_front, transform)


def _listening(f):
    return f.status.name in ("WAITING", "STARTED", "STARTING")


def _running(f):
    """started and not ended (the main flow goes back to WAITING when it finishes)"""
    return f.status.name in ("STARTED", "STARTING")


class Oracle:
    """The property text, evaluated on what the implementation emits and on the flow statuses."""

    def __init__(self, rec):
        self.rec = rec
        self.started = []        # action uids in order of their Start event
        self.start_name = {}
        self.finished_delivered = set()
        self.stops = {}
        self.only_explicit = set()   # actions whose only Stop so far was an explicit `send $action.Stop()`
        self.inv_viol = []
        self.inv_checked = 0
        self.viol = []

    def before_event(self, ev, state=None):
        if ev.get("type", "").endswith("ActionFinished") and ev.get("action_uid"):
            self.finished_delivered.add(ev["action_uid"])
        if ev.get("type", "").endswith("ActionStarted") and ev.get("action_uid") in self.only_explicit:
            # the program stopped the action itself (`send $action.Stop()`, which leaves the flow's share
            # untouched) and the action now reports that it runs: the lifetime layer owes it a Stop
            # when its owners end, so the explicit Stop no longer counts as "the" Stop
            a = ev["action_uid"]
            held = state is not None and any(
                _running(f) and a in f.action_uids and (u, a) not in self.rec.released for u, f in state.flow_states.items())
            if held:   # (with no running owner left the explicit Stop stays the action's Stop)
                self.only_explicit.discard(a)
                self.stops[a] = 0

    def after_step(self, state, step):
        V = self.viol
        stopped_now = []
        for e in state.outgoing_events:
            t = e.get("type", "")
            a = e.get("action_uid")
            if t.startswith("Start") and t.endswith("Action") and a:
                if a not in self.start_name:
                    self.started.append(a)
                    self.start_name[a] = t[5:]
            elif t.startswith("Stop") and t.endswith("Action") and a:
                if e.get("uid") in self.rec.explicit_stops:
                    # requested by the program itself; it counts as the action's Stop
                    if self.stops.get(a, 0) == 0:
                        self.only_explicit.add(a)
                    self.stops[a] = max(self.stops.get(a, 0), 1)
                    continue
                self.only_explicit.discard(a)
                if a not in self.start_name:
                    V.append(("stop-for-never-started-action", step, f"{t} for action {a} that was never started", e))
                elif a in self.finished_delivered:
                    V.append(("stop-after-finished", step, f"{t} for action {a} whose Finished event was already delivered", e))
                elif self.stops.get(a, 0) >= 1:
                    V.append(("second-stop", step, f"second {t} for action {a}", e))
                self.stops[a] = self.stops.get(a, 0) + 1
                stopped_now.append((a, e))
        fs = state.flow_states
        # (2) owners: listening flows that hold the action and did not release it by a scope end
        owners = {}
        for uid, f in fs.items():
            if _running(f):
                for a in f.action_uids:
                    if (uid, a) not in self.rec.released:
                        owners.setdefault(a, []).append(uid)
        for a, e in stopped_now:
            if owners.get(a):
                V.append(("stop-while-shared-with-running-flow", step,
                          f"{e.get('type')} for action {a} although running flow(s) {[fs[u].flow_id for u in owners[a]]} still use it", e))
        for a in self.started:
            if a not in self.finished_delivered and self.stops.get(a, 0) == 0 and not owners.get(a):
                act = state.actions.get(a)
                if act is not None and act.status.name == "FINISHED":
                    continue
                V.append(("missing-stop", step, f"action {a} ({self.start_name[a]}) is unfinished, every flow that used it has ended, and no Stop was sent",
                          {"action_uid": a}))
                self.stops[a] = -1000  # report once
        # (1) orphans: a listening instance started by a flow that is no longer listening
        for uid, f in fs.items():
            if _listening(f) and f.activated == 0 and f.parent_uid and f.parent_uid in fs:
                p = fs[f.parent_uid]
                if not _running(p):
                    V.append(("child-outlives-parent", step,
                              f"instance of `{f.flow_id}` is {f.status.name} although the flow `{p.flow_id}` that started it is {p.status.name}",
                              {"child": uid, "parent": f.parent_uid}))
        # the counting invariant of C06_activation_count on the real state (runs without an explicit
        # deactivation and in which the main flow did not finish, as in the theorem)
        if not self.rec.explicit_deactivated and not self.rec.main_finished:
            live = ("WAITING", "STARTING", "STARTED", "STOPPING")
            for uid, f in fs.items():
                if f.activated != 0 and f.parent_uid in fs and fs[f.parent_uid].flow_id != f.flow_id:
                    n = sum(x.child_flow_uids.count(uid) for x in fs.values() if x.status.name in live)
                    if n != f.activated:
                        self.inv_viol.append([step, f"reference instance of `{f.flow_id}`: activated={f.activated} but {n} entries of live instances"])
            self.inv_checked += 1
        # a running instance whose parent link points to a DISCARDED instance: nothing bounds its lifetime
        # any more (the clean-up of old instances removed the only link to its starter / its activators)
        for uid, f in fs.items():
            if _listening(f) and f.parent_uid and f.parent_uid not in fs:
                V.append(("running-instance-lost-its-parent-link", step,
                          f"instance of `{f.flow_id}` is {f.status.name} (activated={f.activated}) but its parent instance {f.parent_uid.split(')')[0]}) was discarded by the state clean-up",
                          {"instance": uid, "parent": f.parent_uid}))
        # (3'') activation identity = flow + bound parameter values (defaults included): while the activator that
        #       executed `activate X <args>` runs, an instance of X with exactly those values is running
        if not self.rec.main_finished:
            for act_uid, fid, bound in self.rec.activations:
                p = fs.get(act_uid)
                if p is None or not _running(p) or fid in self.rec.explicit_deactivated:
                    continue
                names = [prm.name for prm in state.flow_configs[fid].parameters]
                ok = any(_listening(g) and g.flow_id == fid and [g.arguments.get(n) for n in names] == bound for g in fs.values())
                if not ok:
                    V.append(("activation-has-no-running-instance", step,
                              f"`{p.flow_id}` is running and activated `{fid}` with parameter values {bound}, but no instance of `{fid}` with these values is running",
                              {"activator": act_uid, "flow": fid, "bound": [repr(b) for b in bound]}))
                    break
        # (3') a running restarted instance (child of an instance of the same flow) needs a reference
        #      instance that is still activated by a running flow
        for uid, f in fs.items():
            if _listening(f) and f.activated > 0 and f.parent_uid and f.parent_uid in fs and fs[f.parent_uid].flow_id == f.flow_id:
                ref = fs[f.parent_uid]
                n = sum(p.child_flow_uids.count(f.parent_uid) for p in fs.values() if _running(p))
                if ref.activated == 0 or n == 0:
                    V.append(("activated-flow-outlives-last-activator", step,
                              f"restarted instance of activated flow `{f.flow_id}` is {f.status.name} although no running flow holds an activation "
                              f"(reference instance: activated={ref.activated}, {n} running activator(s))",
                              {"instance": uid, "reference_instance": f.parent_uid}))
        # (3) activation
        for uid, f in fs.items():
            if f.activated > 0 and f.parent_uid and f.parent_uid in fs and fs[f.parent_uid].flow_id != f.flow_id:
                n = sum(p.child_flow_uids.count(uid) for p in fs.values() if _running(p))
                family = [uid] + [u for u, g in fs.items() if g.parent_uid == uid and g.flow_id == f.flow_id]
                live = [u for u in family if _listening(fs[u])]
                if n == 0 and live:
                    V.append(("activated-flow-outlives-last-activator", step,
                              f"activated flow `{f.flow_id}` still has a running instance although no flow that activated it is running",
                              {"reference_instance": uid}))
                elif n > 0 and len(live) == 0 and f.flow_id not in self.rec.explicit_deactivated:
                    V.append(("activated-flow-not-restarted", step,
                              f"activated flow `{f.flow_id}` has no running instance although {n} activation(s) are held by running flows",
                              {"reference_instance": uid}))
                elif n > 0 and len(live) > 1:
                    V.append(("activated-flow-runs-twice", step,
                              f"activated flow `{f.flow_id}` has {len(live)} running instances", {"reference_instance": uid}))


def run_one(sm, fl, U, src, history, policy):
    """One program, one history, one tie-break policy.  Returns a JSON-able result."""
    import random as pyrandom

    rnd = pyrandom.Random(policy)
    if policy == 0:
        choice = lambda l: l[0]
    elif policy == 1:
        choice = lambda l: l[-1]
    else:
        choice = lambda l: l[rnd.randrange(len(l))]
    sm.random.choice = choice
    rec = RECORDER
    rec.cases, rec.guards, rec.released = [], [], set()
    rec.depth, rec.open, rec.stack, rec.guard_pending = 0, [], [], None
    rec.explicit_stops = set()
    rec.explicit_deactivated = set()
    rec.hyp = []
    rec.activations = []
    rec.main_finished = False
    rec._es_open = False
    res = {"cases": [], "guards": [], "viol": [], "steps": 0, "error": None, "stats": {}}
    try:
        state = U.init_state(src)
    except Exception as e:
        res["error"] = "parse:" + type(e).__name__ + ":" + str(e)[:200]
        return res
    orc = Oracle(rec)
    step = 0
    events_fed = []
    try:
        state = U.start_main(state)
        orc.after_step(state, step)
        prev_ev = None
        for item in history:
            step += 1
            stopped = [a for a in orc.started if orc.stops.get(a, 0) > 0 and a not in orc.finished_delivered]
            if item[0] == "age":
                Clock.offset += 6.0
                step -= 1
                continue
            if item[0] == "again" and prev_ev is not None:
                ev = dict(prev_ev)
            elif item[0] == "finished_unknown":
                ev = {"type": "UtteranceBotActionFinished", "action_uid": "unknown-uid", "is_success": True}
            elif item[0] == "started_after_finished" and orc.finished_delivered:
                fins = [a for a in orc.started if a in orc.finished_delivered]
                if fins:
                    a = fins[item[1] % len(fins)]
                    ev = {"type": orc.start_name[a] + "Started", "action_uid": a}
                else:
                    ev = {"type": f"E{item[1] % NEV}"}
            elif item[0] in ("late_started", "late_finished") and stopped:
                a = stopped[item[1] % len(stopped)]
                suffix = "Started" if item[0] == "late_started" else "Finished"
                ev = {"type": orc.start_name[a] + suffix, "action_uid": a}
                if suffix == "Finished":
                    ev["is_success"] = True
            elif item[0] in ("started", "finished") and orc.started:
                a = orc.started[item[1] % len(orc.started)]
                suffix = "Started" if item[0] == "started" else "Finished"
                ev = {"type": orc.start_name[a] + suffix, "action_uid": a}
                if suffix == "Finished":
                    ev["is_success"] = True
            else:
                ev = {"type": f"E{item[1] % NEV}"}
            prev_ev = ev
            events_fed.append(ev)
            orc.before_event(ev, state)
            state = U.step(state, dict(ev))
            orc.after_step(state, step)
    except sm.__dict__.get("VerifStepBudgetExceeded", ()) as e:  # the C10 hook, when the tree has it
        res["error"] = "hang:step-budget"
    except Exception as e:
        res["error"] = "exception:" + type(e).__name__ + ":" + str(e)[:300]
        # an exception that escapes run_to_completion THROUGH one of the lifetime operations means that the
        # operation did not do its job (children / activated instances are left running): a C06 finding
        raised = [c for c in rec.cases if "exc" in c]
        if raised:
            c = raised[-1]
            orc.viol.append(("lifetime-operation-raises:" + c["op"][0] + ":" + c["exc"], step,
                             f"{type(e).__name__} {str(e)[:120]} raised by the lifetime operation `{c['op'][0]}` escapes run_to_completion; "
                             "the flows it had to stop keep running", {"op": c["op"][:3], "exception": c["exc"]}))
    res["steps"] = step
    res["cases"] = rec.cases
    res["guards"] = rec.guards
    res["events"] = events_fed
    res["viol"] = [[sig, st, what, detail] for sig, st, what, detail in orc.viol]
    res["inv_viol"] = orc.inv_viol
    res["inv_checked"] = orc.inv_checked
    res["hyp"] = list(rec.hyp)
    nshared = sum(1 for a in state.actions.values() if a.flow_scope_count >= 2) if res["error"] is None else 0
    res["stats"] = {"instances": len(state.flow_states), "actions": len(orc.started), "stops": sum(1 for v in orc.stops.values() if v > 0),
                    "shared_now": nshared}
    return res


RECORDER = None


def worker_main(infile, outfile):
    global RECORDER
    import logging

    logging.disable(logging.CRITICAL)
    sys.path.insert(0, C.VERIF)
    sys.path.insert(1, C.REPO)
    from nemoguardrails.colang.v2_x.runtime import statemachine as sm
    from nemoguardrails.colang.v2_x.runtime import flows as fl
    from harness import v2util as U

    jobs = json.load(open(infile))
    sm.datetime = Clock
    fl.datetime = Clock
    with open(outfile, "a") as out:
        try:
            RECORDER = Recorder(sm, fl)
        except Exception as e:
            out.write(json.dumps({"fatal": "hooks:" + repr(e)}) + "\n")
            return 3
        done = set()
        if os.path.exists(outfile):
            for line in open(outfile):
                try:
                    done.add(json.loads(line).get("job"))
                except Exception:
                    pass
        for job in jobs:
            if job["job"] in done:
                continue
            out.write(json.dumps({"job": job["job"], "begin": True, "t0": time.time()}) + "\n")
            out.flush()
            t0 = time.time()
            r = run_one(sm, fl, U, job["src"], job["history"], job["policy"])
            r["job"] = job["job"]
            r["t"] = round(time.time() - t0, 3)
            out.write(json.dumps(r) + "\n")
            out.flush()
    return 0


# =======================================================================================
# main process


def run_jobs(jobs, tag, per_job_timeout=30):
    """Run jobs in NPROC child processes under `timeout`; a job that hangs is skipped (it belongs
    to C10) and the worker is restarted behind it.  Returns {job id: result}."""
    from concurrent.futures import ThreadPoolExecutor

    d = os.path.join(C.BUILD, "c06", tag)
    import shutil

    shutil.rmtree(d, ignore_errors=True)
    os.makedirs(d)
    nshard = min(C.NPROC, max(1, len(jobs)))
    shards = [jobs[i::nshard] for i in range(nshard)]
    env = C.impl_env()
    env["NEMO_GUARDRAILS_VERIF_MAX_STEPS"] = "20000"

    def one(k):
        import subprocess

        infile = os.path.join(d, f"in_{k}.json")
        outfile = os.path.join(d, f"out_{k}.jsonl")
        json.dump(shards[k], open(infile, "w"))
        results, hung = {}, []
        full_env = dict(os.environ)
        full_env.update(env)
        for attempt in range(len(shards[k]) + 2):
            p = subprocess.Popen(["timeout", "-k", "5", str(120 + per_job_timeout * len(shards[k])), C.PY, HERE, "--worker", infile, outfile],
                                 env=full_env, stdout=subprocess.PIPE, stderr=subprocess.STDOUT, text=True, errors="replace",
                                 start_new_session=True)
            t_start = time.time()
            # watchdog: the job that has begun and does not finish within per_job_timeout is killed
            while p.poll() is None:
                time.sleep(0.5)
                begun_at, begun_job, finished = None, None, set()
                if os.path.exists(outfile):
                    for line in open(outfile):
                        try:
                            r = json.loads(line)
                        except Exception:
                            continue
                        if r.get("begin"):
                            begun_job, begun_at = r["job"], r.get("t0")
                        elif "job" in r:
                            finished.add(r["job"])
                now = time.time()
                stuck = (begun_job is not None and begun_job not in finished and begun_at and now - begun_at > per_job_timeout)
                if stuck or (begun_job is None and now - t_start > 180):
                    import signal

                    try:
                        os.killpg(p.pid, signal.SIGKILL)   # `timeout` and the interpreter below it
                    except ProcessLookupError:
                        pass
                    break
            log = (p.communicate()[0] or "")[-2000:]
            rc = p.returncode
            begun = None
            results = {}
            fatal = None
            if os.path.exists(outfile):
                for line in open(outfile):
                    try:
                        r = json.loads(line)
                    except Exception:
                        continue
                    if "fatal" in r:
                        fatal = r["fatal"]
                    elif r.get("begin"):
                        begun = r["job"]
                    else:
                        results[r["job"]] = r
            if fatal:
                return results, hung, fatal
            missing = [j for j in shards[k] if j["job"] not in results]
            if not missing:
                return results, hung, None
            if rc == 0:
                return results, hung, f"worker exited 0 with {len(missing)} jobs missing: {log[-500:]}"
            # the job that had begun and did not finish is the culprit: mark it and continue behind it
            culprit = begun if begun is not None and begun not in results else missing[0]["job"]
            hung.append(culprit)
            with open(outfile, "a") as f:
                f.write(json.dumps({"job": culprit, "error": "hang:timeout" if rc in (124, 137, -9) else f"crash:rc={rc}:{log[-300:]}",
                                    "cases": [], "guards": [], "viol": [], "steps": 0, "stats": {}}) + "\n")
        return results, hung, "too many restarts"

    all_results, all_hung, errors = {}, [], []
    with ThreadPoolExecutor(max_workers=nshard) as ex:
        for results, hung, err in ex.map(one, range(nshard)):
            all_results.update(results)
            all_hung += hung
            if err:
                errors.append(err)
    return all_results, all_hung, errors


class Namer:
    def __init__(self):
        self.m = {}

    def __call__(self, x, base=1):
        if x not in self.m:
            self.m[x] = len(self.m) + base
        return self.m[x]


FST = {"WAITING": "FWaiting", "STARTING": "FStarting", "STARTED": "FStarted", "STOPPING": "FStopping",
       "STOPPED": "FStopped", "FINISHED": "FFinished"}
AST_ = {"INITIALIZED": "AInit", "STARTING": "AStarting", "STARTED": "AStarted", "STOPPING": "AStopping", "FINISHED": "AFinished"}
EXC = {"KeyError": "XKey", "ValueError": "XValue", "ColangRuntimeError": "XScope"}


def coq_N(n):
    return str(n)


def case_term(rec):
    """Coq term of a recorded case (uids / flow ids / scope names renamed by first occurrence),
    or (None, reason)."""
    uid = Namer()
    fid = Namer()
    fid.m["main"] = 0
    scn = Namer()
    pre = rec["pre"]
    for f in pre["flows"]:
        uid(f[0])
    for a in pre["acts"]:
        uid(a[0])

    def st_term(snap, emits):
        fl = []
        for u, flow_id, status, parent, children, actions, scopes, activated, nis in snap["flows"]:
            sc = C.coq_list([f"({scn(k)}, ({C.coq_list([coq_N(uid(x)) for x in a])}, {C.coq_list([coq_N(uid(x)) for x in b])}))" for k, a, b in scopes])
            fl.append(f"({uid(u)}, mkInst {fid(flow_id) if flow_id != 'main' else 0} {FST[status]} "
                      f"{C.coq_option(coq_N(uid(parent))) if parent is not None else 'None'} "
                      f"{C.coq_list([coq_N(uid(x)) for x in children])} {C.coq_list([coq_N(uid(x)) for x in actions])} {sc} "
                      f"{C.coq_Z(activated)} {C.coq_bool(nis)})")
        ac = [f"({uid(u)}, mkAct {AST_[s]} {C.coq_Z(c)})" for u, s, c in snap["acts"]]
        em = []
        for e in emits:
            if e[0] == "stop":
                em.append(f"EStop {uid(e[1])}")
            elif e[0] == "failed":
                em.append(f"EFailed {uid(e[1])}")
            elif e[0] == "finished":
                em.append(f"EFinished {uid(e[1])}")
            elif e[0] == "restart":
                em.append(f"ERestart {uid(e[1])} {uid(e[2])} {C.coq_Z(e[3])}")
            elif e[0] == "started":
                em.append(f"EStarted {uid(e[1])}")
            else:
                raise ValueError("unmodelled emission " + str(e))
        return f"(mkSt {C.coq_list(fl)} {C.coq_list(ac)} {C.coq_list(em)})"

    try:
        pre_t = st_term(pre, [])
        op = rec["op"]
        if op[0].startswith("unmodelled:"):
            return None, "call outside the model: " + op[0]
        if op[0] == "startproc":
            ev_t = (f"(mkSfev {fid(op[1]) if op[1] != 'main' else 0} {uid(op[2])} "
                    f"{C.coq_option(coq_N(uid(op[3]))) if op[3] is not None else 'None'} {C.coq_Z(op[4])})")
            match_t = C.coq_list([coq_N(uid(x)) for x in op[5]])
            if "exc" in rec:
                if rec["exc"] not in EXC:
                    return None, "exception " + rec["exc"]
                exp_t = f"(@inr (st * option uid) exn {EXC[rec['exc']]})"
            else:
                eff = rec.get("eff_src")
                exp_t = (f"(@inl (st * option uid) exn ({st_term(rec['post'], rec['emit'])}, "
                         f"{C.coq_option(coq_N(uid(eff))) if eff is not None else 'None'}))")
            return f"({pre_t}, {ev_t}, {match_t}, {exp_t})", None
        if op[0] == "cleanup":
            for u in op[1]:
                uid(u)
            op_t = f"(OCleanup {C.coq_list([coq_N(uid(x)) for x in op[1]])})"
        elif op[0] == "startlink":
            op_t = f"(OStartLink {uid(op[1])} {uid(op[2])} {C.coq_Z(op[3])})"
        elif op[0] == "abort":
            op_t = f"(OAbort {uid(op[1])} {C.coq_bool(op[2])})"
        elif op[0] == "abort_norestart":
            op_t = f"(OAbortNR {uid(op[1])} {C.coq_bool(op[2])})"
        elif op[0] == "finish":
            op_t = f"(OFinish {uid(op[1])} {C.coq_bool(op[2])})"
        elif op[0] == "endscope":
            op_t = f"(OEndScope {uid(op[1])} {scn(op[2])})"
        else:
            op_t = f"(OEvent {op[1]} {uid(op[2])})"
        if "exc" in rec:
            if rec["exc"] not in EXC:
                return None, "exception " + rec["exc"]
            exp_t = f"(@inr st exn {EXC[rec['exc']]})"
        else:
            exp_t = f"(@inl st exn {st_term(rec['post'], rec['emit'])})"
    except ValueError as e:
        return None, str(e)
    return f"({pre_t}, {op_t}, {exp_t})", None


def acyclic(snap):
    ch = {f[0]: [c for c in f[4]] for f in snap["flows"]}
    color = {}

    def dfs(u):
        color[u] = 1
        for c in ch.get(u, []):
            if c not in ch:
                continue
            if color.get(c) == 1:
                return False
            if c not in color and not dfs(c):
                return False
        color[u] = 2
        return True

    return all(dfs(u) for u in ch if u not in color)


def hypotheses_hold(snap):
    """The hypothesis of the C06 theorems, evaluated on a real pre-state: the children relation
    is well-founded."""
    bad = []
    if not acyclic(snap):
        bad.append("children-relation-cyclic")
    return bad


def nontrivial(rec):
    if "exc" in rec:
        return True
    pre, post = rec["pre"], rec["post"]
    changed = sum(1 for a, b in zip(pre["flows"], post["flows"]) if a != b) + sum(1 for a, b in zip(pre["acts"], post["acts"]) if a != b)
    return changed >= 2 or any(e[0] in ("stop", "restart") for e in rec["emit"])


def run(tier, seed, replay=None):
    out = C.Outcome(PID, tier, seed)
    rng = random.Random(seed * 1000003 + 6)
    b = C.build_and_audit(PID, GEN)
    C.proof_coverage(out, b, "make theories/Props/C06.vo && coqc Props/C06.v (Print Assumptions)")
    for br in b["broken"]:
        out.add_broken(br, b["log"])
    with C.BuildLock():
        okm, logm = C.coq_make(["theories/V2/LifeRun.vo"])
    if not okm:
        out.add_broken("coq:theories/V2/LifeRun.v", logm)

    nprog = 1500 if tier == "quick" else 8000
    maxlen = 6 if tier == "quick" else 10
    jobs = []
    corpus_dir = os.path.join(C.VERIF, "corpus", PID)
    corpus_n = 0
    if replay:
        d = json.load(open(replay))
        r = d.get("replay", d)
        jobs.append({"job": 0, "src": r["src"], "history": r["history"], "policy": r.get("policy", 0), "origin": "replay"})
        nprog = 0
    else:
        if os.path.isdir(corpus_dir):
            for fn in sorted(os.listdir(corpus_dir)):
                if fn.endswith(".json"):
                    r = json.load(open(os.path.join(corpus_dir, fn)))
                    r = r.get("replay", r)
                    jobs.append({"job": len(jobs), "src": r["src"], "history": r["history"], "policy": r.get("policy", 0), "origin": "corpus:" + fn})
                    corpus_n += 1
        for src, hist in SEEDS:
            for pol in (0, 1):
                jobs.append({"job": len(jobs), "src": src, "history": hist, "policy": pol, "origin": "seed"})
    g = Gen(rng)
    for _ in range(nprog):
        q = rng.random()
        if q < 0.12:
            src, hist = g.queued_family()
        elif q < 0.27:
            src, hist = g.activation_family()
        else:
            src = g.program()
            hist = g.history(maxlen)
        pol = rng.choice([0, 1, 2, 3])
        jobs.append({"job": len(jobs), "src": src, "history": hist, "policy": pol, "origin": "gen"})

    t0 = time.time()
    results, hung, errors = run_jobs(jobs, "main")
    t_impl = time.time() - t0
    for e in errors:
        out.add_broken("harness:worker", e)

    # ---- collect
    terms, kept, seen = [], [], set()
    gterms, gseen = [], set()
    sterms, skept = [], []
    n_cases = n_nontrivial = 0
    skipped = {}
    opmix, errs = {}, {}
    hyp_bad = {}
    escaped = []
    inv_checked = 0
    stats = {"programs": 0, "steps": 0, "instances": 0, "actions": 0, "stops": 0, "parse_errors": 0, "hangs": 0,
             "runs_with_shared_action": 0, "exceptions": 0}
    for job in jobs:
        r = results.get(job["job"])
        if r is None:
            continue
        if r.get("error"):
            kind = r["error"].split(":")[0]
            errs[kind] = errs.get(kind, 0) + 1
            if kind == "parse":
                stats["parse_errors"] += 1
                continue
            if kind in ("hang", "crash"):
                stats["hangs"] += 1
            if kind == "exception":
                # an exception that escapes run_to_completion is C10's statement, not C06's: the run is
                # cut at that event, everything observed before it is still checked, and it is reported
                stats["exceptions"] += 1
                if len(escaped) < 5:
                    escaped.append({"error": r["error"], "src": job["src"], "history": job["history"], "policy": job["policy"]})
        stats["programs"] += 1
        stats["steps"] += r.get("steps", 0)
        for k in ("instances", "actions", "stops"):
            stats[k] += r.get("stats", {}).get(k, 0)
        if any(a[2] >= 2 for c in r["cases"] for a in c["pre"]["acts"]):
            stats["runs_with_shared_action"] += 1
        inv_checked += r.get("inv_checked", 0)
        for st, what in r.get("inv_viol", [])[:1]:
            out.add_broken("invariant:C06-count", f"the counting invariant fails on a real state (step {st}): {what}\nprogram:\n{job['src']}\nhistory={job['history']} policy={job['policy']}")
        for h in r.get("hyp", [])[:1]:
            out.add_broken("hypothesis:C06-activation", f"{h}\nprogram:\n{job['src']}\nhistory={job['history']} policy={job['policy']}")
        for sig, st, what, detail in r["viol"]:
            out.findings.append(C.Finding(sig, what, {"src": job["src"], "history": job["history"], "policy": job["policy"],
                                                       "step": st, "events_fed": r.get("events"), "offending": detail}))
        for c in r["cases"]:
            n_cases += 1
            opmix[c["op"][0]] = opmix.get(c["op"][0], 0) + 1
            if not acyclic(c["pre"]):
                skipped["cyclic"] = skipped.get("cyclic", 0) + 1
                continue
            for hb in hypotheses_hold(c["pre"]):
                hyp_bad[hb] = hyp_bad.get(hb, 0) + 1
            t, why = case_term(c)
            if t is None:
                out.add_broken("correspondence:C06-unmodelled", f"{why}; program:\n{job['src']}\nhistory={job['history']} policy={job['policy']}")
                continue
            h = C.canon_hash(t)
            if h in seen:
                continue
            seen.add(h)
            if nontrivial(c):
                n_nontrivial += 1
            if c["op"][0] == "startproc":
                sterms.append(t)
                skept.append((c, job))
            else:
                terms.append(t)
                kept.append((c, job))
        for gpre, gpost in r["guards"]:
            t = f"(({FST[gpre[0]]}, {C.coq_Z(gpre[1])}, {C.coq_bool(gpre[2])}, {C.coq_bool(gpre[3])}), ({FST[gpost[0]]}, {C.coq_bool(gpost[1])}, {C.coq_bool(gpost[2])}))"
            if t not in gseen:
                gseen.add(t)
                gterms.append(t)

    t1 = time.time()
    disagreements = []
    if okm and terms:
        bools, err = C.run_cases(PID + "_life", PREAMBLE, terms, "check_case")
        if err:
            out.add_broken("correspondence:C06-life(coqc)", err)
        else:
            disagreements = [(c, job) for ok, (c, job) in zip(bools, kept) if not ok]
    if okm and sterms:
        bools, err = C.run_cases(PID + "_start", PREAMBLE, sterms, "check_start")
        if err:
            out.add_broken("correspondence:C06-start(coqc)", err)
        else:
            bad = [(c, job) for ok, (c, job) in zip(bools, skept) if not ok]
            if bad:
                c, job = min(bad, key=lambda x: len(json.dumps(x[0])))
                t, _ = case_term(c)
                model = C.eval_term(PID + "_start", PREAMBLE, f"start_proc (fun u => existsb (N.eqb u) (snd (fst {t}))) (fst (fst (fst {t}))) (snd (fst (fst {t})))")
                out.add_broken("correspondence:C06-start",
                               f"{len(bad)} disagreements on the START_FLOW branch; smallest: op={c['op']} eff_src={c.get('eff_src')} exc={c.get('exc')}\nprogram:\n{job['src']}\n"
                               f"history={job['history']} policy={job['policy']}\ncase={json.dumps(c)[:3000]}\nmodel={model[-1500:]}")
                disagreements += bad
    if okm and gterms:
        bools, err = C.run_cases(PID + "_guard", PREAMBLE, gterms, "check_guard")
        if err:
            out.add_broken("correspondence:C06-guard(coqc)", err)
        elif not all(bools):
            bad = [t for ok, t in zip(bools, gterms) if not ok]
            out.add_broken("correspondence:C06-guard", f"{len(bad)} disagreements on the end-of-slide guard, e.g. {bad[0]}")
    t_coq = time.time() - t1
    if disagreements:
        c, job = min(disagreements, key=lambda x: len(json.dumps(x[0])))
        t, _ = case_term(c)
        model = C.eval_term(PID + "_life", PREAMBLE, f"run_op (fst (fst {t})) (snd (fst {t}))")
        out.add_broken("correspondence:C06-life",
                       f"{len(disagreements)} disagreements; smallest: op={c['op']} exc={c.get('exc')}\nprogram:\n{job['src']}\nhistory={job['history']} policy={job['policy']}\n"
                       f"case={json.dumps(c)[:3000]}\nmodel={model[-1500:]}")
    for hb, n in hyp_bad.items():
        out.add_broken("hypothesis:" + hb, f"{n} recorded pre-states violate a hypothesis of the C06 theorems ({hb})")

    if replay and not out.findings and not out.broken:
        print("replay: no violation reproduced")
    out.coverage.update({
        "evaluations": len(terms) + len(sterms) + len(gterms),
        "distinct_nontrivial": n_nontrivial,
        "rule": "a case = one real call (nested calls included) of _abort_flow/_finish_flow/EndScope/_update_action_status_by_event with its abstract pre/post snapshot; distinct by hash of the renamed Coq term; non-trivial = at least two instances/actions changed, or a Stop / restart emitted, or an exception",
        "samples": [{"op": c["op"], "emit": c.get("emit"), "exc": c.get("exc"), "n_instances": len(c["pre"]["flows"]), "n_actions": len(c["pre"]["acts"])} for c, _ in kept[:5]],
        "input_distribution": {"programs_run": stats["programs"], "generated": nprog, "seeds": len(SEEDS) * 2 if not replay else 0, "corpus_cases": corpus_n,
                               "run_to_completion_steps": stats["steps"], "recorded_calls": n_cases, "op_mix": opmix,
                               "errors": errs, "hangs_skipped_as_C10": stats["hangs"], "parse_errors": stats["parse_errors"],
                               "instances_total": stats["instances"], "actions_started": stats["actions"], "stops_observed": stats["stops"],
                               "runs_with_shared_action": stats["runs_with_shared_action"], "skipped": skipped,
                               "guard_cases": len(gterms), "start_flow_cases": len(sterms),
                               "real_states_on_which_the_counting_invariant_was_checked": inv_checked,
                               "exceptions_escaping_run_to_completion(C10)": escaped},
        "traces_validated_against_impl": len(terms) + len(sterms) + len(gterms),
        "correspondence_disagreements": len(disagreements),
        "oracle_violations": len(out.findings),
        "impl_s": round(t_impl, 1), "coq_cases_s": round(t_coq, 1),
    })
    out.assumptions += [
        "the model covers the lifetime layer only (statuses, parent/child lists, action_uids, scopes, activated, new_instance_started, action status/flow_scope_count, emitted Stop/FlowFailed/FlowFinished/restart events); heads, matcher index, contexts and arguments are not modelled",
        "the theorems assume the children relation is well-founded and active actions have flow_scope_count >= 1; both are checked on every recorded real pre-state",
        "flows with meta tags (_log_action_or_intents) are outside the generated grammar; an explicit `send $action.Stop()` is generated and counts as the action's one Stop",
        "programs whose run_to_completion does not return (DESIGN F4) are skipped under a timeout / step budget and counted",
        "random.choice is patched (first / last / seeded); uuids are renamed by first occurrence",
    ]
    if tier == "thorough" and b["ok"]:
        ok, log = C.coqchk(PID, b["files"])
        out.coverage["coqchk"] = "ok" if ok else "FAILED"
        if not ok:
            out.add_broken("coqchk", log)
    return C.finish(out)


if __name__ == "__main__":
    if len(sys.argv) >= 4 and sys.argv[1] == "--worker":
        sys.exit(worker_main(sys.argv[2], sys.argv[3]))
