(* C07 - and/or groups: the data structure and the DNF normaliser.

   Model of nemoguardrails/colang/v2_x/lang/expansion.py
     normalize_element_groups   (lines ~1024-1075)
     flatten_or_group           (lines ~1078-1086)

   A group as the parser produces it is either a `Spec` (one event / flow / action) or a dict
   {"_type": "spec_and" | "spec_or", "elements": [Spec | dict, ...]}; the same operator is
   n-ary (`a and b and c` is ONE spec_and with three elements), parentheses nest.
     Atom a  = a Spec object (identified by `a`)
     And l   = {"_type": "spec_and", "elements": l}
     Or  l   = {"_type": "spec_or",  "elements": l}
   Python exceptions (subscripting a Spec with ["elements"]) are explicit: every function that
   subscripts returns `option`, None = exception.  Dnf_proofs.v shows that None never occurs. *)
From Coq Require Import List Bool.
Import ListNotations.

Section Formula.
  Variable A : Type.

  Inductive formula :=
  | Atom (a : A)
  | And (l : list formula)
  | Or (l : list formula).

  (* nested induction principle *)
  Section formula_ind'.
    Variable P : formula -> Prop.
    Hypothesis HAtom : forall a, P (Atom a).
    Hypothesis HAnd : forall l, Forall P l -> P (And l).
    Hypothesis HOr : forall l, Forall P l -> P (Or l).

    Fixpoint formula_ind' (f : formula) : P f :=
      match f with
      | Atom a => HAtom a
      | And l =>
          HAnd l ((fix go (l : list formula) : Forall P l :=
                     match l with
                     | [] => Forall_nil _
                     | x :: xs => Forall_cons _ (formula_ind' x) (go xs)
                     end) l)
      | Or l =>
          HOr l ((fix go (l : list formula) : Forall P l :=
                    match l with
                    | [] => Forall_nil _
                    | x :: xs => Forall_cons _ (formula_ind' x) (go xs)
                    end) l)
      end.
  End formula_ind'.

  (* the boolean formula a group spells, under an assignment of its atoms *)
  Fixpoint eval (s : A -> bool) (f : formula) : bool :=
    match f with
    | Atom a => s a
    | And l => forallb (eval s) l
    | Or l => existsb (eval s) l
    end.

  (* atoms in left-to-right order *)
  Fixpoint atoms (f : formula) : list A :=
    match f with
    | Atom a => [a]
    | And l => flat_map atoms l
    | Or l => flat_map atoms l
    end.

  (* every group has at least one element (the parser never produces an empty group) *)
  Fixpoint wf (f : formula) : bool :=
    match f with
    | Atom _ => true
    | And l => negb (match l with [] => true | _ => false end) && forallb wf l
    | Or l => negb (match l with [] => true | _ => false end) && forallb wf l
    end.

  (* ---- option monad for Python exceptions ---- *)
  Definition bind {X Y : Type} (o : option X) (k : X -> option Y) : option Y :=
    match o with Some x => k x | None => None end.

  Section mapM.
    Variables X Y : Type.
    Variable k : X -> option Y.
    Fixpoint mapM (l : list X) : option (list Y) :=
      match l with
      | [] => Some []
      | x :: xs => bind (k x) (fun y => bind (mapM xs) (fun ys => Some (y :: ys)))
      end.
  End mapM.
  Arguments mapM {X Y} k l.

  (* group["elements"] : a Spec is not subscriptable *)
  Definition elements (g : formula) : option (list formula) :=
    match g with
    | Atom _ => None
    | And l => Some l
    | Or l => Some l
    end.

  (* def flatten_or_group(group):
         new_elements = []
         for elem in group["elements"]:
             if isinstance(elem, dict) and elem["_type"] == "spec_or":
                 new_elements.extend(elem["elements"])
             else:
                 new_elements.append(elem)
         return {"_type": "spec_or", "elements": new_elements}                         *)
  Definition flatten_or (group : formula) : option formula :=
    bind (elements group) (fun els =>
    Some (Or (flat_map (fun elem => match elem with Or l' => l' | _ => [elem] end) els))).

  (*         new_results = []
             for res_elem in results:
                 for norm_elem in normalized["elements"]:
                     new_elem = {"_type": "spec_and",
                                 "elements": res_elem["elements"] + norm_elem["elements"]}
                     new_results.append(new_elem)
             results = new_results                                                      *)
  Definition distribute (results norm_elems : list formula) : option (list formula) :=
    bind (mapM (fun res_elem =>
                  mapM (fun norm_elem =>
                          bind (elements res_elem) (fun re =>
                          bind (elements norm_elem) (fun ne =>
                          Some (And (re ++ ne))))) norm_elems) results)
         (fun rows => Some (concat rows)).

  (* the `elif group["_type"] == "spec_and":` branch, for the element list `els`;
     `rec` is the recursive call *)
  Definition norm_and (rec : formula -> option formula) (els : list formula) : option formula :=
    bind (fold_left
            (fun (acc : option (list formula)) elem =>
               bind acc (fun results =>
               bind (match elem with
                     | Atom _ => Some (Or [And [elem]])     (* not a dict *)
                     | _ => rec elem
                     end) (fun normalized =>
               bind (elements normalized) (fun norm_elems =>
               distribute results norm_elems))))
            els (Some [And []]))
         (fun results => flatten_or (Or results)).

  (* def normalize_element_groups(group):
         if isinstance(group, Spec):
             group = {"_type": "spec_and", "elements": [group]}
         if group["_type"] == "spec_or":
             return flatten_or_group({"_type": "spec_or", "elements": [
                 normalize_element_groups(elem) if isinstance(elem, dict)
                 else {"_type": "spec_and", "elements": [elem]}
                 for elem in group["elements"]]})
         elif group["_type"] == "spec_and":
             results = [{"_type": "spec_and", "elements": []}]
             for elem in group["elements"]:
                 normalized = (normalize_element_groups(elem) if isinstance(elem, dict)
                               else {"_type": "spec_or", "elements": [{"_type": "spec_and", "elements": [elem]}]})
                 ... distribute ...
             return flatten_or_group({"_type": "spec_or", "elements": results})
         return {}                                                                       *)
  Fixpoint normalize (group : formula) : option formula :=
    match group with
    | Atom a => norm_and (fun _ => None) [Atom a]   (* the degenerate single-Spec case: wrapped into a one-element and-group *)
    | Or l =>
        bind (mapM (fun elem => match elem with
                                | Atom _ => Some (And [elem])
                                | _ => normalize elem
                                end) l)
             (fun els => flatten_or (Or els))
    | And l => norm_and normalize l
    end.

  (* ---- reading a normalised group the way the expansion does:
          normalized_group["elements"][i]["elements"][j]  is a Spec ---- *)
  Definition atom_of (g : formula) : option A :=
    match g with Atom a => Some a | _ => None end.

  Definition alts_of (d : formula) : option (list (list A)) :=
    bind (elements d) (mapM (fun g => bind (elements g) (mapM atom_of))).

  (* ---- the DNF as a list of alternatives, each a list of atoms, and its reading back ---- *)
  Definition conjf (c : list A) : formula := And (map Atom c).
  Definition dnf (alts : list (list A)) : formula := Or (map conjf alts).

  Definition eval_dnf (s : A -> bool) (alts : list (list A)) : bool :=
    existsb (forallb s) alts.

  (* ---- specification of the normaliser: plain DNF by distribution, no exceptions ---- *)
  Definition cross (xs ys : list (list A)) : list (list A) :=
    flat_map (fun x => map (fun y => x ++ y) ys) xs.

  Fixpoint nf (f : formula) : list (list A) :=
    match f with
    | Atom a => [[a]]
    | Or l => flat_map nf l
    | And l => fold_left (fun acc e => cross acc (nf e)) l [[]]
    end.

End Formula.

Arguments Atom {A} a.
Arguments And {A} l.
Arguments Or {A} l.
Arguments eval {A} s f.
Arguments atoms {A} f.
Arguments wf {A} f.
Arguments bind {X Y} o k.
Arguments mapM {X Y} k l.
Arguments elements {A} g.
Arguments flatten_or {A} group.
Arguments distribute {A} results norm_elems.
Arguments norm_and {A} rec els.
Arguments normalize {A} group.
Arguments atom_of {A} g.
Arguments alts_of {A} d.
Arguments conjf {A} c.
Arguments dnf {A} alts.
Arguments eval_dnf {A} s alts.
Arguments cross {A} xs ys.
Arguments nf {A} f.

(* sanity: `a and (b or c)` as the parser produces it *)
Example normalize_ex1 :
  normalize (And [Atom 1; Or [Atom 2; Atom 3]])
  = Some (Or [And [Atom 1; Atom 2]; And [Atom 1; Atom 3]]).
Proof. reflexivity. Qed.

(* the degenerate single-Spec case *)
Example normalize_ex2 : normalize (Atom 7) = Some (Or [And [Atom 7]]).
Proof. reflexivity. Qed.

(* nested same-operator groups are flattened; or-in-and-in-or distributes *)
Example normalize_ex3 :
  normalize (Or [Or [Atom 1; Atom 2]; And [Atom 3; Or [Atom 4; And [Atom 5; Atom 6]]]])
  = Some (Or [And [Atom 1]; And [Atom 2]; And [Atom 3; Atom 4]; And [Atom 3; Atom 5; Atom 6]]).
Proof. reflexivity. Qed.

Example alts_of_ex :
  bind (normalize (And [Or [Atom 1; Atom 2]; Atom 3])) alts_of = Some [[1; 3]; [2; 3]].
Proof. reflexivity. Qed.
