#!/bin/sh
# MANIFEST.setup_cmd: offline clean build of the Coq development (Gen regenerated from /repo).
set -e
cd "$(dirname "$0")"
export PYTHONHASHSEED=0
exec /venv/bin/python harness/setup.py "$@"
