"""C10 — Event processing terminates and a faulty flow fails alone (Colang 2 state machine).

Models (coq/theories/V2): Term.v (`slide` over primitive elements + `guardedb`), Isolate.v
(`_advance_head_front` try/except + `_abort_flow`, retry loop of process_events), Cascade.v (the
StartFlow/restart cascade of one run_to_completion).  Theorems: Props/C10.v.

Tie (X):
  * slide differential: every real `slide` call made during the harness runs is traced in the
    child processes (start position, visited positions, end position, catch stack, exception,
    forked heads) and replayed on the model inside Coq (TermRun.check_slide); the elements are
    the REAL expanded FlowConfig.elements mapped by a fail-closed loader;
  * guardedb on every flow of every shipped Colang 2 file and of all generated programs,
    cross-checked with an independent Python cycle search (TermRun.check_guarded);
  * cascade bound: the number of internal events processed by each real run_to_completion is
    compared with the model's bound (CascadeRun.check_bound).
Direct oracles on the implementation:
  * termination: generated programs satisfying the premise x events under the step-budget hook
    (NEMO_GUARDRAILS_VERIF_MAX_STEPS semantics, budget from the program size) in child processes
    under `timeout`;
  * error injection at every statement position: no exception escapes process_events, a
    ColangError is matchable, only the faulty flow (and its relatives) fails, a bystander flow
    still reacts to the same and to later events.
"""
from __future__ import annotations

import json
import os
import random
import sys
import time

from harness import common as C

PID = "C10"
GEN = ["C10Consts"]

PREAMBLE = """From Coq Require Import List Arith Bool.
From NG Require Import V2.Term V2.TermRun V2.Cascade V2.CascadeRun.
Import ListNotations.
"""

# =======================================================================================
# Loader: REAL expanded FlowConfig.elements -> model elements (fail closed)


class LoaderError(Exception):
    pass


def _spec_const_str(expr):
    """'"abc"' or "'abc'" -> abc ; anything else -> None"""
    if isinstance(expr, str) and len(expr) >= 2 and expr[0] == expr[-1] and expr[0] in "\"'":
        body = expr[1:-1]
        if expr[0] not in body and "{" not in body and "\\" not in body:
            return body
    return None


def _const_bool(expr):
    """True/False if the expression is a constant of Python's boolean fragment (no variables), else None."""
    import ast

    if isinstance(expr, bool):
        return expr
    if not isinstance(expr, str) or "$" in expr:
        return None
    try:
        tree = ast.parse(expr.strip(), mode="eval")
    except SyntaxError:
        return None
    for node in ast.walk(tree):
        if isinstance(node, (ast.Expression, ast.BoolOp, ast.And, ast.Or, ast.UnaryOp, ast.Not)):
            continue
        if isinstance(node, ast.Constant) and isinstance(node.value, bool):
            continue
        return None
    return bool(eval(compile(tree, "<const>", "eval"), {"__builtins__": {}}, {}))


def load_flow(flow_config, flow_index, internal_all):
    """Returns (elems, label_index) where elems is a list of tuples:
       ('block', 'match'|'action'|'merge') ('waitint', started_making) ('maybe',) ('jump', l, cond) ('label', l, newinst)
       ('step',) ('start', f, act) ('fork', [l]) ('return',) ('abort',) ('catch', l|None)
       ('break', l|None)
    Labels are numbered by first occurrence (as Label, Goto, Fork, Catch or Break target)."""
    from nemoguardrails.colang.v2_x.lang import colang_ast as A

    labels = {}

    def lab(name):
        if name not in labels:
            labels[name] = len(labels)
        return labels[name]

    # what a `$ref` names: an action instance (`_new_action_instance ... as $ref`: its events are UMIM
    # action events, i.e. external) or a flow instance (`$ref = $_flow_event_ref.flow`); a name that is
    # assigned in any other way (or in both ways) stays unknown
    action_refs, flow_refs, other_refs = set(), set(), set()
    for el in flow_config.elements:
        if isinstance(el, A.SpecOp) and el.op == "_new_action_instance" and isinstance(el.spec, A.Spec) and isinstance(el.spec.ref, dict):
            action_refs.add(el.spec.ref["elements"][0]["elements"][0].lstrip("$"))
        elif isinstance(el, A.SpecOp) and isinstance(el.spec, A.Spec) and isinstance(el.spec.ref, dict) and el.op in ("match", "send"):
            other_refs.add(el.spec.ref["elements"][0]["elements"][0].lstrip("$"))
        elif isinstance(el, A.Assignment):
            if isinstance(el.expression, str) and el.expression.strip().startswith("$") and el.expression.strip().endswith(".flow") \
                    and el.expression.strip()[1:-5].replace("_", "a").isalnum():
                flow_refs.add(el.key)
            else:
                other_refs.add(el.key)
    params = {p.name for p in getattr(flow_config, "parameters", [])}
    action_only = action_refs - flow_refs - other_refs - params
    flow_only = flow_refs - action_refs - other_refs - params
    dynamic_start = False
    await_child = {}            # position of `match $ref.Finished()` -> (name of $ref)  [used by the deep-wait measurement]
    ref_flow_start = {}         # flow ref name -> position of the Assignment that binds it

    out = []
    for el in flow_config.elements:
        if isinstance(el, A.Assignment) and el.key in flow_only:
            ref_flow_start[el.key] = len(out)
        if isinstance(el, A.SpecOp):
            spec = el.spec
            if not isinstance(spec, A.Spec):
                raise LoaderError(f"unexpanded spec group in {flow_config.id}")
            if el.op == "match":
                if spec.var_name is None and spec.members is None:
                    if spec.name in internal_all or spec.name == "ColangError":
                        out.append(("waitint", "internal" not in el.info))
                    else:
                        out.append(("block", "match"))
                elif spec.var_name is None and spec.members is not None:
                    if spec.spec_type == A.SpecType.FLOW:
                        out.append(("waitint", "internal" not in el.info))
                    else:
                        out.append(("block", "match"))
                elif spec.var_name in action_only:
                    out.append(("block", "match"))          # event of an action instance: external
                else:
                    if spec.var_name in flow_only and spec.members and (spec.members[-1]["name"] if isinstance(spec.members[-1], dict) else spec.members[-1].name) == "Finished":
                        await_child[len(out)] = spec.var_name
                    out.append(("waitint", "internal" not in el.info))   # $ref.Event(): flow (or unknown) reference
            elif el.op == "send":
                if spec.var_name is None and spec.members is None:
                    if spec.name in internal_all:
                        fid = _spec_const_str(spec.arguments.get("flow_id")) if spec.name == "StartFlow" else None
                        if fid is not None and fid in flow_index:
                            act = str(spec.arguments.get("activated", "False")) == "True"
                            out.append(("start", flow_index[fid], act))
                        else:
                            if spec.name == "StartFlow" and fid is None:
                                dynamic_start = True          # flow_id computed at run time
                            out.append(("step",))
                    else:
                        out.append(("block", "action"))  # action / umim event: actionable, slide stops
                elif spec.var_name in action_only:
                    out.append(("block", "action"))     # $action_ref.Start() / .Stop(): actionable
                else:
                    out.append(("maybe",))              # event of a reference: internal (falls through) or action (stops)
            elif el.op == "_new_action_instance":
                out.append(("step",))
            else:
                raise LoaderError(f"unexpanded op {el.op!r} in {flow_config.id}")
        elif isinstance(el, A.Label):
            out.append(("label", lab(el.name), el.name == "start_new_flow_instance"))
        elif isinstance(el, A.Goto):
            cv = _const_bool(el.expression)
            if cv is False:
                lab(el.label)
                out.append(("step",))               # `Goto l if <constant false>`: never taken (e.g. the exit test of `while True`)
            else:
                out.append(("jump", lab(el.label), cv is None))
        elif isinstance(el, A.ForkHead):
            out.append(("fork", [lab(x) for x in el.labels]))
        elif isinstance(el, A.MergeHeads):
            out.append(("block", "merge"))
        elif isinstance(el, A.WaitForHeads):
            out.append(("maybe",))
        elif isinstance(el, (A.Assignment, A.Log, A.Print, A.Priority, A.Global, A.BeginScope, A.EndScope)):
            out.append(("step",))
        elif isinstance(el, A.Return):
            out.append(("return",))
        elif isinstance(el, A.Abort):
            out.append(("abort",))
        elif isinstance(el, (A.Continue, A.Break)):
            out.append(("break", None if el.label is None else lab(el.label)))
        elif isinstance(el, A.CatchPatternFailure):
            out.append(("catch", None if el.label is None else lab(el.label)))
        elif isinstance(el, dict) and (el.get("_type") == "doc_string_stmt" or
                                       (el.get("_type") == "stmt" and not el.get("elements"))):
            out.append(("step",))                   # slide's final `else`: ignored, position += 1
        else:
            raise LoaderError(f"element outside the vocabulary: {type(el).__name__} in {flow_config.id}")
    # the child flow an `await`-style wait refers to: ... start g ; (steps | flagged waits)* ; $ref = ...flow ; steps* ; match $ref.Finished()
    awaits = {}
    for pos, ref in await_child.items():
        a = ref_flow_start.get(ref)
        if a is None or a >= pos:
            continue
        k = a - 1
        while k >= 0 and out[k] in (("step",), ("waitint", False)):
            k -= 1
        if k >= 0 and out[k][0] == "start" and all(out[j] == ("step",) for j in range(a, pos)):
            awaits[pos] = out[k][1]
    load_flow.last_awaits = awaits
    load_flow.last_dynamic = dynamic_start
    return out, labels


def coq_elem(t):
    k = t[0]
    if k == "block":
        return "(EBlock %s)" % {"match": "BMatch", "action": "BAction", "merge": "BMerge"}[t[1]]
    if k == "waitint":
        return f"(EWaitInt {C.coq_bool(t[1])})"
    if k == "maybe":
        return "EWaitHeads"
    if k == "jump":
        return f"(EJump {t[1]} {C.coq_bool(t[2])})"
    if k == "label":
        return f"(ELabel {t[1]} {C.coq_bool(t[2])})"
    if k == "step":
        return "EStep"
    if k == "start":
        return f"(EStart {t[1]} {C.coq_bool(t[2])})"
    if k == "fork":
        return "(EFork " + C.coq_list([str(x) for x in t[1]]) + ")"
    if k == "return":
        return "EReturn"
    if k == "abort":
        return "EAbort"
    if k == "catch":
        return "(ECatch " + C.coq_option(None if t[1] is None else str(t[1])) + ")"
    if k == "break":
        return "(EBreak " + C.coq_option(None if t[1] is None else str(t[1])) + ")"
    raise ValueError(k)


def nl(xs):
    """list nat (typed even when empty)"""
    xs = list(xs)
    return C.coq_list([str(x) for x in xs]) if xs else "(@nil nat)"


def run_cases_defs(tag, defs, terms, fn, shard=300):
    """Like C.run_cases, but every shard only gets the `Definition fl_k` lines it mentions
    (defs: name -> definition line)."""
    import re as _re
    from concurrent.futures import ThreadPoolExecutor

    shards = [terms[i:i + shard] for i in range(0, len(terms), shard)]

    def one(ix):
        i, sh_terms = ix
        used = sorted(set(_re.findall(r"fl_\d+", " ".join(sh_terms))), key=lambda n: int(n[3:]))
        pre = PREAMBLE + "\n".join(defs[n] for n in used) + "\n"
        return C.run_cases(f"{tag}_{i}", pre, sh_terms, fn, shard=len(sh_terms) + 1)

    res = []
    with ThreadPoolExecutor(max_workers=C.NPROC) as ex:
        outs = list(ex.map(one, list(enumerate(shards))))
    for bools, err in outs:
        if err:
            return res, err
        res += bools
    return res, None


def coq_elems(elems):
    return C.coq_list([coq_elem(t) for t in elems])


# ---------------------------------------------------------------------------------------
# independent Python statement of "every cycle of the jump graph passes a blocking element"
# (edges are computed from the loaded tuples with Python's own label table; cycle search = DFS)


def label_table(elems):
    tbl = {}
    for i, t in enumerate(elems):
        if t[0] == "label":
            tbl[t[1]] = i            # last wins
    return tbl


def py_exec(elems, tbl, p, stack, o):
    """One element under outcome o (True/False): ('cont', p', stack') | ('stop', resume_configs).
    Written from the element cases of statemachine.slide, independently of the Coq model."""
    t = elems[p]
    k = t[0]
    if k in ("block", "waitint"):
        res = [(p + 1, stack)]
        if stack and stack[-1] in tbl and not (k == "block" and t[1] == "merge"):
            res.append((tbl[stack[-1]] + 1, stack))    # failed match / lost action conflict: moved to the catch label
        return ("stop", res)
    if k == "maybe":
        return ("cont", p + 1, stack) if o else ("stop", [(p + 1, stack)])
    if k == "jump":
        taken = o if t[2] else True
        if taken:
            return ("cont", tbl[t[1]] + 1 if t[1] in tbl else p + 1, stack)
        return ("cont", p + 1, stack)
    if k in ("label", "step", "start"):
        return ("cont", p + 1, stack)
    if k == "fork":
        if all(l in tbl for l in t[1]):
            return ("stop", [(tbl[l] + 1, stack) for l in t[1]])
        return ("stop", [(tbl[l] + 1, stack) for l in t[1] if l in tbl])
    if k == "return":
        return ("stop", [])
    if k == "abort":
        if not stack:
            return ("stop", [])
        top = stack[-1]
        return ("cont", tbl[top] + 1, stack) if top in tbl else ("stop", [])
    if k == "catch":
        if t[1] is not None:
            return ("cont", p + 1, stack + (t[1],))
        return ("cont", p + 1, stack[:-1]) if stack else ("stop", [])
    if k == "break":
        if t[1] is None:
            return ("cont", p + 1, stack)
        return ("cont", tbl[t[1]] + 1, stack) if t[1] in tbl else ("stop", [])
    raise ValueError(k)


def py_analyse(elems, through_int=False):
    """Explore the configurations (position, catch stack) reachable from the flow start and look for a
    cycle made of steps the same slide (or, through_int, the same event cascade) can take.
    Returns {"verdict": bool, "cycle": [(p, stack)] | None, "why": str}."""
    n = len(elems)
    tbl = label_table(elems)
    start = (0, ())
    seen = {start}
    todo = [start]
    edges = {}
    per_pos = {}
    limit = 40 * (n + 1)
    while todo:
        cfg = todo.pop()
        p, stack = cfg
        if p >= n:
            continue
        per_pos.setdefault(p, set()).add(stack)
        outs = []
        nxt = []
        for o in (True, False):
            r = py_exec(elems, tbl, p, stack, o)
            if r[0] == "cont":
                outs.append((r[1], r[2]))
                nxt.append((r[1], r[2]))
            else:
                nxt += r[1]
                wakes = elems[p][0] in ("waitint", "maybe", "fork") or (elems[p][0] == "block" and elems[p][1] != "match")
                if through_int and wakes:
                    outs += r[1]
        edges[cfg] = list(dict.fromkeys(outs))
        for c in nxt:
            if c not in seen:
                seen.add(c)
                todo.append(c)
        if len(seen) > limit:
            return {"verdict": False, "cycle": None, "why": "configuration space too large (unbounded catch stack?)"}
    if any(len(v) > 1 for v in per_pos.values()):
        return {"verdict": False, "cycle": None, "why": "a position is reached with two different catch stacks"}
    colour = {}
    for root in sorted(edges):
        if root in colour:
            continue
        stack_ = [(root, iter(edges.get(root, [])))]
        colour[root] = 1
        path = [root]
        while stack_:
            node, it = stack_[-1]
            q = next(it, None)
            if q is None:
                colour[node] = 2
                stack_.pop()
                path.pop()
                continue
            if q[0] >= n:
                continue
            if colour.get(q) == 1:
                return {"verdict": False, "cycle": path[path.index(q):], "why": "cycle without blocking element"}
            if q not in colour:
                colour[q] = 1
                path.append(q)
                stack_.append((q, iter(edges.get(q, []))))
    return {"verdict": True, "cycle": None, "why": ""}


def spin_oracle(elems, cycle):
    """Outcomes that drive the model around `cycle` forever (one outcome per executed element)."""
    tbl = label_table(elems)
    outs = []
    m = len(cycle)
    for idx, (p, stack) in enumerate(cycle):
        q = cycle[(idx + 1) % m]
        r = py_exec(elems, tbl, p, stack, True)
        outs.append("OTrue" if r[0] == "cont" and (r[1], r[2]) == q else "OFalse")
    return outs


# =======================================================================================
# Worker (child process): runs cases on the real interpreter, traces every slide call


class SlideTracer:
    def __init__(self, sm):
        import logging

        self.sm = sm
        self.records = []
        self.stack = []
        tracer = self

        class H(logging.Handler):
            def emit(self, record):
                if tracer.stack and isinstance(record.msg, str) and record.msg.startswith("--Sliding element"):
                    rec = tracer.stack[-1]
                    rec["path"].append(rec["_head"].position)

        lg = logging.getLogger(sm.__name__)
        lg.setLevel(logging.DEBUG)
        lg.propagate = False
        for h in list(lg.handlers):
            lg.removeHandler(h)
        lg.addHandler(H(level=logging.DEBUG))
        orig = sm.slide
        self.orig = orig

        def traced(state, flow_state, flow_config, head):
            rec = {"flow": flow_config.id, "start": head.position, "catch": list(head.catch_pattern_failure_label),
                   "hstatus": head.status.name, "path": [], "_head": head, "uid": flow_state.uid, "rtc": getattr(tracer, "rtc", 0)}
            tracer.stack.append(rec)
            q0 = len(state.internal_events)
            try:
                new_heads = orig(state, flow_state, flow_config, head)
                rec["exc"] = None
                rec["new_heads"] = [h.position for h in new_heads]
                return new_heads
            except Exception as e:
                rec["exc"] = type(e).__name__
                rec["new_heads"] = []
                raise
            finally:
                rec["end"] = head.position
                rec["end_catch"] = list(head.catch_pattern_failure_label)
                rec["stopping"] = flow_state.status == sm.FlowStatus.STOPPING
                rec["n"] = len(flow_config.elements)
                tracer.stack.pop()
                del rec["_head"]
                tracer.records.append(rec)

        sm.slide = traced

    def take(self):
        r, self.records = self.records, []
        return r


def _worker_setup():
    import logging
    import warnings

    warnings.filterwarnings("ignore")
    sys.path.insert(1, C.REPO)
    from nemoguardrails.colang.v2_x.runtime import statemachine as sm

    logging.getLogger().setLevel(logging.CRITICAL)
    # fault injection of ARBITRARY Python exceptions (a runtime-internal failure at a statement position,
    # like the AssertionError of FlowState.get_event for an unknown event name): the expression
    # `verif_raise("KeyError")` raises that exception, unwrapped, wherever the interpreter evaluates it
    import re as _re

    orig_eval = sm.eval_expression
    kinds = {"AssertionError": AssertionError, "KeyError": KeyError, "AttributeError": AttributeError,
             "TypeError": TypeError, "ZeroDivisionError": ZeroDivisionError, "RuntimeError": RuntimeError}

    def eval_with_faults(expr, context):
        if isinstance(expr, str) and "verif_raise(" in expr:
            m = _re.search(r'verif_raise\(["\'](\w+)["\']\)', expr)
            if m and m.group(1) in kinds:
                raise kinds[m.group(1)]("fault injected by the C10 harness")
        return orig_eval(expr, context)

    sm.eval_expression = eval_with_faults
    return sm


def _flow_table(state, sm):
    """Loaded model elements of every flow of a state + flow index."""
    from nemoguardrails.colang.v2_x.runtime.flows import InternalEvents

    idx = {fid: i for i, fid in enumerate(state.flow_configs)}
    tbl = {}
    for fid, fc in state.flow_configs.items():
        elems, labels = load_flow(fc, idx, set(InternalEvents.ALL))
        tbl[fid] = {"elems": elems, "labels": labels, "awaits": dict(load_flow.last_awaits),
                    "label_pos": {labels[k]: v for k, v in fc.element_labels.items() if k in labels}}
    return idx, tbl


def slide_case_from_record(rec, tbl):
    """Turn a traced real slide call into a model case (Python side; printed to Coq by the parent)."""
    info = tbl[rec["flow"]]
    elems = info["elems"]
    lpos = info["label_pos"]
    labels = info["labels"]
    path = rec["path"]
    n = len(path)
    end = rec["end"]
    outs = []
    for k, p in enumerate(path):
        t = elems[p]
        last = k == n - 1
        nxt = end if last else path[k + 1]
        raised = last and rec["exc"] is not None
        if raised:
            outs.append("ORaise")
        elif t[0] == "jump":
            tgt = lpos[t[1]] + 1 if t[1] in lpos else p + 1
            outs.append("OTrue" if nxt == tgt else "OFalse")
        elif t[0] == "maybe":
            passed = (not last) or (end == p + 1)
            outs.append("OTrue" if passed else "OFalse")
        else:
            outs.append("OTrue")
    last_t = elems[path[-1]] if path else None
    if rec["exc"] is not None:
        # the model attributes the exception to the element being executed; the real head may already
        # have been moved (the position callback of the NEXT match element can raise, too)
        kind, pos, targets = 4, (path[-1] if path else rec["start"]), []
    elif last_t is not None and last_t[0] == "fork":
        # new heads are created at the label positions
        kind, pos, targets = 1, end, list(rec["new_heads"])
    elif rec["stopping"] and end >= rec["n"] and last_t is not None and last_t[0] == "abort":
        kind, pos, targets = 3, end, []
    elif end >= rec["n"]:
        kind, pos, targets = 2, end, []
    else:
        kind, pos, targets = 0, end, []
    starts = [[elems[p][1], elems[p][2]] for k, p in enumerate(path)
              if elems[p][0] == "start" and not (k == n - 1 and rec["exc"] is not None)]

    def cl(names):
        # Python list used as a stack (top = last element); the model's stack has its top first
        return [labels[x] if x in labels else 10 ** 6 for x in reversed(names)]

    return {"flow": rec["flow"], "outs": outs, "start": rec["start"], "catch": cl(rec["catch"]),
            "kind": kind, "pos": pos, "targets": targets, "steps": n, "end_catch": cl(rec["end_catch"]),
            "path": path, "starts": starts, "merging": rec["hstatus"] == "MERGING", "uid": rec.get("uid"), "rtc": rec.get("rtc", 0)}


class StepCounter:
    """Counts the internal events processed by run_to_completion (log.info 'Process internal event')."""

    def __init__(self, sm):
        import logging

        self.n = 0
        counter = self

        class H(logging.Handler):
            def emit(self, record):
                if isinstance(record.msg, str) and record.msg.startswith("Process internal event"):
                    counter.n += 1

        logging.getLogger(sm.__name__).addHandler(H(level=logging.INFO))


class AbortTracer:
    """Records the restart decision of every _abort_flow call made for a flow that fails BY ITSELF
    (abort statement / runtime error while advancing, failed or erroneous match, failed creation of
    an action event), together with the facts the model's `fail_inst` decides on.  Whether the flow
    had been STARTED is tracked independently of the interpreter's own bookkeeping by observing the
    FlowState.status setter."""

    SITES = ("_advance_head_front", "run_to_completion", "_generate_action_event_from_actionable_element")

    def __init__(self, sm):
        from nemoguardrails.colang.v2_x.runtime.flows import FlowState, FlowStatus

        self.records = []
        self.ever_started = set()
        tracer = self
        prop = FlowState.status
        fget, fset = prop.fget, prop.fset

        def setter(fs, status):
            if status == FlowStatus.STARTED:
                tracer.ever_started.add(fs.uid)
            fset(fs, status)

        FlowState.status = property(fget, setter)
        orig = sm._abort_flow

        def traced(state, flow_state, matching_scores, deactivate_flow=False, *a, **kw):
            site = sys._getframe(1).f_code.co_name
            aborts = sm.is_listening_flow(flow_state) or flow_state.status == FlowStatus.STOPPING
            pre = (flow_state.activated > 0, bool(flow_state.new_instance_started), bool(deactivate_flow),
                   flow_state.uid in tracer.ever_started)
            r = orig(state, flow_state, matching_scores, deactivate_flow, *a, **kw)
            if site in AbortTracer.SITES and aborts and flow_state.flow_id != "main":
                restarted = bool(flow_state.new_instance_started) and not pre[1]
                tracer.records.append({"site": site, "flow": flow_state.flow_id, "act": pre[0], "nis": pre[1],
                                       "deact": pre[2], "started": pre[3], "restarted": restarted})
            return r

        sm._abort_flow = traced

    def take(self):
        r, self.records = self.records, []
        return r


def budget_formula(total_elems, n_flows, live):
    """Step budget for ONE run_to_completion: depends only on the program size (number of
    primitive elements, number of flows) and on the number of live flow instances."""
    return 32 + (total_elems + 4 * n_flows) * (live + 1)


def _live(state, sm):
    return sum(1 for fs in state.flow_states.values() if sm.is_listening_flow(fs))


def _live_heads(state, sm):
    return sum(len(fs.active_heads) for fs in state.flow_states.values() if sm.is_listening_flow(fs))


def _mk_event(sm, ev):
    if isinstance(ev, str):
        return {"type": ev}
    return dict(ev)


def run_case_direct(sm, tracer, counter, case):
    """Drive the state machine directly.  The retry loop of process_events is emulated verbatim
    (an exception leaving run_to_completion is fed back as a ColangError event)."""
    from harness import v2util

    res = {"id": case["id"], "mode": "direct", "events": [], "slides": [], "error": None}
    try:
        state = v2util.init_state(case["src"])
    except BaseException as e:            # not a case: the program does not parse / expand
        res["error"] = "init:" + type(e).__name__ + ":" + str(e)[:200]
        return res
    try:
        idx, tbl = _flow_table(state, sm)
    except LoaderError as e:
        res["error"] = "loader:" + str(e)
        return res
    total = sum(len(v["elems"]) for v in tbl.values())
    res["program"] = {fid: {"elems": v["elems"], "awaits": {str(k): g for k, g in v["awaits"].items()}} for fid, v in tbl.items()}
    res["flow_index"] = idx
    res["total_elems"] = total
    evs = [sm.InternalEvent(name="StartFlow", arguments={"flow_id": "main"}, matching_scores=[])] + [
        _mk_event(sm, e) for e in case["events"]]
    for k, ev in enumerate(evs):
        new_event = ev
        rounds = 0
        rec = {"steps": 0, "live": _live(state, sm), "heads": _live_heads(state, sm), "status": "ok", "escaped": [], "out": []}
        while new_event is not None:
            rounds += 1
            if rounds > 5:
                rec["status"] = "retry-loop"
                break
            budget = budget_formula(total, len(tbl), _live(state, sm))
            rec["budget"] = budget
            sm._VERIF_MAX_STEPS = budget
            counter.n = 0
            tracer.rtc = getattr(tracer, "rtc", 0) + 1
            try:
                sm.run_to_completion(state, new_event)
                new_event = None
            except sm.VerifStepBudgetExceeded:
                rec["status"] = "budget"
                new_event = None
            except Exception as e:
                rec["escaped"].append(type(e).__name__ + ":" + str(e)[:120])
                new_event = sm.Event(name="ColangError", arguments={"type": str(type(e).__name__), "error": str(e)})
            rec["steps"] = max(rec["steps"], counter.n)
            rec["out"] += [e["type"] for e in state.outgoing_events if isinstance(e, dict)]
        res["events"].append(rec)
        res["slides"] += [slide_case_from_record(r, tbl) for r in tracer.take()]
        res.setdefault("aborts", [])
        res["aborts"] += tracer.aborts.take()
        if rec["status"] != "ok":
            break
    res["markers"] = {k: v for k, v in state.context.items() if k.startswith("m_") and isinstance(v, (bool, int, str, type(None)))}
    fl = {}
    for fs in state.flow_states.values():
        fl.setdefault(fs.flow_id, []).append(fs.status.name)
    res["flows"] = fl
    return res


_PE = {}


def run_case_pe(sm, tracer, counter, case):
    """Drive RuntimeV2_x.process_events through an LLMRails object built offline."""
    import asyncio

    if "mods" not in _PE:
        sys.path.insert(2, os.path.join(C.REPO, "tests"))
        from nemoguardrails import LLMRails, RailsConfig
        from utils import FakeLLM

        _PE["mods"] = (LLMRails, RailsConfig, FakeLLM)
    LLMRails, RailsConfig, FakeLLM = _PE["mods"]
    res = {"id": case["id"], "mode": "pe", "events": [], "slides": [], "error": None}
    try:
        config = RailsConfig.from_content(colang_content=case["src"], yaml_content="colang_version: 2.x\n")
        rails = LLMRails(config, llm=FakeLLM(responses=[]))
    except BaseException as e:
        res["error"] = "init:" + type(e).__name__ + ":" + str(e)[:200]
        return res
    rt = rails.runtime
    rt.max_events = int(case.get("max_events", 60))
    sm._VERIF_MAX_STEPS = 3000
    handled = [0]

    class _TooManyEvents(BaseException):
        pass

    def watcher(_event):
        handled[0] += 1
        if handled[0] > rt.max_events + 5:
            raise _TooManyEvents()

    rt.watchers.append(watcher)

    async def go():
        state = None
        for ev in [None] + list(case["events"]):
            rec = {"status": "ok", "out": []}
            handled[0] = 0
            try:
                out, state = await asyncio.wait_for(
                    rt.process_events([] if ev is None else [_mk_event(sm, ev)], state), float(case.get("call_timeout", 30)))
                rec["out"] = [e["type"] for e in out]
            except _TooManyEvents:
                rec["status"] = "max_events-exceeded"
            except asyncio.TimeoutError:
                rec["status"] = "timeout"
            except sm.VerifStepBudgetExceeded:
                rec["status"] = "budget"
            except Exception as e:
                rec["status"] = "escaped:" + type(e).__name__ + ":" + str(e)[:120]
            rec["handled"] = handled[0]
            res["events"].append(rec)
            if rec["status"] != "ok":
                break
        return state

    state = asyncio.run(go())
    tracer.take()
    res["aborts"] = tracer.aborts.take()
    if state is not None:
        res["markers"] = {k: v for k, v in state.context.items() if k.startswith("m_") and isinstance(v, (bool, int, str, type(None)))}
        fl = {}
        for fs in state.flow_states.values():
            fl.setdefault(fs.flow_id, []).append(fs.status.name)
        res["flows"] = fl
    return res



def shipped_dirs():
    """Every directory of the repository that contains .co files (library, examples, tests)."""
    dirs = set()
    for root, _d, files in os.walk(C.REPO):
        if "/.git" in root or "/node_modules" in root:
            continue
        if any(f.endswith(".co") for f in files):
            dirs.add(os.path.relpath(root, C.REPO))
    return sorted(dirs)


def run_case_shipped(sm, case):
    """Load shipped Colang 2 flows with the repository's own parser + expansion and map them to
    model elements.  Returns per flow the loaded elements (or the loader error)."""
    import glob

    from nemoguardrails import RailsConfig
    from nemoguardrails.colang.v2_x.runtime.flows import InternalEvents, State
    from nemoguardrails.colang.v2_x.runtime.runtime import create_flow_configs_from_flow_list

    res = {"id": case["id"], "mode": "shipped", "flows": [], "skipped": [], "error": None}

    def load_config(config, origin):
        if getattr(config, "colang_version", "1.0") != "2.x":
            res["skipped"].append([origin, "colang 1.0"])
            return
        fcs = create_flow_configs_from_flow_list(config.flows)
        state = State(flow_states={}, flow_configs=fcs)
        idx = {fid: i for i, fid in enumerate(fcs)}
        res.setdefault("programs", []).append({"origin": origin, "n_flows": len(fcs), "has_main": "main" in fcs})
        for fid, fc in fcs.items():
            try:
                sm.initialize_flow(state, fc)
            except Exception as e:
                res["skipped"].append([origin + "::" + fid, "expand:" + type(e).__name__ + ":" + str(e)[:80]])
                continue
            try:
                elems, _labels = load_flow(fc, idx, set(InternalEvents.ALL))
            except LoaderError as e:
                res["flows"].append({"origin": origin, "flow": fid, "loader_error": str(e)})
                continue
            res["flows"].append({"origin": origin, "flow": fid, "elems": elems, "awaits": {str(k): g for k, g in load_flow.last_awaits.items()},
                                 "dynamic": load_flow.last_dynamic, "root": fid == "main" or "active" in getattr(fc, "decorators", {}),
                                 "lib": bool(fc.source_file and "colang/v2_x/library" in str(fc.source_file))})

    for rel in case["paths"]:
        d = os.path.join(C.REPO, rel)
        ymls = glob.glob(os.path.join(d, "*.yml")) + glob.glob(os.path.join(d, "*.yaml"))
        is_v2 = any("2.x" in open(y, errors="replace").read() for y in ymls)
        try:
            if ymls and is_v2:
                load_config(RailsConfig.from_path(d), rel)
            elif ymls:
                res["skipped"].append([rel, "colang 1.0 config"])
            else:
                for co in sorted(glob.glob(os.path.join(d, "*.co"))):
                    origin = os.path.relpath(co, C.REPO)
                    try:
                        txt = open(co, errors="replace").read()
                        load_config(RailsConfig.from_content(colang_content=txt, yaml_content="colang_version: 2.x\n"), origin)
                    except Exception as e:
                        res["skipped"].append([origin, "parse:" + type(e).__name__])
        except Exception as e:
            res["skipped"].append([rel, "load:" + type(e).__name__ + ":" + str(e)[:80]])
    return res


def worker_main(jobfile, outfile):
    sm = _worker_setup()
    tracer = SlideTracer(sm)
    counter = StepCounter(sm)
    tracer.aborts = AbortTracer(sm)
    import threading

    cases = json.load(open(jobfile))
    limit = float(os.environ.get("C10_CASE_TIMEOUT", "30"))
    with open(outfile, "a") as out:
        for case in cases:
            out.write(json.dumps({"begin": case["id"]}) + "\n")
            out.flush()
            t0 = time.time()
            # watchdog: a case that does not return (e.g. slide spinning) kills the worker; the parent
            # attributes the hang to the case that was begun (shell `timeout` stays as backstop)
            wd = threading.Timer(limit * (4 if case.get("mode") in ("pe", "shipped") else 1), lambda: os._exit(124))
            wd.daemon = True
            wd.start()
            try:
                if case.get("mode") == "pe":
                    r = run_case_pe(sm, tracer, counter, case)
                elif case.get("mode") == "shipped":
                    r = run_case_shipped(sm, case)
                else:
                    r = run_case_direct(sm, tracer, counter, case)
            except sm.VerifStepBudgetExceeded:
                r = {"id": case["id"], "error": "budget-outside-run"}
            except Exception as e:
                import traceback

                r = {"id": case["id"], "error": "worker:" + type(e).__name__ + ":" + str(e)[:300],
                     "tb": traceback.format_exc()[-1500:]}
            wd.cancel()
            r["wall"] = round(time.time() - t0, 3)
            out.write(json.dumps(r) + "\n")
            out.flush()



# =======================================================================================
# Parent side: job distribution (child processes under `timeout`), Coq case printing


def run_jobs(cases, tag, nproc=None, per_case_timeout=20, startup=40):
    """Run cases in worker processes.  A worker that hangs is killed by `timeout`; the case it was
    working on is reported as {"hang": True} and the remaining cases of that batch are re-run."""
    import subprocess
    from concurrent.futures import ThreadPoolExecutor

    nproc = nproc or C.NPROC
    d = os.path.join(C.BUILD, "c10", tag)
    os.makedirs(d, exist_ok=True)
    results = {}
    pending = list(cases)
    rounds = 0
    while pending and rounds < 6:
        rounds += 1
        n = max(1, min(nproc, (len(pending) + 3) // 4)) if len(pending) < nproc * 4 else nproc
        batches = [pending[i::n] for i in range(n)]
        batches = [b for b in batches if b]

        def one(ib):
            i, batch = ib
            jf = os.path.join(d, f"job_{rounds}_{i}.json")
            of = os.path.join(d, f"out_{rounds}_{i}.jsonl")
            if os.path.exists(of):
                os.remove(of)
            json.dump(batch, open(jf, "w"))
            tmo = startup + per_case_timeout * len(batch)
            env = dict(os.environ)
            env.update(C.impl_env())
            env["VERIF_REPO"] = C.REPO
            p = subprocess.run(["timeout", "-k", "5", str(tmo), C.PY, "-m", "harness.c10", "--worker", jf, of],
                               cwd=C.VERIF, env=env, stdout=subprocess.DEVNULL, stderr=subprocess.PIPE, text=True,
                               errors="replace")
            return p.returncode, of, p.stderr[-2000:]

        with ThreadPoolExecutor(max_workers=len(batches)) as ex:
            outs = list(ex.map(one, list(enumerate(batches))))
        new_pending = []
        for (rc, of, err), batch in zip(outs, batches):
            begun = None
            done = set()
            if os.path.exists(of):
                for line in open(of):
                    try:
                        r = json.loads(line)
                    except ValueError:
                        continue
                    if "begin" in r:
                        begun = r["begin"]
                    else:
                        results[r["id"]] = r
                        done.add(r["id"])
            if rc != 0:
                # the case that was begun but not finished hung or crashed the interpreter
                if begun is not None and begun not in done:
                    results[begun] = {"id": begun, "hang": rc == 124, "crash": rc != 124, "rc": rc, "stderr": err[-600:]}
                    done.add(begun)
                elif begun is None:
                    for c in batch:
                        results[c["id"]] = {"id": c["id"], "error": "worker-start:" + err[-300:]}
                        done.add(c["id"])
            new_pending += [c for c in batch if c["id"] not in done]
        pending = new_pending
    for c in pending:
        results[c["id"]] = {"id": c["id"], "error": "not-run"}
    return results


def slide_term(sc, elems):
    exp = "({k}, {p}, {t}, {n}, {ec}, {path}, {st})".format(
        k=sc["kind"], p=sc["pos"], t=C.coq_list([str(x) for x in sc["targets"]]), n=sc["steps"],
        ec=C.coq_list([str(x) for x in sc["end_catch"]]), path=C.coq_list([str(x) for x in sc["path"]]),
        st=C.coq_list([f"({a}, {C.coq_bool(b)})" for a, b in sc["starts"]]))
    return "({es}, {o}, {s}, {cs}, {e})".format(
        es=coq_elems(elems), o=C.coq_list(sc["outs"]), s=sc["start"],
        cs=C.coq_list([str(x) for x in sc["catch"]]), e=exp)


def tup(x):
    """JSON round trip turns tuples into lists; normalise elements back to tuples."""
    return tuple(tuple(y) if isinstance(y, list) and False else y for y in x)



# =======================================================================================
# Generator 1: programs that satisfy the premise (every loop and every recursive call contains a
# statement waiting for an external event), including activated flows that abort / raise /
# finish immediately, children starting children, when/else, groups


EVENTS = ["E0", "E1", "E2", "E3"]


class ProgGen:
    def __init__(self, rng):
        self.rng = rng
        self.features = set()

    def program(self):
        rng = self.rng
        k = rng.randint(2, 5)
        self.k = k
        self.activatable = [rng.random() < 0.6 for _ in range(k)]
        flows = []
        for i in range(k):
            flows.append(self.flow(i))
        # main: activates / starts / awaits the others, then waits
        body = []
        used = set()
        for _ in range(rng.randint(1, 4)):
            j = rng.randrange(k)
            r = rng.random()
            if self.activatable[j] and r < 0.6:
                body.append(f"activate f{j}")
                self.features.add("activate")
            elif r < 0.85:
                body.append(f"start f{j}")
            else:
                body.append(f"start f{j} and f{rng.randrange(k)}")
                self.features.add("group-start")
            used.add(j)
        body.append("match E9()")
        flows.append("flow main\n" + "\n".join("  " + l for l in body))
        return "\n\n".join(flows) + "\n"

    def special_activated(self, i):
        """The shapes named in the property: an activated flow that aborts / raises / finishes before it
        waits.  Family: <prefix of statements that do not wait> ; <failure> ; [match ; ...] where the
        prefix may contain actions and child starts (so that the failing advance is not the first
        one and the flow status is STARTING), the failure is an abort, an erroneous expression, an
        action whose event cannot be created, an immediate end or a failing child, and the failure
        happens on every start or - through a global flag - only from the second start on (then
        the activating parent is not affected)."""
        rng = self.rng
        later = [j for j in range(i + 1, self.k)]
        prefix = []
        for _ in range(rng.choice([0, 0, 1, 1, 2, 3])):
            q = rng.random()
            if q < 0.3:
                prefix.append(f"send Out{rng.randrange(2)}()")
            elif q < 0.55:
                prefix.append(f'start UtteranceBotAction(script="p{rng.randrange(3)}")')
            elif q < 0.75 and later:
                prefix.append(f"start f{rng.choice(later)}")
            elif q < 0.9:
                prefix.append(f"$v{rng.randrange(3)} = {rng.randrange(4)}")
            else:
                prefix.append('log "p"')
        kind = rng.choice(["abort", "raise", "illtyped-action", "finish", "child-fails", "loser"])
        when = rng.choice(["always", "on-restart", "on-restart"])
        pre = ("first" if not prefix else
               "after-action" if any("Action" in x or x.startswith("send") for x in prefix) else
               "after-child-start" if any(x.startswith("start f") for x in prefix) else "after-plain-statements")
        self.features.add(f"activated:{kind}:{when}")
        self.features.add(f"activated-prefix:{pre}")
        fail = {
            "abort": ["abort"],
            "raise": [rng.choice(['$x = 1 + "a"', "$x = $undefined + 1", '$x = regex("(")', "$x = $u.foo.bar", "$x = 10 / 0"])],
            "illtyped-action": [rng.choice(["start UtteranceBotAction(script=3)", "start UtteranceBotAction(script=None)",
                                            "send StartUtteranceBotAction(script=3)", "await UtteranceBotAction(script=$v0)"])],
            "finish": [rng.choice(["return", "return 3"])],
            "child-fails": ([f"start f{rng.choice(later)}"] if later else ["abort"]),
            "loser": ["send Out0()"],
        }[kind]
        ev = rng.choice(EVENTS)
        if kind in ("child-fails", "loser"):
            # the failure is the child's / the lost action conflict: nothing to guard
            return prefix + fail + [f"match {ev}()"] + ([rng.choice(["abort", '$x = 1 + "a"', "$v0 = 1"])] if rng.random() < 0.5 else [])
        if when == "always":
            tail = [] if kind == "finish" else [f"match {ev}()"]
            return prefix + fail + tail
        return ["global $g"] + prefix + ["if $g == 1"] + ["  " + l for l in fail] + [f"match {ev}()", "$g = 1"]

    def flow(self, i):
        rng = self.rng
        self.i = i
        if self.activatable[i] and rng.random() < 0.45:
            body = self.special_activated(i)
        elif rng.random() < 0.15:
            body = [rng.choice(["abort", '$x = 1 + "a"', "$x = 1"])]     # leaf that fails / finishes at once
        else:
            body = self.block(2, False, self.activatable[i])[0]
        return f"flow f{i}\n" + "\n".join("  " + l for l in body)

    def call_target(self, waited):
        """index of a flow this flow may start here: later flows always; any flow (recursion) only
        after a waiting statement"""
        rng = self.rng
        later = list(range(self.i + 1, self.k))
        if waited and rng.random() < 0.3:
            self.features.add("recursion-after-wait")
            return rng.randrange(self.k)
        return rng.choice(later) if later else None

    def block(self, depth, waited, restricted):
        """returns (lines, waited_after). `restricted`: flow may be activated -> statements that wait
        for the END of a child flow only after an external wait."""
        rng = self.rng
        lines = []
        for _ in range(rng.randint(1, 4)):
            r = rng.random()
            if r < 0.22:
                ev = rng.choice(EVENTS)
                q = rng.random()
                if q < 0.7:
                    lines.append(f"match {ev}()")
                elif q < 0.85:
                    lines.append(f"match {ev}() or {rng.choice(EVENTS)}()")
                    self.features.add("or-group")
                else:
                    lines.append(f"match {ev}() and {rng.choice(EVENTS)}()")
                    self.features.add("and-group")
                waited = True
            elif r < 0.36:
                v = rng.randrange(3)
                lines.append(rng.choice([f"$v{v} = {rng.randrange(4)}", f"$v{v} = $v{v} + 1", f'$v{v} = "s"', 'log "x"']))
            elif r < 0.44:
                q = rng.random()
                if q < 0.6:
                    lines.append(f"send Out{rng.randrange(2)}()")
                elif q < 0.9:
                    lines.append(f'start UtteranceBotAction(script="s{rng.randrange(3)}")')
                else:
                    lines.append(rng.choice(["start UtteranceBotAction(script=3)", "start UtteranceBotAction(script=$v1)"]))
                    self.features.add("illtyped-action")
                self.features.add("action-send")
            elif r < 0.62:
                j = self.call_target(waited)
                if j is None:
                    continue
                q = rng.random()
                if q < 0.45 or (restricted and not waited):
                    if self.activatable[j] and rng.random() < 0.4:
                        lines.append(f"activate f{j}")
                        self.features.add("nested-activate")
                    else:
                        lines.append(f"start f{j}")
                        self.features.add("start-child")
                elif q < 0.8:
                    lines.append(f"await f{j}")
                    self.features.add("await-child")
                else:
                    j2 = self.call_target(waited)
                    lines.append(f"await f{j} {rng.choice(['or', 'and'])} f{j2 if j2 is not None else j}")
                    self.features.add("group-await")
            elif r < 0.72 and depth > 0:
                v = rng.randrange(3)
                b1, w1 = self.block(depth - 1, waited, restricted)
                lines.append(f"if $v{v} == {rng.randrange(3)}")
                lines += ["  " + l for l in b1]
                if rng.random() < 0.5:
                    b2, w2 = self.block(depth - 1, waited, restricted)
                    lines.append("else")
                    lines += ["  " + l for l in b2]
                    waited = waited or (w1 and w2)
                self.features.add("if")
            elif r < 0.82 and depth > 0:
                # loops: the body starts with a waiting statement
                ev = rng.choice(EVENTS)
                b, _ = self.block(depth - 1, True, restricted)
                if rng.random() < 0.5:
                    c = f"c{depth}{rng.randrange(9)}"
                    lines.append(f"${c} = 0")
                    lines.append(f"while ${c} < {rng.randint(1, 3)}")
                    lines += [f"  match {ev}()", f"  ${c} = ${c} + 1"] + ["  " + l for l in b]
                    self.features.add("while-counter")
                else:
                    lines.append("while True")
                    lines += [f"  match {ev}()"] + ["  " + l for l in b]
                    lines += [f"  if $v0 == {rng.randrange(3)}", "    break"]
                    self.features.add("while-true-break")
                waited = True
            elif r < 0.90 and depth > 0:
                b1, _ = self.block(depth - 1, True, restricted)
                lines.append(f"when {rng.choice(EVENTS)}()")
                lines += ["  " + l for l in b1]
                if rng.random() < 0.6:
                    b2, _ = self.block(depth - 1, True, restricted)
                    lines.append(f"or when {rng.choice(EVENTS)}()")
                    lines += ["  " + l for l in b2]
                if rng.random() < 0.3:
                    j = self.call_target(waited)
                    if j is not None and (waited or not restricted):
                        b3, _ = self.block(depth - 1, waited, restricted)
                        lines.append(f"or when f{j}")
                        lines += ["  " + l for l in b3]
                        self.features.add("when-flow")
                waited = True
                self.features.add("when")
            elif r < 0.94:
                lines.append(rng.choice(["abort", "return 1", "return"]))
                self.features.add("abort/return")
                break
            elif r < 0.97 and waited and restricted:
                lines.append("start_new_flow_instance:")
                self.features.add("start_new_flow_instance")
            else:
                lines.append(rng.choice(['$x = 1 + "a"', "$x = $undefined.a.b"]))
                self.features.add("raise")
        if not lines:
            lines = ['log "x"']
        return lines, waited


def gen_term_cases(rng, n, features):
    cases = []
    for i in range(n):
        g = ProgGen(rng)
        src = g.program()
        evs = [rng.choice(EVENTS + ["E0", "E1"]) for _ in range(rng.randint(3, 6))]
        cases.append({"id": f"term{i}", "kind": "term", "src": src, "events": evs, "features": sorted(g.features)})
        for f in g.features:
            features[f] = features.get(f, 0) + 1
    return cases


# the programs of DESIGN section 5 / F4 and their relatives, always run first
F4_PROGRAMS = [
    ("activated-abort", "flow a\n  abort\n\nflow main\n  activate a\n  match X()\n"),
    ("activated-raise", 'flow a\n  $x = 1 + "a"\n  match Y()\n\nflow main\n  activate a\n  match X()\n'),
    ("activated-finish", "flow a\n  $x = 1\n\nflow main\n  activate a\n  match X()\n"),
    ("activated-child-aborts-later",
     "flow b\n  global $n\n  if $n == 1\n    abort\n  match Z()\n\nflow a\n  global $n\n  start b\n  match E0()\n  $n = 1\n\n"
     "flow main\n  activate a\n  match X()\n"),
    ("activated-cond-abort",
     "flow a\n  global $g\n  if $g == 1\n    abort\n  match E0()\n  $g = 1\n\nflow main\n  activate a\n  match X()\n"),
    ("activated-wait-abort", "flow a\n  match E0()\n  abort\n\nflow main\n  activate a\n  match X()\n"),
    ("activated-and-group", 'flow a\n  start UtteranceBotAction(script="A")\n  match E0()\n\nflow b\n'
     '  start UtteranceBotAction(script="B")\n  match E0()\n\nflow main\n  activate a and b\n  match X()\n'),
]


# programs OUTSIDE the premise (a loop whose only waits are satisfied inside the same processing
# step): run on every check, the outcome is recorded in the evidence, never a finding
OBSERVE_PROGRAMS = [
    ("implicit-loop(activate a; a: await b; b finishes at once)",
     "flow b\n  $x = 1\n\nflow a\n  await b\n\nflow main\n  activate a\n  match X()\n"),
    ("explicit-loop(while True: await b; b finishes at once)",
     "flow b\n  $x = 1\n\nflow a\n  while True\n    await b\n\nflow main\n  start a\n  match X()\n"),
    ("same-with-a-child-that-waits(activate a; a: await b; b: match E())",
     "flow b\n  match E()\n\nflow a\n  await b\n\nflow main\n  activate a\n  match X()\n"),
]


# =======================================================================================
# Generator 2: error injection at every statement position


BAD = {
    "undef-arith": "$undef + 1",
    "wrong-type": '1 + "a"',
    "bad-regex": 'regex("(")',
    "bad-member": "$undef.foo.bar",
    # plain Python exceptions (not one of the Colang error classes), see _worker_setup
    "py-AssertionError": 'verif_raise("AssertionError")',
    "py-KeyError": 'verif_raise("KeyError")',
    "py-AttributeError": 'verif_raise("AttributeError")',
    "py-TypeError": 'verif_raise("TypeError")',
    "py-ZeroDivisionError": 'verif_raise("ZeroDivisionError")',
}

# statement templates: (name, site, lines with {X} = erroneous expression, is_wait)
#   site = where the error surfaces in the interpreter
STMTS = [
    ("assign", "slide", ["$a = {X}"]),
    ("send-param", "slide", ["send Out(p={X})"]),
    ("if-cond", "slide", ["if {X}", "  $a = 1"]),
    ("while-cond", "slide", ["while {X}", "  match Never2()"]),
    ("return", "slide", ["return {X}"]),
    ("log", "slide", ["log {X}"]),
    ("priority", "slide", ["priority {X}"]),
    ("start-arg", "slide", ["start child ({X})"]),
    ("internal-send", "slide", ["send FinishFlow(flow_id={X})"]),
]
# actions whose arguments evaluate but whose outgoing event cannot be created (validation of the
# UMIM event): the error surfaces when the actionable head is turned into an event
ILLTYPED = {"illtyped-int": "3", "illtyped-none": "None", "illtyped-var": "$f"}
ACTION_STMTS = [
    ("action-start-illtyped", "action-event", ["start UtteranceBotAction(script={X})"]),
    ("action-send-illtyped", "action-event", ["send StartUtteranceBotAction(script={X})"]),
    ("action-await-illtyped", "action-event", ["await UtteranceBotAction(script={X})"]),
]
MATCH_STMTS = [
    ("match-param", "match-param", "match {EV}(p={X})"),
    ("match-group", "match-param", "match {EV}(p={X}) or Never3()"),
    ("match-or-same-event", "match-param", "match {EV}(p={X}) or {EV}(q=1)"),
    ("match-or-same-event-2nd", "match-param", "match {EV}(q=1) or {EV}(p={X})"),
    ("match-and-same-event", "match-param", "match {EV}(p={X}) and {EV}(q=1)"),
    ("when-same-event", "match-param", "when {EV}(p={X})\n  $a = 1\nor when {EV}(q=1)\n  $a = 2"),
    ("when-param", "match-param", "when {EV}(p={X})\n  $a = 1"),
    ("match-cmp", "match-param", "match {EV}(p=less_than(3))"),          # event carries p="abc"
    ("match-bad-ref", "match-reference", "match {EV}()\nmatch $nope.Finished()"),
    ("match-bad-member", "match-reference", "match {EV}()\nmatch $undef.foo.Finished()"),
    # AssertionError of FlowState.get_event, raised from the head-position callback / inside slide
    ("match-bogus-flow-event", "match-reference", "start child 1 as $cref\nmatch {EV}()\nmatch $cref.Bogus()"),
    ("send-bogus-flow-event", "match-reference", "start child 1 as $cref\nmatch {EV}()\nsend $cref.Bogus()"),
]


def inject_program(stmt_lines, seg, start_mode, in_child, faulty_first):
    """seg = 0: the statement runs when `faulty` is started (event Go); 1: after X; 2: after Y."""
    filler = ["$f = 1", 'log "f"']
    body = []
    segs = [[], [], []]
    segs[seg] = stmt_lines
    lines = [filler[0]] + segs[0] + ["match X()", filler[1]] + segs[1] + ["match Y()", filler[0]] + segs[2] + ["match Never4()"]
    return lines


def build_inject_src(body_lines, start_mode, in_child, faulty_first, with_waiter=False, acting=True):
    ind = lambda ls: "\n".join("  " + l for l in ls)
    flows = []
    flows.append("flow child $p\n  match NeverC()")
    if with_waiter:
        # a running child of the faulty flow that waits for the same event names with another head
        flows.append("flow waiter\n  match X(q=1) or Y(q=1) or W(q=1)\n  match Never6()")
        body_lines = ["start waiter"] + list(body_lines)
    if in_child:
        flows.append("flow inner\n" + ind(body_lines))
        flows.append("flow faulty\n  $q = 1\n  await inner")
    else:
        flows.append("flow faulty\n" + ind(body_lines))
    launch = {"start": "start faulty", "await": "await faulty", "activate": "activate faulty"}[start_mode]
    flows.append("flow launcher\n  match Go()\n  " + launch + "\n  match Never5()")
    for name in ("other", "other2"):
        flows.append(f"flow {name}\n  global $m_{name}_go\n  global $m_{name}_x\n  global $m_{name}_y\n  global $m_{name}_w\n  global $m_{name}_z\n"
                     f"  match Go()\n  $m_{name}_go = True\n  match X()\n  $m_{name}_x = True\n  match Y()\n  $m_{name}_y = True\n"
                     f"  match W()\n  $m_{name}_w = True\n  match Z()\n  $m_{name}_z = True")
    # a bystander in its own interaction loop that ACTS in the same processing cycle
    if acting:
        flows.append('@loop("b3")\nflow other3\n  match Go()\n  send B3Go()\n  match X()\n  send B3X()\n  match Y()\n  send B3Y()\n'
                     "  match W()\n  send B3W()\n  match Z()\n  send B3Z()")
    else:   # the faulty flow owns the only actionable head of its processing step
        flows.append("flow other3\n  match NeverB3()")
    flows.append("flow sup\n  global $m_sup\n  match ColangError()\n  $m_sup = True")
    main = ["start other"] + (["start launcher"] if faulty_first else ["start other3"]) + ["start sup"] + \
           (["start other3"] if faulty_first else ["start launcher"]) + ["start other2", "match Never()"]
    flows.append("flow main\n" + ind(main))
    return "\n\n".join(flows) + "\n"


def gen_inject_cases(rng, limit, hist):
    all_cases = []
    for start_mode in ("start", "await", "activate"):
        for in_child in (False, True):
            for faulty_first in (True, False):
                for with_waiter in (False, True):
                    for seg in (0, 1, 2):
                        ctx = (seg, start_mode, in_child, faulty_first, with_waiter)
                        for name, site, tmpl in STMTS + ACTION_STMTS:
                            for bk, bx in (ILLTYPED if site == "action-event" else BAD).items():
                                lines = [t.replace("{X}", bx) for t in tmpl]
                                body = inject_program(lines, seg, start_mode, in_child, faulty_first)
                                all_cases.append((name, site, bk) + ctx + (body,))
                                if site == "action-event":
                                    all_cases.append((name + "-alone", site, bk) + ctx + (body,))
                        for name, site, tmpl in MATCH_STMTS:
                            kinds = ["cmp"] if name == "match-cmp" else (["ref"] if site == "match-reference" else list(BAD))
                            for bk in kinds:
                                ev = {0: "X", 1: "Y", 2: "W"}[seg]
                                txt = tmpl.replace("{EV}", ev).replace("{X}", BAD.get(bk, ""))
                                mlines = txt.split("\n")
                                filler = ["$f = 1", 'log "f"']
                                # the erroneous match REPLACES the wait of its segment
                                if seg == 0:
                                    body = [filler[0]] + mlines + [filler[1], "match Y()", "match Never4()"]
                                elif seg == 1:
                                    body = [filler[0], "match X()", filler[1]] + mlines + ["match Never4()"]
                                else:
                                    body = [filler[0], "match X()", "match Y()", filler[1]] + mlines + ["match Never4()"]
                                all_cases.append((name, site, bk) + ctx + (body,))
    rng.shuffle(all_cases)
    # stratify: every (statement, bad kind, start mode) and every (statement, waiter, in_child) at least once
    seen = set()
    chosen, rest = [], []
    for c in all_cases:
        keys = [(c[0], c[2], c[4]), (c[0], c[7], c[5], c[6])]
        if any(k not in seen for k in keys):
            seen.update(keys)
            chosen.append(c)
        else:
            rest.append(c)
    chosen = (chosen + rest)[:limit] if limit else chosen + rest
    cases = []
    for n, (name, site, bk, seg, start_mode, in_child, faulty_first, with_waiter, body) in enumerate(chosen):
        src = build_inject_src(body, start_mode, in_child, faulty_first, with_waiter, acting=not name.endswith("-alone"))
        events = ["Go", {"type": "X", "p": "abc"}, {"type": "Y", "p": "abc"}, {"type": "W", "p": "abc"}, "Z", "Q"]
        cases.append({"id": f"inj{n}", "kind": "inject", "src": src, "events": events,
                      "meta": {"stmt": name, "site": site, "bad": bk, "segment": seg, "start": start_mode,
                               "in_child": in_child, "faulty_first": faulty_first, "waiter": with_waiter}})
        hist[name] = hist.get(name, 0) + 1
    return cases, len(all_cases)


# =======================================================================================
# Generator 3: flows that answer each other with plain events, driven through process_events (which
# feeds outgoing events back as input events).  Every loop contains a waiting statement and every
# single run_to_completion ends; what bounds ONE processing cycle is the `max_events` cap.


def gen_exchange_cases(rng, n):
    cases = []
    for i in range(n):
        k = rng.randint(2, 4)
        shape = rng.choice(["ring", "ring", "chain", "counted-ring", "loop-ring", "fan"])
        m = rng.choice([16, 24, 40])
        flows = []
        mains = ["global $n", "$n = 0"]
        for j in range(k):
            nxt = f"P{(j + 1) % k}"
            if shape == "chain" and j == k - 1:
                nxt = "Done"
            if shape == "loop-ring":
                flows.append(f"flow r{j}\n  while True\n    match P{j}()\n    send {nxt}()")
                mains.append(f"start r{j}")
            elif shape == "counted-ring" and j == 0:
                flows.append(f"flow r0\n  global $n\n  match P0()\n  $n = $n + 1\n  if $n < 3\n    send {nxt}()\n  else\n    send Done()")
                mains.append("activate r0")
            elif shape == "fan" and j == 0:
                flows.append(f"flow r0\n  match P0()\n  send P1()\n\nflow r0b\n  match P0()\n  $x = 1")
                mains += ["activate r0", "activate r0b"]
            else:
                flows.append(f"flow r{j}\n  match P{j}()\n  send {nxt}()")
                mains.append(f"activate r{j}")
        flows.append("flow greeter\n  match Hello()\n  send HelloBack()")
        mains += ["activate greeter", "match NeverEvent()"]
        src = "\n\n".join(flows) + "\n\nflow main\n" + "\n".join("  " + l for l in mains) + "\n"
        cases.append({"id": f"xchg{i}", "kind": "exchange", "mode": "pe", "src": src, "events": ["P0", "Hello", "P0"],
                      "max_events": m, "call_timeout": 20, "shape": shape, "flows": k})
    return cases


def exchange_verdict(case, r):
    if r.get("hang"):
        return [("does-not-return", "worker watchdog: process_events did not return")]
    if r.get("crash"):
        return [("interpreter-crash", r.get("stderr", "")[-200:])]
    if r.get("error"):
        return [("harness-error", r["error"])]
    bad = []
    m = case["max_events"]
    for k, e in enumerate(r["events"]):
        if e["status"] == "timeout":
            return [("does-not-return", f"process_events call #{k} did not return within {case.get('call_timeout', 30)} s ({e.get('handled')} events handled so far, max_events={m})")]
        if e["status"] == "max_events-exceeded" or e.get("handled", 0) > m:
            return [("handles-more-than-max_events", f"process_events call #{k} handled {e.get('handled')} events, max_events={m}")]
        if e["status"] != "ok":
            return [("exception-escapes-process_events", e["status"])]
    ev = r["events"]
    if len(ev) >= 2 and "P1" not in ev[1].get("out", []):
        bad.append(("flows-do-not-answer", f"no P1 among the outputs of the first P0: {ev[1].get('out', [])[:6]}"))
    if case["shape"] in ("chain", "counted-ring") and len(ev) >= 2:
        if "Done" not in ev[1].get("out", []) or ev[1].get("handled", 0) >= m:
            bad.append(("terminating-exchange-cut-off", f"the exchange ends by itself after few events, got {ev[1].get('out', [])[-4:]} after {ev[1].get('handled')} handled events (max_events={m})"))
    if len(ev) >= 3 and "HelloBack" not in ev[2].get("out", []):
        bad.append(("later-event-not-processed", f"the unrelated flow did not answer Hello after the exchange: {ev[2].get('out', [])[:6]}"))
    return bad


# =======================================================================================
# Generator 4: bystanders with multi-step progress.  The run WITH the faulty flow, projected to the
# outputs of the bystanders, must equal the run in which the same flow does not fail.  Bystander
# kinds: plain started flow, awaited child of another (healthy) flow, flow activated by a healthy
# flow only, flow activated by a healthy flow AND by the faulty flow (shared reference).

BY_KINDS = ["plain", "awaited", "acthealthy", "actshared"]


def gen_progress_pairs(rng, n):
    pairs = []
    slide_stmts = [t for t in STMTS + ACTION_STMTS if t[0] not in ("return", "while-cond")]
    for i in range(n):
        steps = {k: rng.randint(2, 3) for k in BY_KINDS}
        name, site, tmpl = rng.choice(slide_stmts)
        bads = ILLTYPED if site == "action-event" else BAD
        bk = rng.choice(sorted(bads))
        faulty = [t.replace("{X}", bads[bk]) for t in tmpl]
        healthy = ["$ok = 1"]
        launch = rng.choice(["start", "activate"])
        fault_after = rng.randint(1, 2)            # number of bystander steps before the fault

        def by_flow(kind):
            ls = []
            for j in range(steps[kind]):
                ls += [f"match S{j + 1}()", f"send By_{kind}_{j + 1}()"]
            return f'@loop("l_{kind}")\nflow by_{kind}\n' + "\n".join("  " + l for l in ls)

        def program(stmt):
            fl = ["flow child $p\n  match NeverC()"] + [by_flow(k) for k in BY_KINDS]
            fl.append('@loop("l_holder")\nflow holder\n  await by_awaited\n  send By_holder_done()')
            bad = ["$f = 1", "activate by_actshared", "match Go()"] + stmt + ["match NeverB()"]
            fl.append("flow bad\n" + "\n".join("  " + l for l in bad))
            main = ["start by_plain", "start holder", "activate by_acthealthy", "activate by_actshared", f"{launch} bad", "match NeverM()"]
            if rng_order:
                main = [f"{launch} bad"] + main[:-2] + ["match NeverM()"]
            fl.append("flow main\n" + "\n".join("  " + l for l in main))
            return "\n\n".join(fl) + "\n"

        rng_order = rng.random() < 0.5
        events = [f"S{j + 1}" for j in range(fault_after)] + ["Go"] + [f"S{j + 1}" for j in range(fault_after, 3)] + ["S1", "S2", "S3"]
        meta = {"stmt": name, "bad": bk, "launch": launch, "fault_after_steps": fault_after, "steps": steps, "bad_first": rng_order}
        pairs.append(({"id": f"prog{i}_f", "kind": "progress", "src": program(faulty), "events": events, "meta": meta, "pair": f"prog{i}_r"},
                      {"id": f"prog{i}_r", "kind": "progress-ref", "src": program(healthy), "events": events, "meta": meta}))
    return pairs


def progress_verdict(case, r, rref):
    for x in (r, rref):
        if x.get("hang") or x.get("crash"):
            return [("hang", "interpreter did not return")]
        if x.get("error"):
            return [("harness-error", x["error"])]
        if any(e["status"] != "ok" for e in x.get("events", [])):
            return [("event-processing-does-not-terminate", str([e["status"] for e in x["events"]]))]
    bad = []
    for k, (e1, e2) in enumerate(zip(r["events"], rref["events"])):
        o1 = sorted(t for t in e1.get("out", []) if t.startswith("By_"))
        o2 = sorted(t for t in e2.get("out", []) if t.startswith("By_"))
        if o1 != o2:
            diff = sorted(set(o1) ^ set(o2)) or o1
            kind = diff[0].split("_")[1] if diff else "?"
            evn = (["<start>"] + [str(x) for x in case["events"]])[k]
            bad.append((f"{kind}:differs-from-run-without-fault",
                        f"event #{k} ({evn}): bystander outputs {o1} with the faulty flow, {o2} when the same flow does not fail"))
            break
    return bad


def scenario_verdict(case, r):
    """Corpus kind "scenario": a program, events and the expected observable reactions
    (expect.out[k] = event types that must be among the outputs of event k (0 = start of main),
    expect.stopped / expect.alive = flows that must / must not have failed)."""
    if r.get("hang"):
        return [("hang", "interpreter did not return")]
    if r.get("crash"):
        return [("interpreter-crash", r.get("stderr", "")[-200:])]
    if r.get("error"):
        return [("harness-error", r["error"])]
    bad = []
    for k, e in enumerate(r["events"]):
        if e["status"] == "budget":
            return [("event-processing-does-not-terminate", f"event #{k}: step budget {e.get('budget')} exceeded")]
        if e["status"] in ("timeout", "max_events-exceeded"):
            return [("process_events-does-not-return", f"event #{k}: {e['status']} after {e.get('handled')} handled events")]
        if e["status"] != "ok":
            return [("exception-escapes-process_events", e["status"])]
    exp = case.get("expect", {})
    for k, want in enumerate(exp.get("out", [])):
        got = r["events"][k].get("out", []) if k < len(r["events"]) else []
        for t in want:
            if t not in got:
                bad.append(("expected-reaction-missing", f"event #{k}: `{t}` not among the outputs {got}"))
    fl = r.get("flows", {})
    for name in exp.get("stopped", []):
        if "STOPPED" not in fl.get(name, []):
            bad.append(("faulty-flow-did-not-fail", f"flow `{name}` statuses {fl.get(name)}"))
    for name in exp.get("alive", []):
        if "STOPPED" in fl.get(name, []):
            bad.append(("unrelated-flow-failed", f"flow `{name}` is STOPPED"))
    return bad


def inject_verdict(case, r):
    """Independent statement of the second half of the property on the observed run.
    Returns a list of (what, detail)."""
    bad = []
    if r.get("hang"):
        return [("hang", "interpreter did not return")]
    if r.get("crash"):
        return [("interpreter-crash", r.get("stderr", "")[-200:])]
    if r.get("error"):
        return [("harness-error", r["error"])]
    for k, e in enumerate(r["events"]):
        if e["status"] == "budget":
            bad.append(("event-processing-does-not-terminate", f"event #{k}"))
        elif e["status"] == "retry-loop":
            bad.append(("retry-loop-does-not-terminate", f"event #{k}"))
        elif e["status"] not in ("ok",):
            bad.append(("exception-escapes-process_events", e["status"]))
    if bad:
        return bad
    m = r.get("markers", {})
    fl = r.get("flows", {})
    if not m.get("m_sup"):
        bad.append(("no-ColangError-event", "supervisor flow `match ColangError()` never advanced"))
    seg = case["meta"]["segment"]
    # the event during whose processing the error surfaces
    if case["meta"]["site"] in ("slide", "action-event"):
        same = ["go", "x", "y"][seg]
    else:
        same = ["x", "y", "w"][seg]
    order = ["go", "x", "y", "w", "z"]
    for name in ("other", "other2"):
        for ev in order:
            if not m.get(f"m_{name}_{ev}"):
                what = "bystander-misses-same-event" if ev == same else "bystander-misses-later-event"
                bad.append((what, f"flow `{name}` did not react to event {ev.upper()}"))
                break
    # the bystander of the other interaction loop must have ACTED on every event
    for k, ev in enumerate(order if not case["meta"]["stmt"].endswith("-alone") else []):
        outs = r["events"][k + 1].get("out", []) if k + 1 < len(r["events"]) else []
        if "B3" + ev.capitalize() not in outs and "B3" + ev.upper() not in outs:
            what = "acting-bystander-misses-same-event" if ev == same else "acting-bystander-misses-later-event"
            bad.append((what, f"flow `other3` (own interaction loop) did not send its reaction to event {ev.upper()}"))
            break
    for name in ("other", "other2", "other3", "sup", "main"):
        if "STOPPED" in fl.get(name, []):
            bad.append(("unrelated-flow-failed", f"flow `{name}` is STOPPED"))
    target = "inner" if case["meta"]["in_child"] else "faulty"
    if "STOPPED" not in fl.get(target, []):
        bad.append(("faulty-flow-did-not-fail", f"flow `{target}` statuses {fl.get(target)}"))
    return bad



# =======================================================================================
# the check


def _flow_defs(programs):
    """Coq definitions for distinct element lists; returns (text, name_of(json_key))."""
    names = {}
    defs = {}
    for elems in programs:
        key = json.dumps(elems)
        if key not in names:
            names[key] = f"fl_{len(names)}"
            defs[names[key]] = f"Definition {names[key]} : list elem := {coq_elems([tuple(e) for e in elems])}."
    return defs, names


def term_signature(case, r):
    """Name the construct behind a non-terminating run (defect class)."""
    if r.get("hang"):
        return "interpreter-hangs-inside-run_to_completion"
    slides = r.get("slides", [])
    fl = r.get("flows", {})
    # the flow that keeps being re-instantiated
    culprit = max(fl, key=lambda k: len(fl[k])) if fl else None
    last = [s for s in slides if s["flow"] == culprit]
    prog = r.get("program", {})
    idx = r.get("flow_index", {})
    activated = False
    if culprit is not None and culprit in idx:
        ci = idx[culprit]
        activated = any(e[0] == "start" and e[1] == ci and e[2] for v in prog.values() for e in v["elems"])
    pre = "activated-flow" if activated else "flow"
    if not last:
        return f"{pre}-event-cascade-does-not-terminate"
    k = last[-1]["kind"]
    elems = prog[culprit]["elems"]
    waits_ext = any(elems[p][0] == "block" and elems[p][1] == "match" for s in last[-3:] for p in s["path"])
    if k == 3:
        return f"{pre}-aborts-before-waiting"
    if k == 4:
        return f"{pre}-raises-before-waiting"
    if k == 2:
        return f"{pre}-finishes-without-waiting-for-an-external-event"
    if k == 0 and not waits_ext:
        e = elems[last[-1]["pos"]] if last[-1]["pos"] < len(elems) else None
        if e is not None and e[0] == "waitint":
            return f"{pre}-fails-at-internal-wait-before-waiting"
    return f"{pre}-event-cascade-does-not-terminate"


def run(tier, seed, replay=None):
    out = C.Outcome(PID, tier, seed)
    rng = random.Random(seed * 1000003 + 10)
    t_start = time.time()
    b = C.build_and_audit(PID, GEN)
    C.proof_coverage(out, b, "make theories/Props/C10.vo && coqc Props/C10.v (Print Assumptions)")
    for br in b["broken"]:
        out.add_broken(br, b["log"])
    with C.BuildLock():
        okm, logm = C.coq_make(["theories/V2/TermRun.vo", "theories/V2/CascadeRun.vo"])
    if not okm:
        out.add_broken("coq:theories/V2/TermRun.v|CascadeRun.v", logm)

    quick = tier == "quick"
    scale = float(os.environ.get("C10_SCALE", "1"))
    n_term = int((220 if quick else 3000) * scale)
    n_inj_direct = int(330 * scale) if quick else 0          # 0 = all
    n_inj_pe = int((60 if quick else 600) * scale)
    features, inj_hist = {}, {}

    # ---- cases: corpus / replay first, F4 programs, generated
    cases = []
    corpus_dir = os.path.join(C.VERIF, "corpus", PID)
    corpus_n = 0
    if os.path.isdir(corpus_dir):
        for fn in sorted(os.listdir(corpus_dir)):
            if fn.endswith(".json"):
                d = json.load(open(os.path.join(corpus_dir, fn)))
                d = d.get("replay", d)
                if "src" in d:
                    d = dict(d)
                    d["id"] = "corpus_" + fn[:-5]
                    cases.append(d)
                    corpus_n += 1
    if replay:
        d = json.load(open(replay))
        d = dict(d.get("replay", d))
        if "src" in d:
            d["id"] = "replay"
            cases = [d]
            if d.get("kind") == "inject" and d.get("mode") != "pe":
                d2 = dict(d)
                d2["id"] = "replay_pe"
                d2["mode"] = "pe"
                cases.append(d2)
        n_term = n_inj_pe = 0
        n_inj_direct = -1
    else:
        for name, src in F4_PROGRAMS:
            cases.append({"id": "f4_" + name, "kind": "term", "src": src, "events": ["E0", "X", "E0", "E0"], "features": [name]})
        for k, (name, src) in enumerate(OBSERVE_PROGRAMS):
            cases.append({"id": f"observe{k}", "kind": "observe", "name": name, "src": src, "events": ["E", "E", "X"]})
    term_cases = gen_term_cases(rng, n_term, features) if n_term else []
    cases += term_cases
    total_inj = 0
    if n_inj_direct >= 0:
        inj_cases, total_inj = gen_inject_cases(rng, n_inj_direct, inj_hist)
        cases += inj_cases
        pe = []
        for c in inj_cases[:n_inj_pe]:
            c2 = dict(c)
            c2["id"] = c["id"] + "_pe"
            c2["mode"] = "pe"
            pe.append(c2)
        cases += pe
    n_xchg = 0
    if not replay:
        xc = gen_exchange_cases(rng, int((14 if quick else 120) * scale))
        n_xchg = len(xc)
        cases += xc
    n_prog = 0
    if not replay:
        for a, b2 in gen_progress_pairs(rng, int((24 if quick else 240) * scale)):
            cases += [a, b2]
            n_prog += 1
    elif cases and cases[0].get("kind") == "progress" and cases[0].get("src_ref"):
        ref = dict(cases[0])
        ref.update({"id": "replay_ref", "kind": "progress-ref", "src": cases[0]["src_ref"]})
        cases[0]["pair"] = "replay_ref"
        cases.append(ref)
    by_id = {c["id"]: c for c in cases}
    dirs = shipped_dirs() if not replay else []
    nship = 8
    ship_cases = [{"id": f"ship{i}", "mode": "shipped", "paths": dirs[i::nship]} for i in range(nship)] if dirs else []

    t0 = time.time()
    results = run_jobs(cases + ship_cases, "run", per_case_timeout=25)
    t_jobs = round(time.time() - t0, 1)

    # ---- shipped flows
    shipped = []
    ship_programs = []
    ship_skipped = []
    for c in ship_cases:
        r = results.get(c["id"], {})
        if r.get("error") or r.get("hang") or r.get("crash"):
            out.add_broken("translator:shipped-flows", json.dumps(r)[:1500])
        shipped += r.get("flows", [])
        ship_programs += r.get("programs", [])
        ship_skipped += r.get("skipped", [])
    loader_errors = [f for f in shipped if "loader_error" in f]
    for f in loader_errors[:1]:
        out.add_broken("translator:loader", f"{len(loader_errors)} shipped flows outside the vocabulary, e.g. {f}")

    # ---- direct oracle 1: termination
    findings = {}
    term_stats = {"runs": 0, "events": 0, "max_steps": 0, "max_ratio": 0.0, "not_a_program": 0, "budget_exceeded": 0, "hang": 0}
    slide_cases = []
    programs = {}
    bound_cases = []

    def add_finding(sig, what, payload):
        if sig not in findings:
            findings[sig] = (what, payload, 1)
        else:
            w, p0, n = findings[sig]
            # keep the smallest program
            if len(payload.get("src", "")) < len(p0.get("src", "")):
                w, p0 = what, payload
            findings[sig] = (w, p0, n + 1)

    restart_obs = {}
    xchg_handled = []
    observations = {}
    for c in cases:
        r = results.get(c["id"], {"error": "missing"})
        kind = c.get("kind", "term")
        for ab in r.get("aborts", []):
            key = (ab["act"], ab["nis"], ab["deact"], ab["started"], ab["restarted"])
            ent = restart_obs.setdefault(key, {"n": 0, "sites": {}, "case": None})
            ent["n"] += 1
            ent["sites"][ab["site"]] = ent["sites"].get(ab["site"], 0) + 1
            if ent["case"] is None or len(c.get("src", "")) < len(ent["case"][0].get("src", "")):
                ent["case"] = (c, ab)
        for sc in r.get("slides", []):
            slide_cases.append((c["id"], sc, r["program"][sc["flow"]]["elems"]))
        for fid, v in r.get("program", {}).items():
            programs[json.dumps(v["elems"])] = v["elems"]
        if kind == "term":
            if r.get("error"):
                if r["error"].startswith("init:"):
                    term_stats["not_a_program"] += 1
                else:
                    out.add_broken("harness:term-case", f"{c['id']}: {r['error']}\n{c['src']}")
                continue
            term_stats["runs"] += 1
            bad = None
            if r.get("hang") or r.get("crash"):
                bad = "hang" if r.get("hang") else "crash"
                term_stats["hang"] += 1
            else:
                for k, e in enumerate(r["events"]):
                    term_stats["events"] += 1
                    term_stats["max_steps"] = max(term_stats["max_steps"], e["steps"])
                    if e.get("budget"):
                        term_stats["max_ratio"] = max(term_stats["max_ratio"], round(e["steps"] / e["budget"], 4))
                    if e["status"] == "budget":
                        bad = f"step budget {e['budget']} exceeded while processing event #{k}"
                        term_stats["budget_exceeded"] += 1
                        break
                    if e["status"] != "ok":
                        bad = e["status"]
                        break
                if bad is None and "program" in r:
                    bound_cases.append((c["id"], r))
            if bad:
                sig = term_signature(c, r)
                add_finding(sig, f"run_to_completion does not terminate ({bad}); premise holds: every loop/recursion contains a waiting statement",
                            {"kind": "term", "src": c["src"], "events": c["events"], "observed": bad,
                             "instances_per_flow": {k: len(v) for k, v in r.get("flows", {}).items()}})
        elif kind == "observe":
            observations[c["name"]] = ("does not terminate (step budget exceeded)" if any(e["status"] == "budget" for e in r.get("events", []))
                                       else "hang" if r.get("hang") else "terminates" if not r.get("error") else r.get("error"))
        elif kind == "progress-ref":
            pass
        elif kind == "progress":
            rref = results.get(c.get("pair"), {"error": "missing"})
            for what, det in progress_verdict(c, r, rref):
                if what == "harness-error":
                    if not str(det).startswith("init:"):
                        out.add_broken("harness:progress-case", f"{c['id']}: {det}")
                    continue
                add_finding(f"bystander-progress:{what}", f"fault `{c['meta']['stmt']}` ({c['meta']['bad']}) in flow `bad`: {det}",
                            {"kind": "progress", "src": c["src"], "src_ref": by_id.get(c.get("pair"), {}).get("src"), "events": c["events"],
                             "meta": c["meta"], "observed": det})
        elif kind == "exchange":
            for what, det in exchange_verdict(c, r):
                if what == "harness-error":
                    if not str(det).startswith("init:"):
                        out.add_broken("harness:exchange-case", f"{c['id']}: {det}")
                    continue
                add_finding(f"process_events:event-exchange:{what}", f"flows answering each other with plain events ({c.get('shape')}, {c.get('flows')} flows): {det}",
                            {"kind": "exchange", "mode": "pe", "src": c["src"], "events": c["events"], "max_events": c["max_events"],
                             "call_timeout": c.get("call_timeout", 20), "shape": c.get("shape"), "flows": c.get("flows"), "observed": det})
            xchg_handled.append(max([e.get("handled", 0) for e in r.get("events", [])] + [0]))
        elif kind == "scenario":
            for what, det in scenario_verdict(c, r):
                if what == "harness-error":
                    out.add_broken("harness:scenario-case", f"{c['id']}: {det}")
                    continue
                add_finding(f"scenario:{c.get('name', c['id'])}:{what}", f"{c.get('note', '')} {det}",
                            {"kind": "scenario", "src": c["src"], "events": c["events"], "expect": c.get("expect", {}),
                             "name": c.get("name", c["id"]), "observed": det})
        else:
            verdicts = inject_verdict(c, r)
            for what, det in verdicts:
                if what == "harness-error":
                    if not str(det).startswith("init:"):
                        out.add_broken("harness:inject-case", f"{c['id']}: {det}")
                    continue
                sig = f"{c['meta']['site']}:{what}"
                add_finding(sig, f"error injected as `{c['meta']['stmt']}` ({c['meta']['bad']}), driver={c.get('mode', 'direct')}: {det}",
                            {"kind": "inject", "src": c["src"], "events": c["events"], "meta": c["meta"], "mode": c.get("mode", "direct"),
                             "observed": det})
    # ---- correspondence 4: the restart decision of every real _abort_flow call for a flow that fails by
    # itself equals the model's fail_inst under the repaired guard (restart iff activated, not yet
    # restarted, not deactivated and the flow HAD BEEN STARTED)
    restart_stats = {"abort_calls": sum(v["n"] for v in restart_obs.values()), "distinct": len(restart_obs),
                     "activated_not_started": sum(v["n"] for k, v in restart_obs.items() if k[0] and not k[3]),
                     "activated_started": sum(v["n"] for k, v in restart_obs.items() if k[0] and k[3])}
    if okm and restart_obs:
        keys = sorted(restart_obs)
        r_terms = ["(" + ", ".join(C.coq_bool(x) for x in k) + ")" for k in keys]
        bools, err = C.run_cases(PID + "_restart", PREAMBLE, r_terms, "check_restart")
        if err:
            out.add_broken("correspondence:C10-restart(coqc)", err)
        else:
            for ok, k in zip(bools, keys):
                if ok:
                    continue
                c, ab = restart_obs[k]["case"]
                how = ("restarted-although-it-never-started" if (k[4] and not k[3]) else
                       "restarted-against-the-model" if k[4] else "not-restarted-although-the-model-restarts")
                out.add_broken("correspondence:C10-restart", f"(activated, new_instance_started, deactivate, had been STARTED, restarted) = {k} "
                                                           f"x{restart_obs[k]['n']} at {restart_obs[k]['sites']}")
                add_finding(f"activated-flow-{how}:{ab['site']}",
                            f"_abort_flow called from {ab['site']} for flow `{ab['flow']}` (activated={k[0]}, had been STARTED={k[3]}): "
                            f"restart StartFlow queued = {k[4]}, the model of the repaired restart logic says {not k[4]} "
                            f"[{restart_obs[k]['n']} calls]",
                            {"kind": c.get("kind", "term"), "src": c.get("src"), "events": c.get("events"), "meta": c.get("meta"),
                             "mode": c.get("mode", "direct"), "expect": c.get("expect"), "abort_call": ab})
    for sig, (what, payload, n) in findings.items():
        out.findings.append(C.Finding(sig, f"{what} [{n} cases]", payload))

    # ---- correspondence 1: slide differential (model inside Coq)
    all_elem_lists = list(programs.values()) + [f["elems"] for f in shipped if "elems" in f]
    defs, names = _flow_defs(all_elem_lists)
    slide_terms, slide_kept = [], []
    seen = set()
    n_nontrivial = 0
    kinds_hist = {}
    max_slides = 12000 if quick else 80000
    for cid, sc, elems in slide_cases:
        h = C.canon_hash([names[json.dumps(elems)], sc["outs"], sc["start"], sc["catch"]])
        if h in seen:
            continue
        seen.add(h)
        kinds_hist[sc["kind"]] = kinds_hist.get(sc["kind"], 0) + 1
        if sc["steps"] >= 2 and (sc["kind"] != 0 or "OFalse" in sc["outs"] or len(set(sc["path"])) >= 3):
            n_nontrivial += 1
        if len(slide_terms) >= max_slides:
            continue
        exp = "({k}, {p}, {t}, {n}, {ec}, {path}, {st})".format(
            k=sc["kind"], p=sc["pos"], t=nl(sc["targets"]), n=sc["steps"],
            ec=nl(sc["end_catch"]), path=nl(sc["path"]),
            st=C.coq_list([f"({a}, {C.coq_bool(bb)})" for a, bb in sc["starts"]]) if sc["starts"] else "(@nil (nat * bool))")
        slide_terms.append("({es}, {o}, {s}, {cs}, {e})".format(
            es=names[json.dumps(elems)], o=C.coq_list(sc["outs"]) if sc["outs"] else "(@nil outcome)", s=sc["start"],
            cs=nl(sc["catch"]), e=exp))
        slide_kept.append((cid, sc))
    slide_bad = []
    t1 = time.time()
    if okm and slide_terms:
        bools, err = run_cases_defs(PID + "_slide", defs, slide_terms, "check_slide", shard=300)
        if err:
            out.add_broken("correspondence:C10-slide(coqc)", err)
        else:
            slide_bad = [(cid, sc) for ok, (cid, sc) in zip(bools, slide_kept) if not ok]
        # the start configuration of every real head is the one the verifier predicts
        st_terms = sorted({"({n}, {p}, {cs})".format(n=names[json.dumps(r_elems)], p=sc["start"], cs=nl(sc["catch"]))
                           for (_cid, sc, r_elems) in slide_cases if not sc["merging"]})
        bools, err = run_cases_defs(PID + "_start", defs, st_terms, "check_start", shard=300)
        if err:
            out.add_broken("correspondence:C10-start(coqc)", err)
        elif not all(bools):
            badt = [t for ok, t in zip(bools, st_terms) if not ok]
            out.add_broken("correspondence:C10-start", f"{len(badt)} real heads start in a configuration the verifier does not predict, e.g. {badt[0]}")
    t_slide = round(time.time() - t1, 1)
    if slide_bad:
        cid, sc = min(slide_bad, key=lambda x: len(x[1]["path"]))
        c = by_id.get(cid, {})
        r = results.get(cid, {})
        elems = r.get("program", {}).get(sc["flow"], {}).get("elems")
        model = C.eval_term(PID + "_slide", PREAMBLE,
                            f"slide ({len(elems)} + 1) {coq_elems([tuple(e) for e in elems])} (orc_of {C.coq_list(sc['outs'])}) {sc['start']} {C.coq_list([str(x) for x in sc['catch']])}") if elems else ""
        out.add_broken("correspondence:C10-slide",
                       f"{len(slide_bad)} real slide calls disagree with the model; smallest: flow={sc['flow']} real={sc} model={model[-600:]}")
        # a disagreement of slide is searched for as a failing input by the two direct oracles above
        out.findings.append(C.Finding("slide-differs-from-model:" + {0: "blocked", 1: "forked", 2: "ended", 3: "aborted", 4: "raised"}[sc["kind"]],
                                      "the real slide() visits other positions than the documented element semantics",
                                      {"kind": c.get("kind", "term"), "src": c.get("src"), "events": c.get("events"), "meta": c.get("meta"),
                                       "slide": sc})) if c.get("src") and not findings else None

    # ---- correspondence 2: guardedb == independent cycle search, on shipped + generated flows
    g_terms, g_kept = [], []
    spin_terms = []
    unguarded = []
    for key, name in names.items():
        elems = [tuple(e) if not isinstance(e, tuple) else e for e in json.loads(key)]
        elems = [tuple(x if not isinstance(x, list) else tuple(x) for x in e) for e in elems]
        elems = [e if e[0] != "fork" else ("fork", list(e[1])) for e in elems]
        an = py_analyse(elems)
        cyc = an["cycle"]
        g_terms.append(f"({name}, {C.coq_bool(an['verdict'])})")
        g_kept.append((name, elems, an))
        if not an["verdict"]:
            unguarded.append(name)
        if cyc is not None:
            spin_terms.append("({n}, {o}, {p}, {cs})".format(
                n=name, o=C.coq_list(spin_oracle(elems, cyc)), p=cyc[0][0], cs=nl(reversed(cyc[0][1]))))
    g_bad = []
    t1 = time.time()
    if okm and g_terms:
        bools, err = run_cases_defs(PID + "_guard", defs, g_terms, "check_guarded", shard=40)
        if err:
            out.add_broken("correspondence:C10-guardedb(coqc)", err)
        else:
            g_bad = [k for ok, k in zip(bools, g_kept) if not ok]
        if spin_terms:
            bools, err = run_cases_defs(PID + "_spin", defs, spin_terms, "check_spins", shard=60)
            if err:
                out.add_broken("correspondence:C10-spin(coqc)", err)
            elif not all(bools):
                out.add_broken("correspondence:C10-spin", "a flow rejected by guardedb does not spin in the model")
    if g_bad:
        name, elems, an = min(g_bad, key=lambda x: len(x[1]))
        out.add_broken("correspondence:C10-guardedb", f"{len(g_bad)} flows: guarded_flowb differs from the Python search; smallest: {elems} python={an}")
    t_guard = round(time.time() - t1, 1)
    shipped_unguarded = sorted({f"{f['origin']}::{f['flow']}" for f in shipped if "elems" in f and names[json.dumps(f["elems"])] in unguarded})
    gen_unguarded = [n for n in unguarded if n in {names[k] for k in programs}]
    if gen_unguarded:
        out.add_broken("generator:premise", f"{len(gen_unguarded)} generated flows are not guarded (generator must satisfy the premise)")

    # ---- correspondence 3: the cascade bound of the model dominates the observed event counts
    t1 = time.time()
    bound_stats = check_bounds(out, bound_cases, defs, names, shipped, ship_programs, quick) if okm else {}
    t_bound = round(time.time() - t1, 1)

    out.coverage.update({
        "evaluations": len(slide_terms) + len(g_terms) + term_stats["events"] + sum(inj_hist.values()),
        "distinct_nontrivial": n_nontrivial,
        "rule": "distinct real slide() calls (hash of flow, oracle, start position, catch stack) with >= 2 executed elements that "
                "end other than at a plain match, take a false branch, or visit >= 3 distinct positions",
        "samples": [{"slide": sc} for _cid, sc in slide_kept[:2]] + [{"program": c["src"], "events": c["events"]} for c in term_cases[:1]]
                   + [{"inject": c["meta"]} for c in cases if c.get("kind") == "inject"][:2],
        "input_distribution": {
            "termination_programs": term_stats, "generator_features": features, "f4_programs": len(F4_PROGRAMS), "corpus_cases": corpus_n,
            "injection_cases_direct": sum(inj_hist.values()), "injection_cases_process_events": min(n_inj_pe, sum(inj_hist.values())),
            "injection_space": total_inj, "injection_statement_kinds": inj_hist,
            "slide_calls_traced": len(slide_cases), "slide_calls_distinct": len(seen), "slide_stop_kinds(0 blocked 1 forked 2 ended 3 aborted 4 raised)": kinds_hist,
            "shipped_dirs": len(dirs), "shipped_flows": len(shipped), "shipped_flows_distinct": len({json.dumps(f['elems']) for f in shipped if 'elems' in f}),
            "shipped_skipped": len(ship_skipped), "shipped_skipped_reasons": sorted({s[1].split(':')[0] for s in ship_skipped}),
            "shipped_unguarded_flows": shipped_unguarded[:20], "flows_checked_by_guardedb": len(g_terms), "unguarded_flows": len(unguarded),
            "cascade_bound": bound_stats, "restart_decisions": restart_stats,
            "observations_outside_the_premise": observations,
            "bystander_progress_pairs": n_prog,
            "event_exchange_through_process_events": {"programs": n_xchg, "max_events_handled_in_one_call": max(xchg_handled + [0])},
        },
        "traces_validated_against_impl": len(slide_terms),
        "correspondence_disagreements": len(slide_bad) + len(g_bad),
        "oracle_violations": sum(n for _w, _p, n in findings.values()),
        "budget_formula": "32 + (total_primitive_elements + 4 * n_flows) * (live_instances + 1) internal events per run_to_completion",
        "jobs_s": t_jobs, "coq_slide_s": t_slide, "coq_guard_s": t_guard, "coq_bound_s": t_bound, "total_s": round(time.time() - t_start, 1),
    })
    out.assumptions += [
        "expression values are replaced by an oracle (true/false/raises per executed element); theorems quantify over all oracles",
        "cascade model: single-head flows without fork/merge, every actionable head wins its action conflict, reactions to internal events are arbitrary (oracle); groups/when are covered by the termination harness only",
        "premise as formalised: a waiting statement = match on an event that cannot be produced inside the same run_to_completion (not FlowStarted/FlowFinished/FlowFailed/... of the runtime); an activated flow whose body waits only for such internal events is an implicit loop without waiting statement",
        "process_events retry loop: processing a ColangError event does not itself raise (no flow that matches ColangError has an erroneous match / raises in the same step)",
        "Python recursion depth, wall-clock, action conflict resolution (C05) are not modelled",
    ]
    if tier == "thorough" and b["ok"]:
        ok, log = C.coqchk(PID, b["files"])
        out.coverage["coqchk"] = "ok" if ok else "FAILED"
        if not ok:
            out.add_broken("coqchk", log)
    return C.finish(out)


def deep_flows(flows):
    """flows: list of (elems, awaits {pos: child flow index}).  Greatest set D of flow indices such that
    an instance of a flow in D cannot reach its end (nor rest on another user-level match for an
    internal event) without resting on a match for an external event or on an await of a child in D.
    Used ONLY for the measurement `with_deep_wait_lemma` (the lemma itself is not machine-checked)."""
    deep = set(range(len(flows)))
    changed = True
    while changed:
        changed = False
        for g in sorted(deep):
            elems, awaits = flows[g]
            n = len(elems)
            tbl = label_table(elems)
            seen = {(1, ())}
            todo = [(1, ())]
            ok = True
            while todo and ok:
                p, stack = todo.pop()
                if p >= n or elems[p] == ("return",) or len(seen) > 40 * (n + 1):
                    ok = False
                    break
                t = elems[p]
                if t == ("block", "match") or (p in awaits and awaits[p] in deep):
                    continue
                if t[0] == "waitint" and t[1]:
                    ok = False
                    break
                nxt = []
                for o in (True, False):
                    r = py_exec(elems, tbl, p, stack, o)
                    nxt += [(r[1], r[2])] if r[0] == "cont" else r[1]
                for c in nxt:
                    if c not in seen:
                        seen.add(c)
                        todo.append(c)
            if not ok:
                deep.discard(g)
                changed = True
    return deep


def deep_transform(flows):
    deep = deep_flows(flows)
    outp = []
    n_waits = 0
    for elems, awaits in flows:
        e2 = list(elems)
        for p, g in awaits.items():
            if g in deep:
                e2[p] = ("block", "match")
                n_waits += 1
        outp.append(e2)
    return outp, deep, n_waits


def prune_reachable(flows, roots):
    """flows: list of dicts with elems (tuples), awaits, dynamic.  Keeps the flows reachable from the
    roots over constant StartFlow sends and renumbers flow ids; None if a reachable flow starts flows
    whose name is computed at run time (then every flow may get instances)."""
    reach, todo = set(roots), list(roots)
    while todo:
        g = todo.pop()
        if flows[g].get("dynamic"):
            return None
        for e in flows[g]["elems"]:
            if e[0] == "start" and e[1] not in reach and e[1] < len(flows):
                reach.add(e[1])
                todo.append(e[1])
    order = sorted(reach)
    ren = {g: i for i, g in enumerate(order)}
    outp = []
    for g in order:
        elems = [("start", ren[e[1]], e[2]) if e[0] == "start" else e for e in flows[g]["elems"]]
        awaits = {p: ren[c] for p, c in flows[g].get("awaits", {}).items() if c in ren}
        outp.append((elems, awaits))
    return outp


def run_nat_cases(tag, defs, terms, fn, shard=10, timeout=900, tolerate_timeout=False):
    """Like run_cases_defs for a Coq function returning nat; returns (list of int, error)."""
    import re as _re
    import shutil
    from concurrent.futures import ThreadPoolExecutor

    d = os.path.join(C.BUILD, "cases", tag)
    shutil.rmtree(d, ignore_errors=True)
    os.makedirs(d)
    shards = [terms[i:i + shard] for i in range(0, len(terms), shard)]

    def one(ix):
        i, sh_terms = ix
        used = sorted(set(_re.findall(r"fl_\d+", " ".join(sh_terms))), key=lambda n: int(n[3:]))
        p = os.path.join(d, f"Cases_{i}.v")
        with open(p, "w", encoding="latin-1") as f:
            f.write(PREAMBLE + "\n".join(defs[n] for n in used) + "\n")
            f.write("Definition cases := [\n  " + ";\n  ".join(sh_terms) + "\n].\n")
            f.write(f"Eval vm_compute in (List.map ({fn}) cases).\n")
        rc, out = C.sh(["coqc", "-Q", os.path.join(C.COQ, "theories"), "NG", "-w", "-notation-overridden", "-o", p[:-2] + ".vo", p],
                       cwd=d, timeout=timeout)
        if rc == 124 and tolerate_timeout:
            return [-1] * len(sh_terms), None
        if rc != 0:
            return None, f"coqc failed on {p}: {out[-1500:]}"
        m = _re.search(r"=\s*\[(.*?)\]\s*:\s*list nat", out, _re.S)
        if not m:
            return None, f"cannot parse coqc output of {p}: {out[-800:]}"
        vals = [int(t.strip()) for t in m.group(1).split(";") if t.strip()]
        if len(vals) != len(sh_terms):
            return None, f"{p}: {len(vals)} results for {len(sh_terms)} cases"
        return vals, None

    res = []
    with ThreadPoolExecutor(max_workers=C.NPROC) as ex:
        outs = list(ex.map(one, list(enumerate(shards))))
    for vals, err in outs:
        if err:
            return res, err
        res += vals
    return res, None


REASONS = {1: "cycle-without-external-match-or-inconsistent-stacks", 2: "no-weights(StartFlow-cycle-without-external-match)",
           3: "side-conditions-for-activated-flows"}


def check_bounds(out, bound_cases, defs, names, shipped, ship_programs, quick):
    """Correspondence 3: for the programs inside the class of C10_rtc_bound_partial (incl. fork /
    merge programs) the number of internal events processed by every real run_to_completion is
    dominated by the model's bound (evaluated inside Coq from the REAL loaded program).  Also
    measures which fraction of the generated and of the shipped programs the certificate
    accepts, and why it rejects the others."""
    import re as _re

    per_prog = {}
    for cid, r in bound_cases:
        idx = r["flow_index"]
        order = sorted(idx, key=lambda k: idx[k])
        try:
            prog = C.coq_list([names[json.dumps(r["program"][fid]["elems"])] for fid in order])
        except KeyError:
            continue
        obs = [(e.get("heads", e["live"]), e["live"], e["steps"]) for e in r["events"]]
        ent = per_prog.setdefault(prog, {"obs": set(), "cid": cid})
        ent["obs"].update(obs)
    stats = {"programs": len(bound_cases), "generated_distinct_programs": len(per_prog)}
    if not per_prog:
        return stats
    progs = sorted(per_prog)
    terms = ["({p}, {o})".format(p=p, o=C.coq_list([f"({a}, {b}, {c})" for a, b, c in sorted(per_prog[p]["obs"])]) if per_prog[p]["obs"] else "(@nil (nat * nat * nat))")
             for p in progs]
    codes, err = run_nat_cases(PID + "_classify", defs, terms, "(classify_n 8)", shard=8)
    if err:
        out.add_broken("correspondence:C10-bound(coqc)", err)
        return stats
    acc = [p for p, k in zip(progs, codes) if k in (0, 100)]
    stats["generated_accepted_by_cascade_cert_ok"] = len(acc)
    stats["generated_accepted_with_fork"] = sum(1 for p in acc if any("EFork" in defs[n] for n in _re.findall(r"fl_\d+", p)))
    stats["generated_with_fork"] = sum(1 for p in progs if any("EFork" in defs[n] for n in _re.findall(r"fl_\d+", p)))
    stats["generated_rejected_why"] = {name: sum(1 for k in codes if k == code) for code, name in REASONS.items()}
    stats["max_observed_steps_in_class"] = max([c for p in acc for _a, _b, c in per_prog[p]["obs"]], default=0)
    bad = [p for p, k in zip(progs, codes) if k == 100]
    stats["bound_violations"] = len(bad)
    if bad:
        p = bad[0]
        out.add_broken("correspondence:C10-bound", f"{len(bad)} programs: a real run_to_completion processed more internal events than 2*rtc_bound+2 of the model; e.g. case {per_prog[p]['cid']} observations (heads, live, steps) = {sorted(per_prog[p]['obs'])}")
    # ---- measurement "with the deep-wait lemma" (NOT machine-checked): an `await g` whose child g cannot
    # finish without resting on a match for an external event is treated like such a match
    def norm(elems):
        o = []
        for e in elems:
            e = tuple(e)
            o.append(("fork", list(e[1])) if e[0] == "fork" else e)
        return o

    def add_def(elems):
        key = json.dumps([list(e) if e[0] != "fork" else ["fork", list(e[1])] for e in elems])
        if key not in names:
            names[key] = f"fl_{len(names)}"
            defs[names[key]] = f"Definition {names[key]} : list elem := {coq_elems(elems)}."
        return names[key]

    lemma_checks = lemma_viol = 0
    deep_terms = {}
    for cid, r in bound_cases:
        idx = r["flow_index"]
        order = sorted(idx, key=lambda k: idx[k])
        flows = [(norm(r["program"][fid]["elems"]), {int(k): g for k, g in r["program"][fid].get("awaits", {}).items()}) for fid in order]
        tr, deep, nw = deep_transform(flows)
        if nw:
            deep_terms[C.coq_list([add_def(e) for e in tr])] = cid
            # the lemma on the traced run: a head that came to rest on such an await is not advanced in the same run_to_completion
            pos_of = {fid: {p for p, g in flows[idx[fid]][1].items() if g in deep} for fid in order}
            sl = r.get("slides", [])
            for k, sc in enumerate(sl):
                if sc["kind"] == 0 and sc["pos"] in pos_of.get(sc["flow"], ()):
                    lemma_checks += 1
                    if any(s2.get("uid") == sc.get("uid") and s2.get("rtc") == sc.get("rtc") and s2["start"] == sc["pos"] + 1 for s2 in sl[k + 1:]):
                        lemma_viol += 1
    if deep_terms:
        dts = sorted(deep_terms)
        dcodes, err = run_nat_cases(PID + "_classify_deep", defs, ["(%s, (@nil (nat * nat * nat)))" % t for t in dts], "(classify_n 8)", shard=8)
        if not err:
            stats["with_deep_wait_lemma(not machine-checked)"] = {
                "generated_programs_with_such_awaits": len(dts),
                "accepted_after_treating_them_as_external_waits": sum(1 for k in dcodes if k == 0),
                "lemma_checked_on_traced_heads": lemma_checks, "lemma_violations_in_traces": lemma_viol}
    # shipped programs: one program per configuration whose flows were all loaded
    by_origin = {}
    for f in shipped:
        by_origin.setdefault(f["origin"], []).append(f)
    sprogs = {}
    origin_flows = {}
    n_pruned = n_dynamic = 0
    for pr in ship_programs:
        fl = by_origin.get(pr["origin"], [])
        if len(fl) != pr["n_flows"] or any("elems" not in f for f in fl) or not pr.get("has_main"):
            continue
        # the program = the flows that can get instances: reachable from main / @active flows
        full = [{"elems": norm(f["elems"]), "awaits": {int(k): g for k, g in f.get("awaits", {}).items()}, "dynamic": f.get("dynamic")} for f in fl]
        pruned = prune_reachable(full, [i for i, f in enumerate(fl) if f.get("root")])
        if pruned is None:
            n_dynamic += 1
            pruned = [(f["elems"], f["awaits"]) for f in full]
        elif len(pruned) < len(full):
            n_pruned += 1
        term = C.coq_list([add_def(e) for e, _a in pruned])
        sprogs.setdefault(term, []).append(pr["origin"])
        origin_flows[term] = pruned
    stats["shipped_programs_pruned_to_reachable_flows"] = n_pruned
    stats["shipped_programs_with_dynamic_flow_starts(not pruned)"] = n_dynamic
    sl = sorted(sprogs, key=lambda t: (t.count("fl_"), t))
    stats["shipped_distinct_complete_programs_with_main"] = len(sl)
    if quick and len(sl) > 12 and not os.environ.get("C10_SHIP_ALL"):
        step = len(sl) / 12.0
        sl = [sl[int(i * step)] for i in range(12)]
    if sl:
        codes, err = run_nat_cases(PID + "_classify_ship", defs, ["(%s, (@nil (nat * nat * nat)))" % t for t in sl], "(classify_n 10)", shard=1,
                                   timeout=150 if quick else 600, tolerate_timeout=True)
        if err:
            out.add_broken("correspondence:C10-class-shipped(coqc)", err)
        else:
            stats["shipped_programs_evaluated"] = sum(1 for k in codes if k >= 0)
            stats["shipped_programs_not_evaluated(timeout)"] = sum(1 for k in codes if k < 0)
            stats["shipped_accepted_by_cascade_cert_ok"] = sum(1 for k in codes if k == 0)
            stats["shipped_rejected_why"] = {name: sum(1 for k in codes if k == code) for code, name in REASONS.items()}
            stats["shipped_sizes_evaluated(flows)"] = [t.count("fl_") for t in sl]
            stats["shipped_rejected_examples"] = [sprogs[t][0] + ":" + REASONS[k] for t, k in zip(sl, codes) if k in REASONS][:8]
            # the same measurement with the deep-wait lemma for the rejected shipped programs
            rej = [t for t, k in zip(sl, codes) if k in REASONS]
            dts = []
            for t in rej:
                tr, deep, nw = deep_transform(origin_flows[t])
                dts.append(C.coq_list([add_def(e) for e in tr]))
            if dts:
                dcodes, err2 = run_nat_cases(PID + "_classify_ship_deep", defs, ["(%s, (@nil (nat * nat * nat)))" % t for t in dts], "(classify_n 10)",
                                             shard=1, timeout=150 if quick else 600, tolerate_timeout=True)
                if not err2:
                    stats["shipped_with_deep_wait_lemma(not machine-checked)"] = {
                        "rejected_programs_re-evaluated": len(dts), "additionally_accepted": sum(1 for k in dcodes if k == 0),
                        "still_rejected_why": {name: sum(1 for k in dcodes if k == code) for code, name in REASONS.items()}}
    return stats


if __name__ == "__main__":
    if len(sys.argv) >= 4 and sys.argv[1] == "--worker":
        worker_main(sys.argv[2], sys.argv[3])
