(* C15 - facts about the history-cache key: it is a lossy join.  For EVERY separator string
   (including the empty one) and every choice of contributing roles the key identifies
   different message lists. *)
From Coq Require Import List Bool Arith Lia.
From NG Require Import Svc.HistKey.
Import ListNotations.

Section KeyFacts.
  Variable A : Type.
  Variable sep : list A.
  Variable contributes : role -> bool.

  Notation key := (key sep contributes).

  (* the separator is not escaped: one message "a<sep>r" and the two messages "a", "r" *)
  Lemma key_separator_collision : forall ra rb a r,
      contributes ra = true -> contributes rb = true ->
      key [Msg ra (a ++ sep ++ r)] = key [Msg ra a; Msg rb r].
  Proof.
    intros ra rb a r Ha Hb. unfold HistKey.key, items. simpl. rewrite Ha, Hb. reflexivity.
  Qed.

  (* roles are not part of the key *)
  Lemma key_ignores_roles : forall ra rb a,
      contributes ra = true -> contributes rb = true ->
      key [Msg ra a] = key [Msg rb a].
  Proof.
    intros ra rb a Ha Hb. unfold HistKey.key, items. simpl. rewrite Ha, Hb. reflexivity.
  Qed.

  (* messages with any other role (exception, system, tool, ...) leave no trace in the key *)
  Lemma key_ignores_noncontributing : forall ms r b,
      contributes r = false -> key (ms ++ [Msg r b]) = key ms.
  Proof.
    intros ms r b Hr. unfold HistKey.key, items. rewrite filter_app. simpl. rewrite Hr.
    rewrite app_nil_r. reflexivity.
  Qed.

  Theorem key_not_injective :
      (exists r, contributes r = true) ->
      forall (a r : list A), ~ key_injective_on sep contributes (fun _ => True).
  Proof.
    intros [ra Hra] a r Hinj.
    assert (H : [Msg ra (a ++ sep ++ r)] = [Msg ra a; Msg ra r]).
    { apply Hinj; auto. apply key_separator_collision; assumption. }
    discriminate H.
  Qed.

  (* the first message can be read off the key when bodies do not contain the separator
     symbol: on such lists with a fixed role sequence the key IS injective, so the
     injectivity hypothesis of the isolation theorem is not vacuous *)
  Variable A_eq_dec : forall x y : A, {x = y} + {x <> y}.
  Variable s : A.
  Hypothesis sep_single : sep = [s].

  Definition sep_free (ms : list (msg A)) : Prop := Forall (fun m => ~ In s (m_body m)) ms.
  Definition all_contribute (ms : list (msg A)) : Prop := Forall (fun m => contributes (m_role m) = true) ms.

  Lemma split_at_sep : forall (x y x' y' : list A),
      ~ In s x -> ~ In s x' -> x ++ s :: y = x' ++ s :: y' -> x = x' /\ y = y'.
  Proof.
    induction x as [|a x IH]; intros y x' y' Hx Hx' Heq.
    - destruct x' as [|a' x']; simpl in Heq.
      + inversion Heq. auto.
      + inversion Heq. subst a'. exfalso. apply Hx'. left. reflexivity.
    - destruct x' as [|a' x']; simpl in Heq.
      + inversion Heq. subst a. exfalso. apply Hx. left. reflexivity.
      + inversion Heq. subst a'. destruct (IH y x' y') as [E1 E2]; auto.
        * intro H. apply Hx. right. exact H.
        * intro H. apply Hx'. right. exact H.
        * subst. auto.
  Qed.

  Lemma join_cons2 : forall (x y : list A) rest, join sep (x :: y :: rest) = x ++ sep ++ join sep (y :: rest).
  Proof. reflexivity. Qed.

  Lemma join_sep_free_inj : forall (xs ys : list (list A)),
      Forall (fun x => ~ In s x) xs -> Forall (fun x => ~ In s x) ys ->
      length xs = length ys -> join sep xs = join sep ys -> xs = ys.
  Proof.
    induction xs as [|x xs IH]; intros [|y ys] Hx Hy Hlen Heq; simpl in Hlen; try discriminate; [reflexivity|].
    pose proof (Forall_inv Hx) as Hx1. pose proof (Forall_inv_tail Hx) as Hx2.
    pose proof (Forall_inv Hy) as Hy1. pose proof (Forall_inv_tail Hy) as Hy2.
    destruct xs as [|x2 xs]; destruct ys as [|y2 ys]; simpl in Hlen; try discriminate.
    - simpl in Heq. rewrite Heq. reflexivity.
    - rewrite !join_cons2 in Heq. rewrite sep_single in Heq. simpl in Heq.
      destruct (split_at_sep _ _ _ _ Hx1 Hy1 Heq) as [E1 E2]. rewrite E1.
      f_equal. apply IH; auto. rewrite sep_single. exact E2.
  Qed.

  Theorem key_injective_sep_free : forall ms ms',
      sep_free ms -> sep_free ms' -> all_contribute ms -> all_contribute ms' ->
      map m_role ms = map m_role ms' -> key ms = key ms' -> ms = ms'.
  Proof.
    intros ms ms' Hf Hf' Hc Hc' Hroles Hkey.
    assert (Hitems : forall l, all_contribute l -> items contributes l = map m_body l).
    { induction l as [|m l IHl]; intros Hl; [reflexivity|]. inversion Hl as [|? ? H1 H2]; subst.
      unfold items in *. simpl. rewrite H1. simpl. f_equal. apply IHl. exact H2. }
    unfold HistKey.key in Hkey. rewrite (Hitems ms Hc), (Hitems ms' Hc') in Hkey.
    assert (Hbodies : map m_body ms = map m_body ms').
    { apply join_sep_free_inj.
      - unfold sep_free in Hf. rewrite Forall_map. exact Hf.
      - unfold sep_free in Hf'. rewrite Forall_map. exact Hf'.
      - rewrite !map_length. rewrite <- (map_length m_role ms), <- (map_length m_role ms'). congruence.
      - exact Hkey. }
    clear -Hroles Hbodies. revert ms' Hroles Hbodies.
    induction ms as [|m ms IH]; intros [|m' ms'] Hr Hb; simpl in *; try discriminate; [reflexivity|].
    inversion Hr. inversion Hb. destruct m, m'. simpl in *. subst. f_equal. apply IH; assumption.
  Qed.
End KeyFacts.
