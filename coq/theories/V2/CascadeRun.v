(* placeholder, filled with the executable cascade checkers *)
From NG Require Import V2.Term.
