"""Registry of generated Coq modules (coq/theories/Gen/<Name>.v), regenerated on every run.

Each entry maps a module name to a function returning the full file text.  `regen(names)`
rewrites a file only when its text changed (keeps `make` incremental) and returns
{name: None | error-string}.
"""
from __future__ import annotations

import importlib
import os
import sys
import traceback

HERE = os.path.dirname(os.path.abspath(__file__))
if os.path.dirname(HERE) not in sys.path:
    sys.path.insert(0, os.path.dirname(HERE))
GEN_DIR = os.path.join(os.path.dirname(HERE), "coq", "theories", "Gen")


def _match_consts():
    from translator import consts

    return consts.HEADER + "\n" + consts.emit_matcher(consts.matcher_consts()) + "\n"


def _lazy(modname, fn):
    def run():
        mod = importlib.import_module(modname)
        return getattr(mod, fn)()

    return run


GENERATORS = {
    "MatchConsts": _match_consts,
}

# further generators: every translator/gen_*.py module exposing GENERATORS = {"Name": fn}
# (fn returns the full text of coq/theories/Gen/<Name>.v) is registered automatically
import glob as _glob

for _p in sorted(_glob.glob(os.path.join(HERE, "gen_*.py"))):
    _modname = "translator." + os.path.basename(_p)[:-3]

    def _mk(modname, key):
        def run():
            mod = importlib.import_module(modname)
            return mod.GENERATORS[key]()

        return run

    try:
        _m = importlib.import_module(_modname)
        for _key in _m.GENERATORS:
            GENERATORS[_key] = _mk(_modname, _key)
    except Exception as _e:  # a broken translator module: its generators fail closed when requested
        sys.stderr.write(f"[translator] cannot import {_modname}: {_e}\n")


def regen(names=None):
    os.makedirs(GEN_DIR, exist_ok=True)
    res = {}
    for name in names if names is not None else list(GENERATORS):
        path = os.path.join(GEN_DIR, name + ".v")
        try:
            if name not in GENERATORS:
                raise KeyError(f"no generator registered for Gen/{name}.v")
            text = GENERATORS[name]()
        except Exception as e:  # fail closed: report, remove stale output
            res[name] = f"{type(e).__name__}: {e}\n{traceback.format_exc(limit=3)}"
            if os.path.exists(path):
                os.remove(path)
            continue
        old = None
        if os.path.exists(path):
            with open(path, encoding="utf-8") as f:
                old = f.read()
        if old != text:
            with open(path, "w", encoding="utf-8") as f:
                f.write(text)
        res[name] = None
    return res


if __name__ == "__main__":
    import sys

    sys.path.insert(0, os.path.dirname(HERE))
    r = regen()
    bad = {k: v for k, v in r.items() if v}
    for k, v in bad.items():
        print("TRANSLATOR ERROR", k, v)
    sys.exit(1 if bad else 0)
