"""Re-evaluate the stored seeded changes against the CURRENT /repo HEAD and the current checks.
Usage: harness/seedeval.py [ids or property ids ...]   (default: all of /verif/seeded/*)
For each seeded/<id>: fresh scratch worktree of /repo HEAD, `git apply --3way patch.diff`,
demo clean/patched, `VERIF_REPO=<worktree> ./check <PID>`; meta.json gets a `final` record.
Evidence files are preserved (they must come from runs against /repo itself)."""
import json
import os
import subprocess
import sys

VERIF = os.path.dirname(os.path.dirname(os.path.abspath(__file__)))
WT = f"/tmp/seedeval_wt_{os.getpid()}"  # one per process: builders run this concurrently


def sh(cmd, cwd=None, env=None, timeout=3600):
    e = dict(os.environ)
    e.update(env or {})
    try:
        p = subprocess.run(cmd, cwd=cwd, env=e, shell=True, stdout=subprocess.PIPE, stderr=subprocess.STDOUT, text=True, timeout=timeout)
        return p.returncode, p.stdout
    except subprocess.TimeoutExpired:
        return 124, "[timeout]"


def main():
    sel = [a for a in sys.argv[1:]]
    d = os.path.join(VERIF, "seeded")
    ids = sorted(n for n in os.listdir(d) if os.path.exists(os.path.join(d, n, "patch.diff")))
    if sel:
        ids = [n for n in ids if n in sel or n.split("-")[0] in sel]
    sh(f"git -C /repo worktree remove --force {WT}")
    rc, out = sh(f"git -C /repo worktree add --detach {WT} HEAD")
    head = sh("git -C /repo rev-parse --short HEAD")[1].strip()
    env = {"PYTHONPATH": WT, "PYTHONHASHSEED": "0"}
    for n in ids:
        sd = os.path.join(d, n)
        mp = os.path.join(sd, "meta.json")
        meta = json.load(open(mp)) if os.path.exists(mp) else {}
        pid = meta.get("property", n.split("-")[0]).upper()
        sh("git reset -q --hard HEAD; git checkout -- .", cwd=WT)
        rc_clean, _ = sh(f"timeout 600 /venv/bin/python {sd}/demo.py", cwd=WT, env=env)
        rc_apply, out = sh(f"git apply --3way {sd}/patch.diff", cwd=WT)
        if rc_apply != 0 or "with conflicts" in out:
            meta["final"] = {"repo_head": head, "result": "patch-no-longer-applies-to-HEAD (the code it edits was changed by a later fix: commit); earlier result stands"}
            json.dump(meta, open(mp, "w"), indent=1)
            print(f"{n}: patch does not apply to HEAD", flush=True)
            continue
        rc_pat, _ = sh(f"timeout 600 /venv/bin/python {sd}/demo.py", cwd=WT, env=env)
        evp = os.path.join(VERIF, "evidence", f"{pid}.json")
        bak = open(evp).read() if os.path.exists(evp) else None
        rc_chk, out = sh(f"timeout 2400 ./check {pid}", cwd=VERIF, env={"VERIF_REPO": WT})
        if bak is not None:
            open(evp, "w").write(bak)
        viol = [l for l in out.splitlines() if l.startswith("VIOLATION")]
        concrete = [l for l in viol if "no-failing-input-found" not in l]
        verdict = "caught-with-replay" if concrete else ("caught-no-failing-input" if viol else "MISSED")
        meta["final"] = {"repo_head": head, "demo_clean_exit": rc_clean, "demo_patched_exit": rc_pat, "check_exit": rc_chk,
                         "result": verdict, "check_lines": [l[:160] for l in viol[:4]]}
        meta["caught_by"] = verdict
        json.dump(meta, open(mp, "w"), indent=1)
        print(f"{n}: demo {rc_clean}/{rc_pat} check rc={rc_chk} -> {verdict}", flush=True)
    sh("git reset -q --hard HEAD; git checkout -- .", cwd=WT)
    sh(f"git -C /repo worktree remove --force {WT}")
    sh("/venv/bin/python harness/seedresults.py", cwd=VERIF)


if __name__ == "__main__":
    main()
