"""C10 — Event processing terminates and a faulty flow fails alone (Colang 2 state machine).

Models (coq/theories/V2): Term.v (`slide` over primitive elements + `guardedb`), Isolate.v
(`_advance_head_front` try/except + `_abort_flow`, retry loop of process_events), Cascade.v (the
StartFlow/restart cascade of one run_to_completion).  Theorems: Props/C10.v.

Tie (X):
  * slide differential: every real `slide` call made during the harness runs is traced in the
    child processes (start position, visited positions, end position, catch stack, exception,
    forked heads) and replayed on the model inside Coq (TermRun.check_slide); the elements are
    the REAL expanded FlowConfig.elements mapped by a fail-closed loader;
  * guardedb on every flow of every shipped Colang 2 file and of all generated programs,
    cross-checked with an independent Python cycle search (TermRun.check_guarded);
  * cascade bound: the number of internal events processed by each real run_to_completion is
    compared with the model's bound (CascadeRun.check_bound).
Direct oracles on the implementation:
  * termination: generated programs satisfying the premise x events under the step-budget hook
    (NEMO_GUARDRAILS_VERIF_MAX_STEPS semantics, budget from the program size) in child processes
    under `timeout`;
  * error injection at every statement position: no exception escapes process_events, a
    ColangError is matchable, only the faulty flow (and its relatives) fails, a bystander flow
    still reacts to the same and to later events.
"""
from __future__ import annotations

import json
import os
import random
import sys
import time

from harness import common as C

PID = "C10"
GEN = []

PREAMBLE = """From Coq Require Import List Arith Bool.
From NG Require Import V2.Term V2.TermRun.
Import ListNotations.
"""

# =======================================================================================
# Loader: REAL expanded FlowConfig.elements -> model elements (fail closed)


class LoaderError(Exception):
    pass


def _spec_const_str(expr):
    """'"abc"' or "'abc'" -> abc ; anything else -> None"""
    if isinstance(expr, str) and len(expr) >= 2 and expr[0] == expr[-1] and expr[0] in "\"'":
        body = expr[1:-1]
        if expr[0] not in body and "{" not in body and "\\" not in body:
            return body
    return None


def load_flow(flow_config, flow_index, internal_all):
    """Returns (elems, label_index) where elems is a list of tuples:
       ('block',) ('waitint', started_making) ('maybe',) ('jump', l, cond) ('label', l, newinst)
       ('step',) ('start', f, act) ('fork', [l]) ('return',) ('abort',) ('catch', l|None)
       ('break', l|None)
    Labels are numbered by first occurrence (as Label, Goto, Fork, Catch or Break target)."""
    from nemoguardrails.colang.v2_x.lang import colang_ast as A

    labels = {}

    def lab(name):
        if name not in labels:
            labels[name] = len(labels)
        return labels[name]

    out = []
    for el in flow_config.elements:
        if isinstance(el, A.SpecOp):
            spec = el.spec
            if not isinstance(spec, A.Spec):
                raise LoaderError(f"unexpanded spec group in {flow_config.id}")
            if el.op == "match":
                if spec.var_name is None and spec.members is None:
                    if spec.name in internal_all or spec.name == "ColangError":
                        out.append(("waitint", "internal" not in el.info))
                    else:
                        out.append(("block",))
                elif spec.var_name is None and spec.members is not None:
                    if spec.spec_type == A.SpecType.FLOW:
                        out.append(("waitint", "internal" not in el.info))
                    else:
                        out.append(("block",))
                else:
                    out.append(("waitint", "internal" not in el.info))   # $ref.Event(): flow or action reference
            elif el.op == "send":
                if spec.var_name is None and spec.members is None:
                    if spec.name in internal_all:
                        fid = _spec_const_str(spec.arguments.get("flow_id")) if spec.name == "StartFlow" else None
                        if fid is not None and fid in flow_index:
                            act = str(spec.arguments.get("activated", "False")) == "True"
                            out.append(("start", flow_index[fid], act))
                        else:
                            out.append(("step",))
                    else:
                        out.append(("block",))          # action / umim event: actionable, slide stops
                else:
                    out.append(("maybe",))              # event of a reference: internal (falls through) or action (stops)
            elif el.op == "_new_action_instance":
                out.append(("step",))
            else:
                raise LoaderError(f"unexpanded op {el.op!r} in {flow_config.id}")
        elif isinstance(el, A.Label):
            out.append(("label", lab(el.name), el.name == "start_new_flow_instance"))
        elif isinstance(el, A.Goto):
            out.append(("jump", lab(el.label), not (isinstance(el.expression, str) and el.expression.strip() == "True")))
        elif isinstance(el, A.ForkHead):
            out.append(("fork", [lab(x) for x in el.labels]))
        elif isinstance(el, A.MergeHeads):
            out.append(("block",))
        elif isinstance(el, A.WaitForHeads):
            out.append(("maybe",))
        elif isinstance(el, (A.Assignment, A.Log, A.Print, A.Priority, A.Global, A.BeginScope, A.EndScope)):
            out.append(("step",))
        elif isinstance(el, A.Return):
            out.append(("return",))
        elif isinstance(el, A.Abort):
            out.append(("abort",))
        elif isinstance(el, (A.Continue, A.Break)):
            out.append(("break", None if el.label is None else lab(el.label)))
        elif isinstance(el, A.CatchPatternFailure):
            out.append(("catch", None if el.label is None else lab(el.label)))
        else:
            raise LoaderError(f"element outside the vocabulary: {type(el).__name__} in {flow_config.id}")
    return out, labels


def coq_elem(t):
    k = t[0]
    if k == "block":
        return "EBlock"
    if k == "waitint":
        return f"(EWaitInt {C.coq_bool(t[1])})"
    if k == "maybe":
        return "EWaitHeads"
    if k == "jump":
        return f"(EJump {t[1]} {C.coq_bool(t[2])})"
    if k == "label":
        return f"(ELabel {t[1]} {C.coq_bool(t[2])})"
    if k == "step":
        return "EStep"
    if k == "start":
        return f"(EStart {t[1]} {C.coq_bool(t[2])})"
    if k == "fork":
        return "(EFork " + C.coq_list([str(x) for x in t[1]]) + ")"
    if k == "return":
        return "EReturn"
    if k == "abort":
        return "EAbort"
    if k == "catch":
        return "(ECatch " + C.coq_option(None if t[1] is None else str(t[1])) + ")"
    if k == "break":
        return "(EBreak " + C.coq_option(None if t[1] is None else str(t[1])) + ")"
    raise ValueError(k)


def coq_elems(elems):
    return C.coq_list([coq_elem(t) for t in elems])


# ---------------------------------------------------------------------------------------
# independent Python statement of "every cycle of the jump graph passes a blocking element"
# (edges are computed from the loaded tuples with Python's own label table; cycle search = DFS)


def label_table(elems):
    tbl = {}
    for i, t in enumerate(elems):
        if t[0] == "label":
            tbl[t[1]] = i            # last wins
    return tbl


def py_succs(elems, p, through_int=False):
    if p >= len(elems):
        return []
    t = elems[p]
    k = t[0]
    tbl = label_table(elems)
    if k == "block":
        return []
    if k == "waitint":
        return [p + 1] if through_int else []
    if k in ("maybe", "label", "step", "start"):
        return [p + 1]
    if k == "jump":
        tgt = tbl[t[1]] + 1 if t[1] in tbl else p + 1
        return [tgt] + ([p + 1] if t[2] else [])
    if k == "fork":
        return [tbl[l] + 1 for l in t[1] if l in tbl] if through_int else []
    if k == "return":
        return []
    if k == "abort":
        return [tbl[x[1]] + 1 for x in elems if x[0] == "catch" and x[1] is not None and x[1] in tbl]
    if k == "catch":
        return [p + 1]
    if k == "break":
        if t[1] is None:
            return [p + 1]
        return [tbl[t[1]] + 1] if t[1] in tbl else []
    raise ValueError(k)


def py_find_cycle(elems, through_int=False):
    """None if acyclic, else a list of positions forming a cycle (iterative DFS, colours)."""
    n = len(elems)
    colour = [0] * (n + 1)
    for root in range(n):
        if colour[root]:
            continue
        stack = [(root, iter(py_succs(elems, root, through_int)))]
        colour[root] = 1
        path = [root]
        while stack:
            node, it = stack[-1]
            nxt = next(it, None)
            if nxt is None:
                colour[node] = 2
                stack.pop()
                path.pop()
                continue
            q = min(nxt, n)
            if colour[q] == 1:
                return path[path.index(q):]
            if colour[q] == 0:
                colour[q] = 1
                path.append(q)
                stack.append((q, iter(py_succs(elems, q, through_int))))
    return None


def spin_oracle(elems, cycle):
    """Outcomes that drive the model around `cycle` forever (one outcome per executed element)."""
    tbl = label_table(elems)
    outs = []
    m = len(cycle)
    for idx, p in enumerate(cycle):
        q = cycle[(idx + 1) % m]
        t = elems[p]
        if t[0] == "jump":
            tgt = tbl[t[1]] + 1 if t[1] in tbl else p + 1
            outs.append("OTrue" if q == tgt else "OFalse")
        else:
            outs.append("OTrue")
    return outs


# =======================================================================================
# Worker (child process): runs cases on the real interpreter, traces every slide call


class SlideTracer:
    def __init__(self, sm):
        import logging

        self.sm = sm
        self.records = []
        self.stack = []
        tracer = self

        class H(logging.Handler):
            def emit(self, record):
                if tracer.stack and isinstance(record.msg, str) and record.msg.startswith("--Sliding element"):
                    rec = tracer.stack[-1]
                    rec["path"].append(rec["_head"].position)

        lg = logging.getLogger(sm.__name__)
        lg.setLevel(logging.DEBUG)
        lg.propagate = False
        for h in list(lg.handlers):
            lg.removeHandler(h)
        lg.addHandler(H(level=logging.DEBUG))
        orig = sm.slide
        self.orig = orig

        def traced(state, flow_state, flow_config, head):
            rec = {"flow": flow_config.id, "start": head.position, "catch": list(head.catch_pattern_failure_label),
                   "hstatus": head.status.name, "path": [], "_head": head}
            tracer.stack.append(rec)
            q0 = len(state.internal_events)
            try:
                new_heads = orig(state, flow_state, flow_config, head)
                rec["exc"] = None
                rec["new_heads"] = [h.position for h in new_heads]
                return new_heads
            except Exception as e:
                rec["exc"] = type(e).__name__
                rec["new_heads"] = []
                raise
            finally:
                rec["end"] = head.position
                rec["end_catch"] = list(head.catch_pattern_failure_label)
                rec["stopping"] = flow_state.status == sm.FlowStatus.STOPPING
                rec["n"] = len(flow_config.elements)
                tracer.stack.pop()
                del rec["_head"]
                tracer.records.append(rec)

        sm.slide = traced

    def take(self):
        r, self.records = self.records, []
        return r


def _worker_setup():
    import logging
    import warnings

    warnings.filterwarnings("ignore")
    sys.path.insert(1, C.REPO)
    from nemoguardrails.colang.v2_x.runtime import statemachine as sm

    logging.getLogger().setLevel(logging.CRITICAL)
    return sm


def _flow_table(state, sm):
    """Loaded model elements of every flow of a state + flow index."""
    from nemoguardrails.colang.v2_x.runtime.flows import InternalEvents

    idx = {fid: i for i, fid in enumerate(state.flow_configs)}
    tbl = {}
    for fid, fc in state.flow_configs.items():
        elems, labels = load_flow(fc, idx, set(InternalEvents.ALL))
        tbl[fid] = {"elems": elems, "labels": labels,
                    "label_pos": {labels[k]: v for k, v in fc.element_labels.items() if k in labels}}
    return idx, tbl


def slide_case_from_record(rec, tbl):
    """Turn a traced real slide call into a model case (Python side; printed to Coq by the parent)."""
    info = tbl[rec["flow"]]
    elems = info["elems"]
    lpos = info["label_pos"]
    labels = info["labels"]
    path = rec["path"]
    n = len(path)
    end = rec["end"]
    outs = []
    for k, p in enumerate(path):
        t = elems[p]
        last = k == n - 1
        nxt = end if last else path[k + 1]
        raised = last and rec["exc"] is not None
        if raised:
            outs.append("ORaise")
        elif t[0] == "jump":
            tgt = lpos[t[1]] + 1 if t[1] in lpos else p + 1
            outs.append("OTrue" if nxt == tgt else "OFalse")
        elif t[0] == "maybe":
            passed = (not last) or (end == p + 1)
            outs.append("OTrue" if passed else "OFalse")
        else:
            outs.append("OTrue")
    last_t = elems[path[-1]] if path else None
    if rec["exc"] is not None:
        kind, pos, targets = 4, end, []
    elif last_t is not None and last_t[0] == "fork":
        # new heads are created at the label positions
        kind, pos, targets = 1, end, list(rec["new_heads"])
    elif rec["stopping"] and end >= rec["n"] and last_t is not None and last_t[0] == "abort":
        kind, pos, targets = 3, end, []
    elif end >= rec["n"]:
        kind, pos, targets = 2, end, []
    else:
        kind, pos, targets = 0, end, []
    starts = [[elems[p][1], elems[p][2]] for k, p in enumerate(path)
              if elems[p][0] == "start" and not (k == n - 1 and rec["exc"] is not None)]

    def cl(names):
        # Python list used as a stack (top = last element); the model's stack has its top first
        return [labels[x] if x in labels else 10 ** 6 for x in reversed(names)]

    return {"flow": rec["flow"], "outs": outs, "start": rec["start"], "catch": cl(rec["catch"]),
            "kind": kind, "pos": pos, "targets": targets, "steps": n, "end_catch": cl(rec["end_catch"]),
            "path": path, "starts": starts, "merging": rec["hstatus"] == "MERGING"}


class StepCounter:
    """Counts the internal events processed by run_to_completion (log.info 'Process internal event')."""

    def __init__(self, sm):
        import logging

        self.n = 0
        counter = self

        class H(logging.Handler):
            def emit(self, record):
                if isinstance(record.msg, str) and record.msg.startswith("Process internal event"):
                    counter.n += 1

        logging.getLogger(sm.__name__).addHandler(H(level=logging.INFO))


def budget_formula(total_elems, n_flows, live):
    """Step budget for ONE run_to_completion: depends only on the program size (number of
    primitive elements, number of flows) and on the number of live flow instances."""
    return 64 + 8 * (total_elems + 4 * n_flows) * (live + 1)


def _live(state, sm):
    return sum(1 for fs in state.flow_states.values() if sm.is_listening_flow(fs))


def _mk_event(sm, ev):
    if isinstance(ev, str):
        return {"type": ev}
    return dict(ev)


def run_case_direct(sm, tracer, counter, case):
    """Drive the state machine directly.  The retry loop of process_events is emulated verbatim
    (an exception leaving run_to_completion is fed back as a ColangError event)."""
    from harness import v2util

    res = {"id": case["id"], "mode": "direct", "events": [], "slides": [], "error": None}
    try:
        state = v2util.init_state(case["src"])
    except BaseException as e:            # not a case: the program does not parse / expand
        res["error"] = "init:" + type(e).__name__ + ":" + str(e)[:200]
        return res
    try:
        idx, tbl = _flow_table(state, sm)
    except LoaderError as e:
        res["error"] = "loader:" + str(e)
        return res
    total = sum(len(v["elems"]) for v in tbl.values())
    res["program"] = {fid: {"elems": v["elems"]} for fid, v in tbl.items()}
    res["flow_index"] = idx
    res["total_elems"] = total
    evs = [sm.InternalEvent(name="StartFlow", arguments={"flow_id": "main"}, matching_scores=[])] + [
        _mk_event(sm, e) for e in case["events"]]
    for k, ev in enumerate(evs):
        new_event = ev
        rounds = 0
        rec = {"steps": 0, "live": _live(state, sm), "status": "ok", "escaped": []}
        while new_event is not None:
            rounds += 1
            if rounds > 5:
                rec["status"] = "retry-loop"
                break
            budget = budget_formula(total, len(tbl), _live(state, sm))
            rec["budget"] = budget
            sm._VERIF_MAX_STEPS = budget
            counter.n = 0
            try:
                sm.run_to_completion(state, new_event)
                new_event = None
            except sm.VerifStepBudgetExceeded:
                rec["status"] = "budget"
                new_event = None
            except Exception as e:
                rec["escaped"].append(type(e).__name__ + ":" + str(e)[:120])
                new_event = sm.Event(name="ColangError", arguments={"type": str(type(e).__name__), "error": str(e)})
            rec["steps"] = max(rec["steps"], counter.n)
        res["events"].append(rec)
        res["slides"] += [slide_case_from_record(r, tbl) for r in tracer.take()]
        if rec["status"] != "ok":
            break
    res["markers"] = {k: v for k, v in state.context.items() if k.startswith("m_") and isinstance(v, (bool, int, str, type(None)))}
    fl = {}
    for fs in state.flow_states.values():
        fl.setdefault(fs.flow_id, []).append(fs.status.name)
    res["flows"] = fl
    return res


_PE = {}


def run_case_pe(sm, tracer, counter, case):
    """Drive RuntimeV2_x.process_events through an LLMRails object built offline."""
    import asyncio

    if "mods" not in _PE:
        sys.path.insert(2, os.path.join(C.REPO, "tests"))
        from nemoguardrails import LLMRails, RailsConfig
        from utils import FakeLLM

        _PE["mods"] = (LLMRails, RailsConfig, FakeLLM)
    LLMRails, RailsConfig, FakeLLM = _PE["mods"]
    res = {"id": case["id"], "mode": "pe", "events": [], "slides": [], "error": None}
    try:
        config = RailsConfig.from_content(colang_content=case["src"], yaml_content="colang_version: 2.x\n")
        rails = LLMRails(config, llm=FakeLLM(responses=[]))
    except BaseException as e:
        res["error"] = "init:" + type(e).__name__ + ":" + str(e)[:200]
        return res
    rt = rails.runtime
    rt.max_events = 60
    sm._VERIF_MAX_STEPS = 20000

    async def go():
        state = None
        for ev in [None] + list(case["events"]):
            rec = {"status": "ok", "out": []}
            try:
                out, state = await asyncio.wait_for(
                    rt.process_events([] if ev is None else [_mk_event(sm, ev)], state), 30)
                rec["out"] = [e["type"] for e in out]
            except asyncio.TimeoutError:
                rec["status"] = "timeout"
            except sm.VerifStepBudgetExceeded:
                rec["status"] = "budget"
            except Exception as e:
                rec["status"] = "escaped:" + type(e).__name__ + ":" + str(e)[:120]
            res["events"].append(rec)
            if rec["status"] != "ok":
                break
        return state

    state = asyncio.run(go())
    tracer.take()
    if state is not None:
        res["markers"] = {k: v for k, v in state.context.items() if k.startswith("m_") and isinstance(v, (bool, int, str, type(None)))}
        fl = {}
        for fs in state.flow_states.values():
            fl.setdefault(fs.flow_id, []).append(fs.status.name)
        res["flows"] = fl
    return res


def worker_main(jobfile, outfile):
    sm = _worker_setup()
    tracer = SlideTracer(sm)
    counter = StepCounter(sm)
    cases = json.load(open(jobfile))
    with open(outfile, "a") as out:
        for case in cases:
            out.write(json.dumps({"begin": case["id"]}) + "\n")
            out.flush()
            t0 = time.time()
            try:
                if case.get("mode") == "pe":
                    r = run_case_pe(sm, tracer, counter, case)
                elif case.get("mode") == "shipped":
                    r = run_case_shipped(sm, case)
                else:
                    r = run_case_direct(sm, tracer, counter, case)
            except sm.VerifStepBudgetExceeded:
                r = {"id": case["id"], "error": "budget-outside-run"}
            except Exception as e:
                import traceback

                r = {"id": case["id"], "error": "worker:" + type(e).__name__ + ":" + str(e)[:300],
                     "tb": traceback.format_exc()[-1500:]}
            r["wall"] = round(time.time() - t0, 3)
            out.write(json.dumps(r) + "\n")
            out.flush()



# =======================================================================================
# Parent side: job distribution (child processes under `timeout`), Coq case printing


def run_jobs(cases, tag, nproc=None, per_case_timeout=20, startup=40):
    """Run cases in worker processes.  A worker that hangs is killed by `timeout`; the case it was
    working on is reported as {"hang": True} and the remaining cases of that batch are re-run."""
    import subprocess
    from concurrent.futures import ThreadPoolExecutor

    nproc = nproc or C.NPROC
    d = os.path.join(C.BUILD, "c10", tag)
    os.makedirs(d, exist_ok=True)
    results = {}
    pending = list(cases)
    rounds = 0
    while pending and rounds < 6:
        rounds += 1
        n = max(1, min(nproc, (len(pending) + 3) // 4)) if len(pending) < nproc * 4 else nproc
        batches = [pending[i::n] for i in range(n)]
        batches = [b for b in batches if b]

        def one(ib):
            i, batch = ib
            jf = os.path.join(d, f"job_{rounds}_{i}.json")
            of = os.path.join(d, f"out_{rounds}_{i}.jsonl")
            if os.path.exists(of):
                os.remove(of)
            json.dump(batch, open(jf, "w"))
            tmo = startup + per_case_timeout * len(batch)
            env = dict(os.environ)
            env.update(C.impl_env())
            env["VERIF_REPO"] = C.REPO
            p = subprocess.run(["timeout", "-k", "5", str(tmo), C.PY, "-m", "harness.c10", "--worker", jf, of],
                               cwd=C.VERIF, env=env, stdout=subprocess.DEVNULL, stderr=subprocess.PIPE, text=True,
                               errors="replace")
            return p.returncode, of, p.stderr[-2000:]

        with ThreadPoolExecutor(max_workers=len(batches)) as ex:
            outs = list(ex.map(one, list(enumerate(batches))))
        new_pending = []
        for (rc, of, err), batch in zip(outs, batches):
            begun = None
            done = set()
            if os.path.exists(of):
                for line in open(of):
                    try:
                        r = json.loads(line)
                    except ValueError:
                        continue
                    if "begin" in r:
                        begun = r["begin"]
                    else:
                        results[r["id"]] = r
                        done.add(r["id"])
            if rc != 0:
                # the case that was begun but not finished hung or crashed the interpreter
                if begun is not None and begun not in done:
                    results[begun] = {"id": begun, "hang": rc == 124, "crash": rc != 124, "rc": rc, "stderr": err[-600:]}
                    done.add(begun)
                elif begun is None:
                    for c in batch:
                        results[c["id"]] = {"id": c["id"], "error": "worker-start:" + err[-300:]}
                        done.add(c["id"])
            new_pending += [c for c in batch if c["id"] not in done]
        pending = new_pending
    for c in pending:
        results[c["id"]] = {"id": c["id"], "error": "not-run"}
    return results


def slide_term(sc, elems):
    exp = "({k}, {p}, {t}, {n}, {ec}, {path}, {st})".format(
        k=sc["kind"], p=sc["pos"], t=C.coq_list([str(x) for x in sc["targets"]]), n=sc["steps"],
        ec=C.coq_list([str(x) for x in sc["end_catch"]]), path=C.coq_list([str(x) for x in sc["path"]]),
        st=C.coq_list([f"({a}, {C.coq_bool(b)})" for a, b in sc["starts"]]))
    return "({es}, {o}, {s}, {cs}, {e})".format(
        es=coq_elems(elems), o=C.coq_list(sc["outs"]), s=sc["start"],
        cs=C.coq_list([str(x) for x in sc["catch"]]), e=exp)


def tup(x):
    """JSON round trip turns tuples into lists; normalise elements back to tuples."""
    return tuple(tuple(y) if isinstance(y, list) and False else y for y in x)



# =======================================================================================
# Generator 1: programs that satisfy the premise (every loop and every recursive call contains a
# statement waiting for an external event), including activated flows that abort / raise /
# finish immediately, children starting children, when/else, groups


EVENTS = ["E0", "E1", "E2", "E3"]


class ProgGen:
    def __init__(self, rng):
        self.rng = rng
        self.features = set()

    def program(self):
        rng = self.rng
        k = rng.randint(2, 5)
        self.k = k
        self.activatable = [rng.random() < 0.6 for _ in range(k)]
        flows = []
        for i in range(k):
            flows.append(self.flow(i))
        # main: activates / starts / awaits the others, then waits
        body = []
        used = set()
        for _ in range(rng.randint(1, 4)):
            j = rng.randrange(k)
            r = rng.random()
            if self.activatable[j] and r < 0.6:
                body.append(f"activate f{j}")
                self.features.add("activate")
            elif r < 0.85:
                body.append(f"start f{j}")
            else:
                body.append(f"start f{j} and f{rng.randrange(k)}")
                self.features.add("group-start")
            used.add(j)
        body.append("match E9()")
        flows.append("flow main\n" + "\n".join("  " + l for l in body))
        return "\n\n".join(flows) + "\n"

    def special_activated(self, i):
        """The shapes named in the property: an activated flow that aborts / raises / finishes at once."""
        rng = self.rng
        kind = rng.choice(["abort", "raise", "finish", "child-abort", "child-raise", "cond-abort", "wait-abort",
                           "wait-raise", "loser"])
        self.features.add("activated:" + kind)
        later = [j for j in range(i + 1, self.k)]
        if kind == "abort":
            return ["abort"]
        if kind == "raise":
            return [rng.choice(['$x = 1 + "a"', '$x = $undefined + 1', '$x = regex("(")', "$x = $u.foo.bar"])]
        if kind == "finish":
            return [rng.choice(["$x = 1", 'log "x"', "return 3"])]
        if kind in ("child-abort", "child-raise") and later:
            return [f"start f{rng.choice(later)}", "match E0()"]
        if kind == "cond-abort":
            return ["global $g", "if $g == 1", "  abort", f"match {rng.choice(EVENTS)}()", "$g = 1"]
        if kind == "wait-abort":
            return [f"match {rng.choice(EVENTS)}()", "abort"]
        if kind == "wait-raise":
            return [f"match {rng.choice(EVENTS)}()", '$x = 1 + "a"']
        return ["send Out0()", f"match {rng.choice(EVENTS)}()"]

    def flow(self, i):
        rng = self.rng
        self.i = i
        if self.activatable[i] and rng.random() < 0.45:
            body = self.special_activated(i)
        elif rng.random() < 0.15:
            body = [rng.choice(["abort", '$x = 1 + "a"', "$x = 1"])]     # leaf that fails / finishes at once
        else:
            body = self.block(2, False, self.activatable[i])[0]
        return f"flow f{i}\n" + "\n".join("  " + l for l in body)

    def call_target(self, waited):
        """index of a flow this flow may start here: later flows always; any flow (recursion) only
        after a waiting statement"""
        rng = self.rng
        later = list(range(self.i + 1, self.k))
        if waited and rng.random() < 0.3:
            self.features.add("recursion-after-wait")
            return rng.randrange(self.k)
        return rng.choice(later) if later else None

    def block(self, depth, waited, restricted):
        """returns (lines, waited_after). `restricted`: flow may be activated -> statements that wait
        for the END of a child flow only after an external wait."""
        rng = self.rng
        lines = []
        for _ in range(rng.randint(1, 4)):
            r = rng.random()
            if r < 0.22:
                ev = rng.choice(EVENTS)
                q = rng.random()
                if q < 0.7:
                    lines.append(f"match {ev}()")
                elif q < 0.85:
                    lines.append(f"match {ev}() or {rng.choice(EVENTS)}()")
                    self.features.add("or-group")
                else:
                    lines.append(f"match {ev}() and {rng.choice(EVENTS)}()")
                    self.features.add("and-group")
                waited = True
            elif r < 0.36:
                v = rng.randrange(3)
                lines.append(rng.choice([f"$v{v} = {rng.randrange(4)}", f"$v{v} = $v{v} + 1", f'$v{v} = "s"', 'log "x"']))
            elif r < 0.44:
                lines.append(f"send Out{rng.randrange(2)}()")
                self.features.add("action-send")
            elif r < 0.62:
                j = self.call_target(waited)
                if j is None:
                    continue
                q = rng.random()
                if q < 0.45 or (restricted and not waited):
                    if self.activatable[j] and rng.random() < 0.4:
                        lines.append(f"activate f{j}")
                        self.features.add("nested-activate")
                    else:
                        lines.append(f"start f{j}")
                        self.features.add("start-child")
                elif q < 0.8:
                    lines.append(f"await f{j}")
                    self.features.add("await-child")
                else:
                    j2 = self.call_target(waited)
                    lines.append(f"await f{j} {rng.choice(['or', 'and'])} f{j2 if j2 is not None else j}")
                    self.features.add("group-await")
            elif r < 0.72 and depth > 0:
                v = rng.randrange(3)
                b1, w1 = self.block(depth - 1, waited, restricted)
                lines.append(f"if $v{v} == {rng.randrange(3)}")
                lines += ["  " + l for l in b1]
                if rng.random() < 0.5:
                    b2, w2 = self.block(depth - 1, waited, restricted)
                    lines.append("else")
                    lines += ["  " + l for l in b2]
                    waited = waited or (w1 and w2)
                self.features.add("if")
            elif r < 0.82 and depth > 0:
                # loops: the body starts with a waiting statement
                ev = rng.choice(EVENTS)
                b, _ = self.block(depth - 1, True, restricted)
                if rng.random() < 0.5:
                    c = f"c{depth}{rng.randrange(9)}"
                    lines.append(f"${c} = 0")
                    lines.append(f"while ${c} < {rng.randint(1, 3)}")
                    lines += [f"  match {ev}()", f"  ${c} = ${c} + 1"] + ["  " + l for l in b]
                    self.features.add("while-counter")
                else:
                    lines.append("while True")
                    lines += [f"  match {ev}()"] + ["  " + l for l in b]
                    lines += [f"  if $v0 == {rng.randrange(3)}", "    break"]
                    self.features.add("while-true-break")
                waited = True
            elif r < 0.90 and depth > 0:
                b1, _ = self.block(depth - 1, True, restricted)
                lines.append(f"when {rng.choice(EVENTS)}()")
                lines += ["  " + l for l in b1]
                if rng.random() < 0.6:
                    b2, _ = self.block(depth - 1, True, restricted)
                    lines.append(f"or when {rng.choice(EVENTS)}()")
                    lines += ["  " + l for l in b2]
                if rng.random() < 0.3:
                    j = self.call_target(waited)
                    if j is not None and (waited or not restricted):
                        b3, _ = self.block(depth - 1, waited, restricted)
                        lines.append(f"or when f{j}")
                        lines += ["  " + l for l in b3]
                        self.features.add("when-flow")
                waited = True
                self.features.add("when")
            elif r < 0.94:
                lines.append(rng.choice(["abort", "return 1", "return"]))
                self.features.add("abort/return")
                break
            elif r < 0.97 and waited and restricted:
                lines.append("start_new_flow_instance:")
                self.features.add("start_new_flow_instance")
            else:
                lines.append(rng.choice(['$x = 1 + "a"', "$x = $undefined.a.b"]))
                self.features.add("raise")
        if not lines:
            lines = ['log "x"']
        return lines, waited


def gen_term_cases(rng, n, features):
    cases = []
    for i in range(n):
        g = ProgGen(rng)
        src = g.program()
        evs = [rng.choice(EVENTS + ["E0", "E1"]) for _ in range(rng.randint(3, 6))]
        cases.append({"id": f"term{i}", "kind": "term", "src": src, "events": evs, "features": sorted(g.features)})
        for f in g.features:
            features[f] = features.get(f, 0) + 1
    return cases


# the programs of DESIGN section 5 / F4 and their relatives, always run first
F4_PROGRAMS = [
    ("activated-abort", "flow a\n  abort\n\nflow main\n  activate a\n  match X()\n"),
    ("activated-raise", 'flow a\n  $x = 1 + "a"\n  match Y()\n\nflow main\n  activate a\n  match X()\n'),
    ("activated-finish", "flow a\n  $x = 1\n\nflow main\n  activate a\n  match X()\n"),
    ("activated-child-aborts-later",
     "flow b\n  global $n\n  if $n == 1\n    abort\n  match Z()\n\nflow a\n  global $n\n  start b\n  match E0()\n  $n = 1\n\n"
     "flow main\n  activate a\n  match X()\n"),
    ("activated-cond-abort",
     "flow a\n  global $g\n  if $g == 1\n    abort\n  match E0()\n  $g = 1\n\nflow main\n  activate a\n  match X()\n"),
    ("activated-wait-abort", "flow a\n  match E0()\n  abort\n\nflow main\n  activate a\n  match X()\n"),
    ("activated-and-group", 'flow a\n  start UtteranceBotAction(script="A")\n  match E0()\n\nflow b\n'
     '  start UtteranceBotAction(script="B")\n  match E0()\n\nflow main\n  activate a and b\n  match X()\n'),
]


# =======================================================================================
# Generator 2: error injection at every statement position


BAD = {
    "undef-arith": "$undef + 1",
    "wrong-type": '1 + "a"',
    "bad-regex": 'regex("(")',
    "bad-member": "$undef.foo.bar",
}

# statement templates: (name, site, lines with {X} = erroneous expression, is_wait)
#   site = where the error surfaces in the interpreter
STMTS = [
    ("assign", "slide", ["$a = {X}"]),
    ("send-param", "slide", ["send Out(p={X})"]),
    ("if-cond", "slide", ["if {X}", "  $a = 1"]),
    ("while-cond", "slide", ["while {X}", "  match Never2()"]),
    ("return", "slide", ["return {X}"]),
    ("log", "slide", ["log {X}"]),
    ("priority", "slide", ["priority {X}"]),
    ("start-arg", "slide", ["start child ({X})"]),
    ("internal-send", "slide", ["send FinishFlow(flow_id={X})"]),
]
MATCH_STMTS = [
    ("match-param", "match-param", "match {EV}(p={X})"),
    ("match-group", "match-param", "match {EV}(p={X}) or Never3()"),
    ("when-param", "match-param", "when {EV}(p={X})\n  $a = 1"),
    ("match-cmp", "match-param", "match {EV}(p=less_than(3))"),          # event carries p="abc"
    ("match-bad-ref", "match-reference", "match {EV}()\nmatch $nope.Finished()"),
    ("match-bad-member", "match-reference", "match {EV}()\nmatch $undef.foo.Finished()"),
]


def inject_program(stmt_lines, seg, start_mode, in_child, faulty_first):
    """seg = 0: the statement runs when `faulty` is started (event Go); 1: after X; 2: after Y."""
    filler = ["$f = 1", 'log "f"']
    body = []
    segs = [[], [], []]
    segs[seg] = stmt_lines
    lines = [filler[0]] + segs[0] + ["match X()", filler[1]] + segs[1] + ["match Y()", filler[0]] + segs[2] + ["match Never4()"]
    return lines


def build_inject_src(body_lines, start_mode, in_child, faulty_first):
    ind = lambda ls: "\n".join("  " + l for l in ls)
    flows = []
    flows.append("flow child $p\n  match NeverC()")
    if in_child:
        flows.append("flow inner\n" + ind(body_lines))
        flows.append("flow faulty\n  $q = 1\n  await inner")
    else:
        flows.append("flow faulty\n" + ind(body_lines))
    launch = {"start": "start faulty", "await": "await faulty", "activate": "activate faulty"}[start_mode]
    flows.append("flow launcher\n  match Go()\n  " + launch + "\n  match Never5()")
    for name in ("other", "other2"):
        flows.append(f"flow {name}\n  global $m_{name}_go\n  global $m_{name}_x\n  global $m_{name}_y\n  global $m_{name}_w\n  global $m_{name}_z\n"
                     f"  match Go()\n  $m_{name}_go = True\n  match X()\n  $m_{name}_x = True\n  match Y()\n  $m_{name}_y = True\n"
                     f"  match W()\n  $m_{name}_w = True\n  match Z()\n  $m_{name}_z = True")
    flows.append("flow sup\n  global $m_sup\n  match ColangError()\n  $m_sup = True")
    main = ["start other"] + (["start launcher"] if faulty_first else []) + ["start sup"] + \
           ([] if faulty_first else ["start launcher"]) + ["start other2", "match Never()"]
    flows.append("flow main\n" + ind(main))
    return "\n\n".join(flows) + "\n"


def gen_inject_cases(rng, limit, hist):
    all_cases = []
    for start_mode in ("start", "await", "activate"):
        for in_child in (False, True):
            for faulty_first in (True, False):
                for seg in (0, 1, 2):
                    for name, site, tmpl in STMTS:
                        for bk, bx in BAD.items():
                            lines = []
                            for t in tmpl:
                                lines.append(t.replace("{X}", bx))
                            body = inject_program(lines, seg, start_mode, in_child, faulty_first)
                            all_cases.append((name, site, bk, seg, start_mode, in_child, faulty_first, body, "X"))
                    for name, site, tmpl in MATCH_STMTS:
                        kinds = ["cmp"] if name == "match-cmp" else (["ref"] if site == "match-reference" else list(BAD))
                        for bk in kinds:
                            ev = {0: "X", 1: "Y", 2: "W"}[seg]
                            txt = tmpl.replace("{EV}", ev).replace("{X}", BAD.get(bk, ""))
                            mlines = txt.split("\n")
                            filler = ["$f = 1", 'log "f"']
                            # the erroneous match REPLACES the wait of its segment
                            if seg == 0:
                                body = [filler[0]] + mlines + [filler[1], "match Y()", "match Never4()"]
                            elif seg == 1:
                                body = [filler[0], "match X()", filler[1]] + mlines + ["match Never4()"]
                            else:
                                body = [filler[0], "match X()", "match Y()", filler[1]] + mlines + ["match Never4()"]
                            all_cases.append((name, site, bk, seg, start_mode, in_child, faulty_first, body, ev))
    rng.shuffle(all_cases)
    # stratify: every (statement, bad kind, site) at least once, then fill up
    seen = set()
    chosen, rest = [], []
    for c in all_cases:
        key = (c[0], c[2], c[4])
        if key not in seen:
            seen.add(key)
            chosen.append(c)
        else:
            rest.append(c)
    chosen = (chosen + rest)[:limit] if limit else chosen + rest
    cases = []
    for n, (name, site, bk, seg, start_mode, in_child, faulty_first, body, ev) in enumerate(chosen):
        src = build_inject_src(body, start_mode, in_child, faulty_first)
        events = ["Go", {"type": "X", "p": "abc"}, {"type": "Y", "p": "abc"}, {"type": "W", "p": "abc"}, "Z", "Q"]
        cases.append({"id": f"inj{n}", "kind": "inject", "src": src, "events": events,
                      "meta": {"stmt": name, "site": site, "bad": bk, "segment": seg, "start": start_mode,
                               "in_child": in_child, "faulty_first": faulty_first}})
        hist[name] = hist.get(name, 0) + 1
    return cases, len(all_cases)


def inject_verdict(case, r):
    """Independent statement of the second half of the property on the observed run.
    Returns a list of (what, detail)."""
    bad = []
    if r.get("hang"):
        return [("hang", "interpreter did not return")]
    if r.get("crash"):
        return [("interpreter-crash", r.get("stderr", "")[-200:])]
    if r.get("error"):
        return [("harness-error", r["error"])]
    for k, e in enumerate(r["events"]):
        if e["status"] == "budget":
            bad.append(("event-processing-does-not-terminate", f"event #{k}"))
        elif e["status"] == "retry-loop":
            bad.append(("retry-loop-does-not-terminate", f"event #{k}"))
        elif e["status"] not in ("ok",):
            bad.append(("exception-escapes-process_events", e["status"]))
    if bad:
        return bad
    m = r.get("markers", {})
    fl = r.get("flows", {})
    if not m.get("m_sup"):
        bad.append(("no-ColangError-event", "supervisor flow `match ColangError()` never advanced"))
    seg = case["meta"]["segment"]
    # the event during whose processing the error surfaces
    if case["meta"]["site"] == "slide":
        same = ["go", "x", "y"][seg]
    else:
        same = ["x", "y", "w"][seg]
    order = ["go", "x", "y", "w", "z"]
    for name in ("other", "other2"):
        for ev in order:
            if not m.get(f"m_{name}_{ev}"):
                what = "bystander-misses-same-event" if ev == same else "bystander-misses-later-event"
                bad.append((what, f"flow `{name}` did not react to event {ev.upper()}"))
                break
    for name in ("other", "other2", "sup", "main"):
        if "STOPPED" in fl.get(name, []):
            bad.append(("unrelated-flow-failed", f"flow `{name}` is STOPPED"))
    target = "inner" if case["meta"]["in_child"] else "faulty"
    if "STOPPED" not in fl.get(target, []):
        bad.append(("faulty-flow-did-not-fail", f"flow `{target}` statuses {fl.get(target)}"))
    return bad


if __name__ == "__main__":
    if len(sys.argv) >= 4 and sys.argv[1] == "--worker":
        worker_main(sys.argv[2], sys.argv[3])
