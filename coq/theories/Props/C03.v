(* C03 - Failing actions are contained and rails fail closed.
   Property theorems only; every proof is `exact <lemma>`; Print Assumptions beneath each.
   Model: Pipe/Faults.v.  The theorems marked (now) are about the machine instantiated with the
   flags READ FROM THE CURRENT SOURCE (Gen/C03Consts.v): dispatcher re-raises or not, internal-error
   event list, whether compute_context applies hide_prev_turn, whether guardrails.co resets
   $output_rails_in_progress when the output rails fail, whether errors raised while an action event
   is created are contained.  If the source loses one of these the `eq_refl` below stops checking. *)
From Coq Require Import String List Bool Arith.
From NG Require Import Gen.C03Consts Pipe.Faults Pipe.Faults_proofs
                       Pipe.FlowCheck Pipe.OptGuards Pipe.SelfCheck_proofs Gen.C01Flows Gen.C03Guards.
Import ListNotations.
Open Scope string_scope.
Open Scope list_scope.

(* (T) what the source says today *)
Theorem C03_source_facts :
  dispatch_reraises = false /\ dispatch_handler_lazy = true /\ dispatch_failed_status = v1_failed_status_test /\
  dispatch_failed_status = v2_failed_status_test /\ v1_match_requires_success = true /\
  ie_has_hide = true /\ ie_utterances = [v1_internal_error_message] /\
  v1_context_honours_hide = true /\ v2_flag_reset_on_failure = true.
Proof. exact (conj eq_refl (conj eq_refl (conj eq_refl (conj eq_refl (conj eq_refl (conj eq_refl (conj eq_refl (conj eq_refl eq_refl)))))))). Qed.
Print Assumptions C03_source_facts.

(* generate returns: for ALL fault sets (any script: any subset of call sites and occurrences, in
   any number of turns), any history, whatever the other flags are - no turn has the exceptional
   outcome.  Colang 1.0 / 2.x.  (LLM provider failures are not part of the model.) *)
Theorem C03_returns_v1 :
  forall sc user_text llm_text refusal cfg n t rh,
    Forall (fun o => o_res o <> TEscapes) (fst (conv_v1_now sc user_text llm_text refusal cfg t n rh)).
Proof. exact (conv_v1_returns v1_context_honours_hide). Qed.
Print Assumptions C03_returns_v1.

Theorem C03_returns_v2 :
  forall sc user_text llm_text refusal cfg t st,
    fst (fst (turn_v2_now sc user_text llm_text refusal cfg t st)) <> TEscapes.
Proof. exact (turn_v2_returns v2_flag_reset_on_failure v2_action_event_errors_contained). Qed.
Print Assumptions C03_returns_v2.

(* no poison, Colang 1.0 (now): from the start of a conversation, whatever faults and verdicts
   occurred, turn i is EXACTLY the turn a fresh conversation would have (reply, rail calls, LLM
   calls: `spec_turn` does not look at the history), every turn replies, and the gate invariant
   (flows' history defined, $skip_output_rails off) holds again.  Unbounded number of turns. *)
Theorem C03_no_poison_v1 :
  forall sc user_text llm_text refusal cfg n,
    fst (conv_v1_now sc user_text llm_text refusal cfg 0 n [])
    = map (fun i => obs_of (spec_turn sc user_text llm_text refusal cfg i)) (seq 0 n)
    /\ inv (snd (conv_v1_now sc user_text llm_text refusal cfg 0 n [])).
Proof. exact (fun sc ut lt rf cfg n => conv_v1_memoryless sc ut lt rf cfg eq_refl eq_refl n 0 [] inv_nil). Qed.
Print Assumptions C03_no_poison_v1.

(* ... and the reply of a turn is the internal-error message, the refusal or the LLM text *)
Theorem C03_reply_classes_v1 :
  forall sc user_text llm_text refusal cfg t,
    let r := fst (fst (spec_turn sc user_text llm_text refusal cfg t)) in
    r = TReply ie_utterances \/ r = TReply [refusal] \/ r = TReply [llm_text t].
Proof. exact spec_turn_reply. Qed.
Print Assumptions C03_reply_classes_v1.

(* fail closed, Colang 1.0: the LLM text is returned only if every input rail and every output
   rail was consulted and accepted - a rail that raises (or rejects) never lets it through *)
Theorem C03_fail_closed_v1 :
  forall sc user_text llm_text refusal cfg t,
    TReply [llm_text t] <> TReply ie_utterances -> llm_text t <> refusal ->
    fst (fst (spec_turn sc user_text llm_text refusal cfg t)) = TReply [llm_text t] ->
    (forall k, k < n_in cfg -> sc t (SIn k) 0 = OAccept) /\ (forall k, k < n_out cfg -> sc t (SOut k) 0 = OAccept).
Proof. exact spec_turn_llm_only_if_all_accept. Qed.
Print Assumptions C03_fail_closed_v1.

(* ... and a raising input rail yields the fixed internal-error message *)
Theorem C03_fail_closed_v1_message :
  forall sc user_text llm_text refusal cfg t k,
    k < n_in cfg -> (forall i, i < k -> sc t (SIn i) 0 = OAccept) -> sc t (SIn k) 0 = ORaise ->
    fst (fst (spec_turn sc user_text llm_text refusal cfg t)) = TReply ie_utterances.
Proof. exact spec_turn_input_rail_raises. Qed.
Print Assumptions C03_fail_closed_v1_message.

(* Colang 2.x (now): one turn from a clean state replies, leaves a clean state (so the next turn
   runs all rails), returns the LLM text only if all input and output rails accepted; a raising
   rail is a rejection (None is not allowed): the reply is the refusal.
   Premise `dialog_faults_harmless`: EITHER the source contains errors raised while an action event
   is created (flag read from statemachine.py; then the premise holds by computation for every
   script), OR no dialog action raises (named exclusion, see C03_v2_dialog_fault_refuted). *)
Definition dialog_faults_harmless (sc : script) : Prop :=
  v2_action_event_errors_contained = true \/ forall i, sc i SDialog 0 <> ORaise.

Theorem C03_fail_closed_v2 :
  forall sc user_text llm_text refusal cfg t,
    dialog_faults_harmless sc ->
    let x := turn_v2_now sc user_text llm_text refusal cfg t clean in
    snd (fst x) = clean /\
    (fst (fst x) = TReply [refusal] \/ fst (fst x) = TReply [llm_text t] \/ fst (fst x) = TReply []) /\
    (llm_text t <> refusal -> fst (fst x) = TReply [llm_text t] ->
     (forall k, k < n_in cfg -> sc t (SIn k) 0 = OAccept) /\ (forall k, k < n_out cfg -> sc t (SOut k) 0 = OAccept)) /\
    (fst (fst x) = TReply [] -> sc t SDialog 0 = ORaise).
Proof.
  exact (fun sc ut lt rf cfg t H =>
           turn_v2_clean v2_flag_reset_on_failure v2_action_event_errors_contained sc ut lt rf cfg t eq_refl
                         (match H with or_introl e => or_introl e | or_intror f => or_intror (f t) end)).
Qed.
Print Assumptions C03_fail_closed_v2.

Theorem C03_no_poison_v2 :
  forall sc user_text llm_text refusal cfg n,
    dialog_faults_harmless sc ->
    snd (conv_v2_now sc user_text llm_text refusal cfg 0 n clean) = clean /\
    List.length (fst (conv_v2_now sc user_text llm_text refusal cfg 0 n clean)) = n /\
    Forall (fun o => exists us, o_res o = TReply us) (fst (conv_v2_now sc user_text llm_text refusal cfg 0 n clean)).
Proof. exact (fun sc ut lt rf cfg n H => conv_v2_clean v2_flag_reset_on_failure v2_action_event_errors_contained sc ut lt rf cfg n 0 eq_refl H). Qed.
Print Assumptions C03_no_poison_v2.

(* regression documentation: the statements are false of the code as it was *)
Theorem C03_v1_stale_context_refuted :
  sc_stale 2 (SIn 0) 0 = OReject /\
  nth_error (map o_res (fst (conv_v1 false false sc_stale (fun _ => "user") (fun _ => "LLM") "REFUSED" (mkV 2 2 true) 0 3 [])))
            2 = Some (TReply ["LLM"]).
Proof. exact v1_stale_context_witness. Qed.
Print Assumptions C03_v1_stale_context_refuted.

Theorem C03_v2_flag_refuted :
  sc_outblock 1 (SOut 0) 0 = OReject /\
  nth_error (fst (conv_v2 false false true sc_outblock (fun _ => "user") (fun _ => "LLM") "REFUSED" (mkV 2 2 true) 0 2 (mkS2 false false)))
            1 = Some (mkObs (TReply ["LLM"]) [(SIn 0, Some "user"); (SIn 1, Some "user"); (SRet, None); (SDialog, None)] 0).
Proof. exact v2_flag_witness. Qed.
Print Assumptions C03_v2_flag_refuted.

Theorem C03_v2_dialog_fault_refuted :
  nth_error (fst (conv_v2 false true false sc_gen (fun _ => "user") (fun _ => "LLM") "REFUSED" (mkV 2 2 true) 0 2 (mkS2 false false)))
            1 = Some (mkObs (TReply []) [] 0).
Proof. exact v2_dialog_witness. Qed.
Print Assumptions C03_v2_dialog_fault_refuted.

(* ------------------------------------------------------------------------------------------
   (T) the SHIPPED self-check rails (library/self_check/*/flows.v1.co and flows.co, as the
   repository's parsers read them today: Gen/C01Flows.v; guards parsed into expression trees:
   Gen/C03Guards.v) treat a None / falsy $allowed as a rejection.  The guard right after the action
   re-prints to the string in the flow, is TRUE for None, False and an empty list and FALSE for True,
   for both settings of enable_rails_exceptions - `if $allowed == False` would not check. *)
Theorem C03_shipped_rails_reject_falsy :
  rejects_falsy (v1_verdict_guard v1_self_check_input) = true /\
  rejects_falsy (v1_verdict_guard v1_self_check_output) = true /\
  rejects_falsy (v2_verdict_guard v2lib_self_check_input) = true /\
  rejects_falsy (v2_verdict_guard v2lib_self_check_output) = true.
Proof. exact shipped_rails_reject_falsy. Qed.
Print Assumptions C03_shipped_rails_reject_falsy.

Theorem C03_rejects_falsy_meaning :
  forall s, rejects_falsy (Some s) = true ->
    exists e, lookup_guard s c03_guard_table = Some e /\ s = show e /\
              forall exc, holds (sc_env VNone exc) e = Some true /\ holds (sc_env (VBool false) exc) e = Some true /\
                          holds (sc_env (VBool true) exc) e = Some false.
Proof. exact rejects_falsy_spec. Qed.
Print Assumptions C03_rejects_falsy_meaning.

(* Colang 1.0: with a falsy $allowed the rail says `bot refuse to respond` and stops (raises the
   rail exception and stops, when exceptions are enabled); with True it does nothing more *)
Theorem C03_v1_self_check_behaviour :
  (forall v, In v falsy_values ->
     option_map (trace_beq [EAction "self_check_input" "allowed"; EUtter "refuse to respond"; EUtter "stop"])
                (run_sc v1_self_check_input v false) = Some true /\
     option_map (trace_beq [EAction "self_check_output" "allowed"; EUtter "refuse to respond"; EUtter "stop"])
                (run_sc v1_self_check_output v false) = Some true /\
     option_map (existsb (is_utter "stop")) (run_sc v1_self_check_input v true) = Some true /\
     option_map (existsb (is_utter "stop")) (run_sc v1_self_check_output v true) = Some true) /\
  (forall exc, option_map (trace_beq [EAction "self_check_input" "allowed"]) (run_sc v1_self_check_input (VBool true) exc) = Some true /\
               option_map (trace_beq [EAction "self_check_output" "allowed"]) (run_sc v1_self_check_output (VBool true) exc) = Some true).
Proof. exact v1_self_check_behaviour. Qed.
Print Assumptions C03_v1_self_check_behaviour.

(* Colang 2.x: whenever the verdict guard holds, the rail aborts (never finishes normally) *)
Theorem C03_v2_self_check_aborts_on_reject :
  match v2_verdict_guard v2lib_self_check_input with Some s => v2_reject_aborts v2lib_self_check_input s | None => false end = true /\
  match v2_verdict_guard v2lib_self_check_output with Some s => v2_reject_aborts v2lib_self_check_output s | None => false end = true.
Proof. exact v2_self_check_aborts_on_reject. Qed.
Print Assumptions C03_v2_self_check_aborts_on_reject.
