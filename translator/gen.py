"""Registry of generated Coq modules (coq/theories/Gen/<Name>.v), regenerated on every run.

Each entry maps a module name to a function returning the full file text.  `regen(names)`
rewrites a file only when its text changed (keeps `make` incremental) and returns
{name: None | error-string}.
"""
from __future__ import annotations

import importlib
import os
import traceback

HERE = os.path.dirname(os.path.abspath(__file__))
GEN_DIR = os.path.join(os.path.dirname(HERE), "coq", "theories", "Gen")


def _match_consts():
    from translator import consts

    return consts.HEADER + "\n" + consts.emit_matcher(consts.matcher_consts()) + "\n"


def _lazy(modname, fn):
    def run():
        mod = importlib.import_module(modname)
        return getattr(mod, fn)()

    return run


GENERATORS = {
    "MatchConsts": _match_consts,
}

# further generators are registered by the translator modules that exist
for _name, _mod, _fn in (
    ("StreamConsts", "translator.stream_consts", "emit"),
    ("ServerConsts", "translator.server_consts", "emit"),
    ("HistConsts", "translator.hist_consts", "emit"),
    ("ConflictConsts", "translator.conflict_consts", "emit"),
    ("ParseConsts", "translator.parse_consts", "emit"),
    ("LlmFlows", "translator.colang_v1", "emit_llm_flows"),
    ("GuardrailsV2", "translator.colang_v2", "emit_guardrails"),
    ("EmbConsts", "translator.emb_consts", "emit"),
    ("LogConsts", "translator.log_consts", "emit"),
    ("RuntimeConsts", "translator.runtime_consts", "emit"),
    ("SmConsts", "translator.sm_consts", "emit"),
    ("ExpandConsts", "translator.expand_consts", "emit"),
    ("TextConsts", "translator.text_consts", "emit"),
):
    if os.path.exists(os.path.join(HERE, _mod.split(".")[1] + ".py")):
        GENERATORS[_name] = _lazy(_mod, _fn)


def regen(names=None):
    os.makedirs(GEN_DIR, exist_ok=True)
    res = {}
    for name in names if names is not None else list(GENERATORS):
        path = os.path.join(GEN_DIR, name + ".v")
        try:
            text = GENERATORS[name]()
        except Exception as e:  # fail closed: report, remove stale output
            res[name] = f"{type(e).__name__}: {e}\n{traceback.format_exc(limit=3)}"
            if os.path.exists(path):
                os.remove(path)
            continue
        old = None
        if os.path.exists(path):
            with open(path, encoding="utf-8") as f:
                old = f.read()
        if old != text:
            with open(path, "w", encoding="utf-8") as f:
                f.write(text)
        res[name] = None
    return res


if __name__ == "__main__":
    import sys

    sys.path.insert(0, os.path.dirname(HERE))
    r = regen()
    bad = {k: v for k, v in r.items() if v}
    for k, v in bad.items():
        print("TRANSLATOR ERROR", k, v)
    sys.exit(1 if bad else 0)
