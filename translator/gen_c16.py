"""Translator for C16 (T-tie): constants and small structural facts of
nemoguardrails/logging/processing_log.py::compute_generation_log and of the `rails` generation
option in nemoguardrails/rails/llm/options.py, read from the CURRENT source with Python's `ast`
and emitted as coq/theories/Gen/C16Consts.v.  Fail-closed: an unexpected shape raises.
"""
from __future__ import annotations

import ast

from translator.consts import HEADER, TranslatorError, _cls, _func, _parse, coq_bool, coq_str, coq_str_list


def _str_list(node, what):
    if not isinstance(node, (ast.List, ast.Tuple)):
        raise TranslatorError(f"{what} is not a list literal")
    out = []
    for e in node.elts:
        if not (isinstance(e, ast.Constant) and isinstance(e.value, str)):
            raise TranslatorError(f"{what} has a non-string element")
        out.append(e.value)
    return out


def _assigned_list(fn, name):
    found = None
    for node in ast.walk(fn):
        if isinstance(node, ast.Assign) and len(node.targets) == 1 and isinstance(node.targets[0], ast.Name) \
                and node.targets[0].id == name:
            if found is not None:
                raise TranslatorError(f"{name} assigned more than once")
            found = _str_list(node.value, name)
    if found is None:
        raise TranslatorError(f"{name} not found in compute_generation_log")
    return found


def _is_attr(node, base, attr):
    return isinstance(node, ast.Attribute) and node.attr == attr and isinstance(node.value, ast.Name) and node.value.id == base


def genlog_consts():
    tree = _parse("nemoguardrails/logging/processing_log.py")
    fn = _func(tree, "compute_generation_log")
    out = {
        "ignored_actions": _assigned_list(fn, "ignored_actions"),
        "ignored_flows": _assigned_list(fn, "ignored_flows"),
        "generation_flows": _assigned_list(fn, "generation_flows"),
    }

    # event_type == "X" branches that create an ActivatedRail(type="t", ...)
    rail_start = {}
    finished = None
    for node in ast.walk(fn):
        if isinstance(node, ast.If):
            t = node.test
            if isinstance(t, ast.Compare) and len(t.ops) == 1 and isinstance(t.left, ast.Name) and t.left.id == "event_type":
                if isinstance(t.ops[0], ast.Eq) and isinstance(t.comparators[0], ast.Constant):
                    ev = t.comparators[0].value
                    for sub in node.body:
                        for c in ast.walk(sub):
                            if isinstance(c, ast.Call) and isinstance(c.func, ast.Name) and c.func.id == "ActivatedRail":
                                kw = {k.arg: k.value for k in c.keywords}
                                if not (isinstance(kw.get("type"), ast.Constant) and isinstance(kw["type"].value, str)):
                                    raise TranslatorError("ActivatedRail(type=...) is not a string literal")
                                rail_start[ev] = kw["type"].value
                elif isinstance(t.ops[0], ast.In):
                    names = _str_list(t.comparators[0], "rail-finished event list")
                    # the branch that clears the current rail
                    clears = any(
                        isinstance(s, ast.Assign) and isinstance(s.targets[0], ast.Name) and s.targets[0].id == "activated_rail"
                        and isinstance(s.value, ast.Constant) and s.value.value is None
                        for s in node.body
                    )
                    if clears:
                        if finished is not None:
                            raise TranslatorError("two rail-finished branches")
                        finished = names
    if sorted(rail_start.items()) != sorted({"StartInputRail": "input", "StartOutputRail": "output"}.items()):
        raise TranslatorError(f"unexpected rail start events: {rail_start}")
    if finished is None:
        raise TranslatorError("rail-finished branch not found")
    out["rail_start"] = rail_start
    out["rail_finished"] = finished

    # the stop rule: after the loop, `if activated_rail is not None:` ... `if activated_rail.type in [...]:`
    # `activated_rail.stop = True` + `activated_rail.decisions.append("stop")`; no other assignment to `.stop`
    stop_assigns = []
    for node in ast.walk(fn):
        if isinstance(node, ast.Assign) and len(node.targets) == 1 and isinstance(node.targets[0], ast.Attribute) \
                and node.targets[0].attr == "stop":
            stop_assigns.append(node)
    if len(stop_assigns) != 1:
        raise TranslatorError(f"expected exactly one assignment to `.stop`, found {len(stop_assigns)}")
    stop_types = None
    stop_decision = None
    for top in fn.body:
        if isinstance(top, ast.If) and isinstance(top.test, ast.Compare) and isinstance(top.test.left, ast.Name) \
                and top.test.left.id == "activated_rail" and isinstance(top.test.ops[0], ast.IsNot):
            for s in top.body:
                if isinstance(s, ast.If) and isinstance(s.test, ast.Compare) and isinstance(s.test.ops[0], ast.In) \
                        and _is_attr(s.test.left, "activated_rail", "type"):
                    body = s.body
                    ok_stop = any(b is stop_assigns[0] and _is_attr(b.targets[0], "activated_rail", "stop")
                                  and isinstance(b.value, ast.Constant) and b.value.value is True for b in body)
                    if not ok_stop:
                        raise TranslatorError("the stop rule does not set activated_rail.stop = True")
                    stop_types = _str_list(s.test.comparators[0], "stop rail types")
                    for b in body:
                        if isinstance(b, ast.Expr) and isinstance(b.value, ast.Call) and isinstance(b.value.func, ast.Attribute) \
                                and b.value.func.attr == "append" and _is_attr(b.value.func.value, "activated_rail", "decisions"):
                            a = b.value.args[0]
                            if isinstance(a, ast.Constant) and isinstance(a.value, str):
                                stop_decision = a.value
    if stop_types is None or stop_decision is None:
        raise TranslatorError("stop rule (`if activated_rail is not None` after the loop) not found in the expected shape")
    out["stop_types"] = stop_types
    out["stop_decision"] = stop_decision

    # the `generate user intent` + task `general` => generation re-typing
    retype = None
    for node in ast.walk(fn):
        if isinstance(node, ast.If) and isinstance(node.test, ast.Compare) and _is_attr(node.test.left, "activated_rail", "name") \
                and isinstance(node.test.comparators[0], ast.Constant):
            task = None
            newtype = None
            for c in ast.walk(node):
                if isinstance(c, ast.Compare) and isinstance(c.left, ast.Attribute) and c.left.attr == "task" \
                        and isinstance(c.comparators[0], ast.Constant):
                    task = c.comparators[0].value
                if isinstance(c, ast.Assign) and _is_attr(c.targets[0], "activated_rail", "type") and isinstance(c.value, ast.Constant):
                    newtype = c.value.value
            retype = (node.test.comparators[0].value, task, newtype)
    if retype is None or None in retype:
        raise TranslatorError("re-typing rule for `generate user intent` not found")
    out["retype"] = retype
    return out


def options_consts():
    tree = _parse("nemoguardrails/rails/llm/options.py")
    cls = _cls(tree, "GenerationRailsOptions")
    fields = []
    for s in cls.body:
        if isinstance(s, ast.AnnAssign) and isinstance(s.target, ast.Name):
            if not (isinstance(s.value, ast.Call) and isinstance(s.value.func, ast.Name) and s.value.func.id == "Field"):
                raise TranslatorError(f"field {s.target.id} is not a pydantic Field(...)")
            kw = {k.arg: k.value for k in s.value.keywords}
            d = kw.get("default")
            if not (isinstance(d, ast.Constant) and isinstance(d.value, bool)):
                raise TranslatorError(f"default of rails option {s.target.id} is not a bool literal")
            fields.append((s.target.id, d.value))
    if sorted(f for f, _ in fields) != ["dialog", "input", "output", "retrieval"]:
        raise TranslatorError(f"unexpected rails option fields: {fields}")
    # list form: the dict the root validator starts from
    go = _cls(tree, "GenerationOptions")
    fn = _func(go, "check_fields")
    base = None
    sets_true = False
    for node in ast.walk(fn):
        if isinstance(node, ast.Assign) and isinstance(node.targets[0], ast.Name) and node.targets[0].id == "_rails" \
                and isinstance(node.value, ast.Dict):
            base = []
            for k, v in zip(node.value.keys, node.value.values):
                if not (isinstance(k, ast.Constant) and isinstance(v, ast.Constant) and isinstance(v.value, bool)):
                    raise TranslatorError("list-form base dict is not literal")
                base.append((k.value, v.value))
        if isinstance(node, ast.Assign) and isinstance(node.targets[0], ast.Subscript) \
                and isinstance(node.targets[0].value, ast.Name) and node.targets[0].value.id == "_rails" \
                and isinstance(node.value, ast.Constant) and node.value.value is True:
            sets_true = True
    if base is None or not sets_true:
        raise TranslatorError("list form of the `rails` option not found in GenerationOptions.check_fields")
    if sorted(k for k, _ in base) != ["dialog", "input", "output", "retrieval"]:
        raise TranslatorError(f"unexpected list-form base: {base}")
    # GenerationOptions.rails uses default_factory=GenerationRailsOptions
    return {"defaults": fields, "list_base": base}


def _pairs(xs):
    return "[" + "; ".join(f"({coq_str(k)}, {coq_bool(v)})" for k, v in xs) + "]"


def c16_consts():
    g = genlog_consts()
    o = options_consts()
    lines = [
        HEADER,
        "(* --- logging/processing_log.py::compute_generation_log --- *)",
        f"Definition ignored_actions : list string := {coq_str_list(g['ignored_actions'])}.",
        f"Definition ignored_flows : list string := {coq_str_list(g['ignored_flows'])}.",
        f"Definition generation_flows : list string := {coq_str_list(g['generation_flows'])}.",
        f"Definition ev_start_input_rail : string := {coq_str([k for k, v in g['rail_start'].items() if v == 'input'][0])}.",
        f"Definition ev_start_output_rail : string := {coq_str([k for k, v in g['rail_start'].items() if v == 'output'][0])}.",
        f"Definition ev_rail_finished : list string := {coq_str_list(g['rail_finished'])}.",
        f"Definition stop_types : list string := {coq_str_list(g['stop_types'])}.",
        f"Definition stop_decision : string := {coq_str(g['stop_decision'])}.",
        f"Definition retype_name : string := {coq_str(g['retype'][0])}.",
        f"Definition retype_task : string := {coq_str(g['retype'][1])}.",
        f"Definition retype_to : string := {coq_str(g['retype'][2])}.",
        "(* --- rails/llm/options.py::GenerationRailsOptions / GenerationOptions.check_fields --- *)",
        f"Definition rails_option_defaults : list (string * bool) := {_pairs(o['defaults'])}.",
        f"Definition rails_list_form_base : list (string * bool) := {_pairs(o['list_base'])}.",
        "",
    ]
    return "\n".join(lines)


GENERATORS = {"C16Consts": c16_consts}


# ---------------------------------------------------------------------------------------
# (T) the `if` guards of the shipped Colang flows as expression trees (Gen/C16Flows.v)
#
# The compiled flat elements themselves come from translator/gen_c01.py (Gen/C01Flows.v, guard
# expressions as strings).  Here every guard string of the option-guarded flows is parsed with
# Python's `ast` - after the `$name` -> `var_name` rewriting eval_expression itself applies - into
# the `gexpr` type of Pipe/OptGuards.v.  Coq re-prints each tree (`show`) and compares it with the
# string, so a wrong parse cannot go unnoticed.

import re as _re


def expr_to_gexpr(s: str) -> str:
    if not isinstance(s, str):
        raise TranslatorError(f"guard is not a string: {s!r}")
    py = _re.sub(r"\$([a-zA-Z_][a-zA-Z0-9_]*)", r"var_\1", s)
    try:
        tree = ast.parse(py, mode="eval").body
    except SyntaxError as ex:
        raise TranslatorError(f"guard `{s}` is not a Python expression: {ex}")

    def conv(n) -> str:
        if isinstance(n, ast.Name):
            if not n.id.startswith("var_"):
                raise TranslatorError(f"guard `{s}`: bare name {n.id}")
            return f"(GVar {coq_str(n.id[4:])})"
        if isinstance(n, ast.Attribute):
            return f"(GAttr {conv(n.value)} {coq_str(n.attr)})"
        if isinstance(n, ast.Constant):
            if n.value is None:
                return "GNone"
            if n.value is True:
                return "GTrue"
            if n.value is False:
                return "GFalse"
            raise TranslatorError(f"guard `{s}`: constant {n.value!r} outside the vocabulary")
        if isinstance(n, ast.Compare):
            if len(n.ops) != 1:
                raise TranslatorError(f"guard `{s}`: chained comparison")
            op = n.ops[0]
            a, b = conv(n.left), conv(n.comparators[0])
            if isinstance(op, ast.Is):
                return f"(GIs {a} {b})"
            if isinstance(op, ast.Eq):
                return f"(GEq {a} {b})"
            raise TranslatorError(f"guard `{s}`: comparison {type(op).__name__} outside the vocabulary")
        if isinstance(n, ast.UnaryOp) and isinstance(n.op, ast.Not):
            return f"(GNot {conv(n.operand)})"
        if isinstance(n, ast.BoolOp):
            c = "GAnd" if isinstance(n.op, ast.And) else "GOr"
            out = conv(n.values[0])
            for v in n.values[1:]:
                out = f"({c} {out} {conv(v)})"
            return out
        raise TranslatorError(f"guard `{s}`: {type(n).__name__} outside the vocabulary")

    return conv(tree)


GUARDED_FLOWS = ["process user input", "run dialog rails", "generate bot message", "process bot message"]


def _v1_if_guards(rel, wanted):
    import sys
    from translator.consts import REPO
    if REPO not in sys.path:
        sys.path.insert(0, REPO)
    from nemoguardrails.colang import parse_colang_file
    import os
    with open(os.path.join(REPO, rel), encoding="utf-8") as f:
        parsed = parse_colang_file(os.path.basename(rel), f.read())
    flows = {fl["id"]: fl for fl in parsed["flows"]}
    out = []
    for name in wanted:
        if name not in flows:
            raise TranslatorError(f"{rel}: flow `{name}` not found")
        for e in flows[name]["elements"]:
            if e.get("_type") == "if":
                out.append(e["expression"])
    return out


def guard_table(exprs):
    seen = []
    for x in exprs:
        if x not in seen:
            seen.append(x)
    return "[" + ";\n   ".join(f"({coq_str(x)}, {expr_to_gexpr(x)})" for x in seen) + "]"


def injection_consts():
    """generate_async: `if messages[-1]["role"] == "assistant" and options and options.rails.dialog is False:`
    moves the trailing message into messages[0]["content"]["bot_message"] and drops it."""
    tree = _parse("nemoguardrails/rails/llm/llmrails.py")
    fn = _func(_cls(tree, "LLMRails"), "generate_async")
    found = None
    for n in ast.walk(fn):
        if not isinstance(n, ast.If):
            continue
        sets = any(isinstance(s, ast.Assign) and isinstance(s.targets[0], ast.Subscript)
                   and isinstance(s.targets[0].slice, ast.Constant) and s.targets[0].slice.value == "bot_message"
                   for s in n.body)
        if sets:
            if found is not None:
                raise TranslatorError("generate_async: two bot_message injections")
            found = n
    if found is None:
        raise TranslatorError("generate_async: bot_message injection not found")
    t = found.test
    if not (isinstance(t, ast.BoolOp) and isinstance(t.op, ast.And) and len(t.values) == 3):
        raise TranslatorError("generate_async: injection condition is not a 3-way conjunction")
    role, opt, dlg = t.values
    want_role = ast.dump(ast.parse('messages[-1]["role"] == "assistant"', mode="eval").body)
    want_dlg = ast.dump(ast.parse("options.rails.dialog is False", mode="eval").body)
    if ast.dump(role) != want_role or not (isinstance(opt, ast.Name) and opt.id == "options") or ast.dump(dlg) != want_dlg:
        raise TranslatorError("generate_async: injection condition has an unexpected shape: " + ast.unparse(t))
    # body: bot_message := content of the last message; the message is removed
    drops = any(isinstance(s, ast.Assign) and isinstance(s.targets[0], ast.Name) and s.targets[0].id == "messages"
                and ast.dump(s.value) == ast.dump(ast.parse("messages[0:-1]", mode="eval").body) for s in found.body)
    takes = any(isinstance(s, ast.Assign) and ast.dump(s.value) == ast.dump(ast.parse('messages[-1]["content"]', mode="eval").body)
                for s in found.body)
    if not (drops and takes):
        raise TranslatorError("generate_async: injection body has an unexpected shape")
    return {"role": "assistant"}


def c16_flows():
    guards = _v1_if_guards("nemoguardrails/rails/llm/llm_flows.co", GUARDED_FLOWS)
    inj = injection_consts()
    lines = [
        "(* GENERATED on every run by /verif/translator/gen_c16.py from the current source tree. Do not edit. *)",
        "From Coq Require Import String List.",
        "From NG Require Import Pipe.OptGuards.",
        "Import ListNotations.",
        "Open Scope string_scope.",
        "",
        "(* the `if` guards of process user input / run dialog rails / generate bot message / process bot message *)",
        f"Definition c16_guard_table : list (string * gexpr) :=\n  {guard_table(guards)}.",
        "",
        "(* generate_async moves a trailing message with this role into $bot_message iff options are given",
        "   and options.rails.dialog is False (shape checked by the translator) *)",
        f"Definition inject_role : string := {coq_str(inj['role'])}.",
        "Definition inject_iff_options_and_dialog_is_false : bool := true.",
        "",
    ]
    return "\n".join(lines)


GENERATORS["C16Flows"] = c16_flows
