(* C15 - executable instance of the history-cache model used by the correspondence check and
   by the vm_compute witnesses: alphabet = bytes, separator / role cases / verified-lookup
   flag as translated from the CURRENT source (Gen/C15Consts.v), events = canonical tokens
   as harness/c15.py renders the real event dicts (every other event, i.e. everything only the
   runtime produces, is TX <hash of its uid-free content>):
       user       -> "U:"<content>  and, unless it is the last message, "M:"<content>
                     (UtteranceUserActionFinished, UserMessage)
       assistant  -> "S:"<content>, "F:"<content>   (StartUtteranceBotAction, UtteranceBotActionFinished)
       context    -> "C:"<json>                      (ContextUpdate)
       event      -> "E:"<json>                      (the event itself)
       other role -> nothing
   Nothing here is used by the general theorems. *)
From Coq Require Import List String Ascii Bool Arith NArith.
From NG Require Import Gen.C15Consts Svc.HistKey Svc.HistCache.
Import ListNotations.
Open Scope string_scope.
Open Scope list_scope.

Definition bytes := list ascii.
Definition s2l : string -> bytes := list_ascii_of_string.

Definition contributes_now (r : role) : bool :=
  match r with
  | RUser => hist_key_user
  | RAssistant => hist_key_assistant
  | RContext => hist_key_context
  | REvent => hist_key_event
  | ROther _ => hist_key_other
  end.

Definition sep_now : bytes := s2l hist_sep.
Definition key_now : list (msg ascii) -> bytes := key sep_now contributes_now.
Definition verify_now : bool := hist_lookup_verifies_messages.

(* roles of messages the service produces: assistant, exception (= ROther 0) *)
Definition is_reply_c (r : role) : bool :=
  match r with RAssistant => true | ROther 0 => true | _ => false end.

Inductive etok : Type :=
| TU (b : bytes) | TM (b : bytes) | TS (b : bytes) | TF (b : bytes) | TC (b : bytes) | TE (b : bytes)
| TX (h : N).

Definition conv1 (last : bool) (m : msg ascii) : list etok :=
  match m_role m with
  | RUser => TU (m_body m) :: (if last then [] else [TM (m_body m)])
  | RAssistant => [TS (m_body m); TF (m_body m)]
  | RContext => [TC (m_body m)]
  | REvent => [TE (m_body m)]
  | ROther _ => []
  end.

Fixpoint conv_c (ms : list (msg ascii)) : list etok :=
  match ms with
  | [] => []
  | m :: rest => conv1 (match rest with [] => true | _ => false end) m ++ conv_c rest
  end.

Definition bytes_eqb : bytes -> bytes -> bool := str_eqb ascii_dec.

Definition etok_eqb (x y : etok) : bool :=
  match x, y with
  | TU a, TU b | TM a, TM b | TS a, TS b | TF a, TF b | TC a, TC b | TE a, TE b => bytes_eqb a b
  | TX a, TX b => N.eqb a b
  | _, _ => false
  end.

Definition events_for_c (verify : bool) := events_for ascii ascii_dec bytes bytes_eqb key_now etok conv_c verify.
Definition serve_c (verify : bool) := serve ascii ascii_dec bytes bytes_eqb key_now etok conv_c verify.
Definition cache_c := cache ascii bytes etok.

(* tokens as the harness prints them *)
Definition tU (s : string) := TU (s2l s).
Definition tM (s : string) := TM (s2l s).
Definition tS (s : string) := TS (s2l s).
Definition tF (s : string) := TF (s2l s).
Definition tC (s : string) := TC (s2l s).
Definition tE (s : string) := TE (s2l s).

(* ---- case terms printed by the harness ---- *)
Definition smsg := (role * string)%type.
Definition mk (m : smsg) : msg ascii := Msg (fst m) (s2l (snd m)).

(* (messages, key returned by the real get_history_cache_key) *)
Definition check_key (c : list smsg * string) : bool :=
  bytes_eqb (key_now (map mk (fst c))) (s2l (snd c)).

Fixpoint toks_eqb (x y : list etok) : bool :=
  match x, y with
  | [], [] => true
  | a :: x', b :: y' => etok_eqb a b && toks_eqb x' y'
  | _, _ => false
  end.

(* one observed operation on a real LLMRails instance *)
Inductive op : Type :=
| Serve (req : list smsg) (events : list etok) (reply : smsg) (new_events : list etok)
    (* generate_async: request, what _get_events_for_messages returned, returned message,
       events produced by the runtime *)
| Probe (req : list smsg) (events : list etok).
    (* a bare call of _get_events_for_messages (reads the cache, stores nothing) *)

Fixpoint check_ops (verify : bool) (c : cache_c) (ops : list op) : bool :=
  match ops with
  | [] => true
  | Serve req ev r nw :: rest =>
      let '(c', ev') := serve_c verify c (map mk req) nw (mk r) in
      toks_eqb ev' ev && check_ops verify c' rest
  | Probe req ev :: rest =>
      toks_eqb (events_for_c verify c (map mk req)) ev && check_ops verify c rest
  end.

Definition check_trace (ops : list op) : bool := check_ops verify_now [] ops.

(* index of the first operation the model disagrees on (for replay files) *)
Fixpoint first_bad (verify : bool) (c : cache_c) (ops : list op) (i : nat) : option (nat * list etok) :=
  match ops with
  | [] => None
  | Serve req ev r nw :: rest =>
      let '(c', ev') := serve_c verify c (map mk req) nw (mk r) in
      if toks_eqb ev' ev then first_bad verify c' rest (S i) else Some (i, ev')
  | Probe req ev :: rest =>
      let ev' := events_for_c verify c (map mk req) in
      if toks_eqb ev' ev then first_bad verify c rest (S i) else Some (i, ev')
  end.

Definition show_tok (t : etok) : string :=
  match t with
  | TU b => "U:" ++ string_of_list_ascii b | TM b => "M:" ++ string_of_list_ascii b
  | TS b => "S:" ++ string_of_list_ascii b | TF b => "F:" ++ string_of_list_ascii b
  | TC b => "C:" ++ string_of_list_ascii b | TE b => "E:" ++ string_of_list_ascii b
  | TX _ => "X"
  end%string.

Definition model_answer (ops : list op) : option (nat * list string) :=
  match first_bad verify_now [] ops 0 with
  | None => None
  | Some (i, ev) => Some (i, map show_tok ev)
  end.

(* ---- a concrete generation function for the vm_compute witnesses: the reply is "R" and the
   new events are a user-intent marker plus the bot message (any function would do) ---- *)
Definition G_c (ev : list etok) : list etok := [TX 1; tS "R"].
Definition reply_c (nw : list etok) : msg ascii := Msg RAssistant (s2l "R").

Definition shared_c (verify : bool) (convs : nat -> list (list (msg ascii))) (sched : list nat) (c : nat) :=
  shared_trace ascii ascii_dec bytes bytes_eqb key_now etok conv_c G_c reply_c verify convs sched c.
Definition alone_c (verify : bool) (ts : list (list (msg ascii))) :=
  alone ascii ascii_dec bytes bytes_eqb key_now etok conv_c G_c reply_c verify ts.

(* F6: conversation 0 says "a" (reply "R"); conversation 1 says "a:R" then "q" in one request *)
Definition f6_convs (c : nat) : list (list (msg ascii)) :=
  match c with
  | 0 => [[mk (RUser, "a")]]
  | 1 => [[mk (RUser, "a:R"); mk (RUser, "q")]]
  | _ => []
  end.

Definition show_obs (o : obs ascii etok) : list string * string :=
  (map show_tok (o_events _ _ o), string_of_list_ascii (m_body (o_reply _ _ o))).

Eval vm_compute in map show_obs (shared_c false f6_convs [0; 1] 1).
Eval vm_compute in map show_obs (alone_c false (f6_convs 1)).
Eval vm_compute in map show_obs (shared_c true f6_convs [0; 1] 1).
