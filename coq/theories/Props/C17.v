(* C17 - Arbitrary LLM output never breaks a turn and is treated as data.
   Property theorems only; every proof is `exact <lemma>`; Print Assumptions beneath each.

   PROVED (about the Gallina models of Svc/TextPost.v and Pipe/Taint.v, for ALL texts, all
   oracles, unbounded sizes):
     - every text post-processing helper of the three-step / single-call / general / multi-step
       pipeline answers on every completion; the two exceptions that exist are characterised
       exactly (single call on the empty completion: TypeError; generate_bot_message on the
       empty, not predefined bot intent: IndexError) and both are raised INSIDE actions;
     - the multi-step "drop the last line until it parses" loop terminates for every parser
       oracle, within `number of lines` iterations, with an accepted non-empty prefix or the
       general response;
     - an exception inside an action becomes the three internal-error events whose reply is the
       fixed internal-error message (the v1 runtime rule failed => internal error), so the
       turn-level statement reduces to the code OUTSIDE actions (the Colang parser / interpreter
       on LLM-produced flows, history rendering, state serialisation);
     - _process_start_flow: its parse + one-flow assert cannot raise when the generation validates
       the very text the runtime parses (what the CURRENT source does, read by the translator:
       Gen.C17Consts.validate_wrapped); validating the raw body (the code before the repair) is
       refuted;
     - the AddFlowsAction fallback and the literal_eval-only value generation: exact outcomes;
     - taint: no Jinja/literal evaluator interprets an LLM-produced text in the modelled turn; an
       LLM-produced utterance is the post-processed completion itself.
   EXPLORED, NOT PROVED (harness/c17.py, end-to-end on the real code): the behaviour of the real
   Colang parsers / interpreters / Jinja / serialisation on arbitrary LLM text, i.e. everything
   "outside actions" in C17_contained, and all of the Colang 2 LLM flows. *)
From Coq Require Import NArith List Bool String.
From NG Require Import Gen.C17Consts Svc.TextPost Svc.TextPost_proofs Svc.TextPostRun Pipe.Taint Pipe.Taint_proofs.
Import ListNotations.

(* (T) the literals of the model are the literals in the source; strip_quotes keeps its emptiness
   guard; generate_bot_message renders predefined messages only; literal_eval is the only
   evaluator of generate_value; the generation validates the wrapped flow; start_flow is contained *)
Theorem C17_source_facts :
  consts_agree = true /\ validate_wrapped = true /\ start_flow_contained = true.
Proof. exact (conj eq_refl (conj eq_refl eq_refl)). Qed.
Print Assumptions C17_source_facts.

Theorem C17_helpers_total : forall s : text,
  (exists r, get_first_nonempty_line s = Ok r) /\
  (exists r, get_top_k_nonempty_lines s 2 = Ok r) /\
  (exists r, strip_quotes s = Ok r) /\
  (exists r, get_multiline_response s = Ok r) /\
  (exists r, clean_utterance_content s = Ok r) /\
  (exists r, verbose_v1_parser s = Ok r) /\
  (exists r, user_intent_post s = Ok r) /\
  (exists r, next_step_post s = Ok r) /\
  (exists r, bot_message_post s = Ok r /\ r <> []) /\
  (exists r, general_post s = Ok r) /\
  (s <> [] -> exists r, single_call_post s = Ok r) /\
  (s = [] -> single_call_post s = Err TypeError) /\
  (forall parse vw fid maxl, exists o, multi_step_post parse vw fid maxl s = Some o).
Proof. exact helpers_total. Qed.
Print Assumptions C17_helpers_total.

(* generate_bot_message: `bot_intent[0]` raises exactly for the empty, not predefined intent -
   which the next-step post-processing does produce (e.g. from `bot "hello"`) *)
Theorem C17_bot_intent_index_error : forall predefined ctx_has bi,
  (bot_message_source predefined ctx_has bi = Err IndexError <-> (bi = [] /\ predefined [] = false)) /\
  (forall e, bot_message_source predefined ctx_has bi = Err e -> e = IndexError).
Proof. exact bot_message_source_char. Qed.
Print Assumptions C17_bot_intent_index_error.

Theorem C17_bot_intent_empty_reachable : next_step_post (s2t "bot ""hello""") = Ok [].
Proof. exact next_step_post_empty_reachable. Qed.
Print Assumptions C17_bot_intent_empty_reachable.

(* the shrink loop terminates for ANY oracle within length(lines) iterations *)
Theorem C17_shrink_terminates : forall (accepts : list text -> bool) lines,
  lines <> [] -> exists o, shrink_fuel accepts (List.length lines) lines = Some o.
Proof. exact shrink_terminates. Qed.
Print Assumptions C17_shrink_terminates.

Theorem C17_shrink_decreases : forall accepts lines lines',
  shrink_step accepts lines = inr lines' -> lines <> [] ->
  (List.length lines' < List.length lines)%nat /\ lines' <> [] /\ lines' = removelast lines.
Proof. exact shrink_step_decreases. Qed.
Print Assumptions C17_shrink_decreases.

Theorem C17_shrink_result : forall accepts n lines o,
  lines <> [] -> shrink_fuel accepts n lines = Some o ->
  match o with
  | GeneralResponse => True
  | StartFlow ls => accepts ls = true /\ ls <> [] /\ is_prefix ls lines
  end.
Proof. exact shrink_result. Qed.
Print Assumptions C17_shrink_result.

(* an exception inside an action = the internal-error reply; success = the action's own events *)
Theorem C17_contained : forall (A : Type) (events_of : A -> list event) (r : res A),
  (forall e, r = Err e ->
     process_start_action events_of r = internal_error_events /\
     reply_of (process_start_action events_of r) = INTERNAL_ERROR_MESSAGE) /\
  (forall a, r = Ok a -> process_start_action events_of r = events_of a).
Proof. exact contained. Qed.
Print Assumptions C17_contained.

(* _process_start_flow's parse + assert cannot raise on what the CURRENT generation accepts
   (validate_wrapped is the value read from the source), and the accepted body is not blank *)
Theorem C17_runtime_parse : forall parse flow_id result o,
  multi_step_post parse validate_wrapped flow_id c_max_multi_step_lines result = Some o ->
  match o with
  | GeneralResponse => True
  | StartFlow ls => process_start_flow_parse parse flow_id (join_nl ls) = Ok tt /\ blank (join_nl ls) = false
  end.
Proof. exact (fun parse flow_id => multi_step_safe parse flow_id c_max_multi_step_lines). Qed.
Print Assumptions C17_runtime_parse.

(* the number of parser runs spent on one completion is bounded by the cap read from the source,
   whatever the length of the completion (fuel of the loop = number of capped lines) *)
Theorem C17_shrink_work_bounded : forall result,
  (List.length (cap_lines c_max_multi_step_lines (split_nl result)) <= c_max_multi_step_lines)%nat.
Proof. exact (fun result => multi_step_work_bounded c_max_multi_step_lines result (fun H => O_S _ (eq_sym H))). Qed.
Print Assumptions C17_shrink_work_bounded.

(* ... whereas validating the raw body (the code before the repair) protects nothing *)
Theorem C17_runtime_parse_unguarded_refuted :
  exists parse flow_id result ls,
    multi_step_post parse false flow_id 0 result = Some (StartFlow ls) /\
    exists e, process_start_flow_parse parse flow_id (join_nl ls) = Err e.
Proof. exact runtime_parse_unguarded_refuted. Qed.
Print Assumptions C17_runtime_parse_unguarded_refuted.

(* Colang 2 AddFlowsAction: when the generated code does not parse, the fallback raises exactly
   when the first line has no space, or when the fallback flow itself does not parse *)
Theorem C17_add_flows_fallback : forall parse2 content,
  match parse2 content with
  | Ok fl => add_flows_action parse2 content = Ok fl
  | Err _ =>
      let l0 := match split_nl content with h :: _ => h | [] => [] end in
      match split1_at SPACE l0 with
      | None => add_flows_action parse2 content = Err IndexError
      | Some (_, name) => add_flows_action parse2 content = parse2 (fallback_flow name)
      end
  end.
Proof. exact add_flows_action_char. Qed.
Print Assumptions C17_add_flows_fallback.

(* generated values: literal_eval is the only evaluator, applied once, its failure the only failure *)
Theorem C17_value_literal_only : forall V (lev : text -> res V) last result,
  exists v2, (forall v, lev v2 = Ok v -> generate_value_v2 V lev last result = Ok v) /\
             (forall e, lev v2 = Err e -> generate_value_v2 V lev last result = Err ValueError).
Proof. exact generate_value_v2_char. Qed.
Print Assumptions C17_value_literal_only.

(* bot intent `$name`: whatever the context variable holds, the text of the BotMessage event is a
   str or the action fails inside (AttributeError, contained) - with clean_utterance_content AS IN
   THE SOURCE (clean_guarded read by the translator); a guard that skips non-str values is refuted *)
Theorem C17_ctx_utterance_is_str : forall v r,
  ctx_utterance clean_guarded v = Ok r -> exists t, r = inl t.
Proof. exact ctx_utterance_is_str. Qed.
Print Assumptions C17_ctx_utterance_is_str.

Theorem C17_ctx_utterance_guarded_refuted : exists v, ctx_utterance true v = Ok (inr tt).
Proof. exact ctx_utterance_guarded_refuted. Qed.
Print Assumptions C17_ctx_utterance_guarded_refuted.

(* generated values: accepted => every atom of the value, dict KEYS included, can be stored in the
   conversation state (the key check is the one of the source: value_keys_checked) *)
Theorem C17_value_storable : forall v,
  supported_value value_keys_checked v = true -> forallb atom_storable (atoms v) = true.
Proof. exact supported_value_sound. Qed.
Print Assumptions C17_value_storable.

Theorem C17_value_keys_unchecked_refuted :
  exists v, supported_value false v = true /\ forallb atom_storable (atoms v) = false.
Proof. exact supported_value_keys_unchecked_refuted. Qed.
Print Assumptions C17_value_keys_unchecked_refuted.

(* taint: in the three-step turn no evaluator interprets an LLM text, and an LLM-produced
   utterance is exactly the post-processed third completion *)
Theorem C17_taint : forall llm render prompt_template predefined ctx data_env h m tr,
  turn_dialog llm render prompt_template predefined ctx data_env h = Ok (m, tr) ->
  programs_clean tr /\ (tg m = FromLLM -> bot_message_post (llm 2%nat) = Ok (txt m)).
Proof. exact turn_dialog_taint. Qed.
Print Assumptions C17_taint.

Theorem C17_taint_general : forall llm render prompt_template data_env h m tr,
  turn_general llm render prompt_template data_env h = Ok (m, tr) ->
  programs_clean tr /\ general_post (llm 0%nat) = Ok (txt m).
Proof. exact turn_general_taint. Qed.
Print Assumptions C17_taint_general.

Theorem C17_taint_single_call : forall llm render prompt_template data_env h m tr,
  turn_single_call llm render prompt_template data_env h = Ok (m, tr) ->
  programs_clean tr /\ exists ui bi, single_call_post (llm 0%nat) = Ok (ui, bi, txt m).
Proof. exact turn_single_call_taint. Qed.
Print Assumptions C17_taint_single_call.

(* multi-turn: with the number of rendering passes of taskmanager._render_string AS IN THE SOURCE
   (prompt_render_passes, read by the translator), over any number of turns and whatever the LLM
   and the user wrote in earlier turns, every text interpreted as a template is configuration:
   the history is inserted as data and never interpreted *)
Theorem C17_taint_multi_turn : forall llm render pt denv users k0 h h' tr,
  conversation llm render pt denv prompt_render_passes k0 h users = Ok (h', tr) -> programs_clean tr.
Proof.
  exact (fun llm render pt denv users k0 h h' tr =>
           conversation_taint llm render pt denv prompt_render_passes users k0 h h' tr (le_n 1)).
Qed.
Print Assumptions C17_taint_multi_turn.

(* ... a second pass over the rendered prompt interprets LLM text of an earlier turn *)
Theorem C17_taint_two_passes_refuted :
  exists llm users h' tr e t,
    conversation llm (fun t _ => t) (fun _ => s2t "tpl") (fun _ t => t) 2 0 [] users = Ok (h', tr) /\
    In (e, t) tr /\ e = Render /\ tg t = FromLLM.
Proof. exact conversation_two_passes_refuted. Qed.
Print Assumptions C17_taint_two_passes_refuted.
