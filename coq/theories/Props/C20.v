(* C20 - Server loads configs only from its root and threads keep the exact history.
   Property theorems only; every proof is `exact <lemma>`; Print Assumptions beneath each.

   Strings are lists of code points (N); '/', '.', '\' are sepN, dotN, bslashN.  The reject
   pattern, the presence of the commonprefix test, "thread-", the minimum thread-id length and
   the reply text are the values read from the CURRENT api.py (Gen/C20Consts.v); the functions
   `..._now` / `..._src` are the models of Svc/Path.v and Svc/Threads.v over those values.
   Loader (RailsConfig.from_path), LLM, server configuration (cwd, rails_config_path,
   single-config id, default config id) and the initial datastore are arbitrary. *)
From Coq Require Import List NArith Bool.
From NG Require Import Gen.C20Consts Svc.Path Svc.Path_proofs Svc.Threads Svc.Threads_proofs
                       Svc.PathRun Svc.C20_now Svc.C20_examples.
Import ListNotations.
Open Scope N_scope.

(* (T) constants of the current source: key prefix "thread-", minimum thread-id length 16, the
   fixed reply begins with "Could not load" *)
Theorem C20_source_constants :
  thread_prefix = [116; 104; 114; 101; 97; 100; 45]
  /\ min_thread_id_len = 16
  /\ is_prefix could_not_load_words could_not_load_prefix = true.
Proof. exact source_constants_now. Qed.
Print Assumptions C20_source_constants.

(* (T) the reject test of the current source fires on every id containing '/', and an id that
   is ".." is stopped by it or by the commonprefix test *)
Theorem C20_source_guards :
  Path.pat_rejects_char N N.eq_dec reject_pattern sepN = true
  /\ (reject_now [dotN; dotN] = true \/ prefix_check_present = true).
Proof. exact (conj guard_sep_now guard_dotdot_now). Qed.
Print Assumptions C20_source_guards.

(* CONFINEMENT, one id.  For every working directory, every configured root (absolute or
   relative, normalised or not) and EVERY id string: an accepted path is the root itself or
   root (+ "/" unless the root is "/" or "//") + seg where seg is a plain directory entry name
   (non-empty, no separator, not "." and not "..") *)
Theorem C20_confined :
  forall cwd root id p,
    Path.starts_with_sep N N.eq_dec sepN cwd = true ->
    get_rails_path_now (abspathN cwd root) id = Accept p ->
    Path.inside N N.eq_dec sepN dotN (abspathN cwd root) p.
Proof. exact confined_now. Qed.
Print Assumptions C20_confined.

(* ... for any normalised absolute root (one or two '/' followed by plain segments joined by
   single '/'), the hypothesis `normal base` of DESIGN.md *)
Theorem C20_confined_normal_base :
  forall base id p,
    Path.abs_normal N sepN dotN base ->
    get_rails_path_now base id = Accept p ->
    Path.inside N N.eq_dec sepN dotN base p.
Proof. exact confined_normal_base_now. Qed.
Print Assumptions C20_confined_normal_base.

(* abspath under an absolute working directory always is such a root *)
Theorem C20_abspath_normal :
  forall cwd root,
    Path.starts_with_sep N N.eq_dec sepN cwd = true ->
    Path.abs_normal N sepN dotN (abspathN cwd root).
Proof. exact (abspath_abs_normal N N.eq_dec sepN dotN). Qed.
Print Assumptions C20_abspath_normal.

(* FUNCTIONAL SPECIFICATION of the per-id logic (given that the reject test fires on "..", as
   the shipped one does): reject exactly when the pattern matches; otherwise "" and "." name
   the root and every other id names the child root/id - no other outcome exists *)
Theorem C20_path_spec :
  forall cwd root id,
    Path.starts_with_sep N N.eq_dec sepN cwd = true ->
    reject_now [dotN; dotN] = true ->
    let base := abspathN cwd root in
    get_rails_path_now base id =
      if reject_now id then Reject
      else Accept (if nstr_eqb id [] || nstr_eqb id [dotN] then base
                   else base ++ Path.tail_sep N N.eq_dec sepN base ++ id).
Proof. exact path_spec_now. Qed.
Print Assumptions C20_path_spec.

(* ... in the form of DESIGN.md, for a root other than "/" and "//" *)
Theorem C20_confined_nonroot :
  forall cwd root id p,
    Path.starts_with_sep N N.eq_dec sepN cwd = true ->
    Path.ends_with_sep N N.eq_dec sepN (abspathN cwd root) = false ->
    get_rails_path_now (abspathN cwd root) id = Accept p ->
    p = abspathN cwd root
    \/ exists seg, p = abspathN cwd root ++ [sepN] ++ seg
                   /\ ~ In sepN seg /\ seg <> [dotN; dotN] /\ seg <> [dotN] /\ seg <> [].
Proof. exact confined_now_nonroot. Qed.
Print Assumptions C20_confined_nonroot.

(* CONFINEMENT, config_ids form and request sequences.  Starting from an empty instance cache
   and any datastore, over ANY sequence of requests (any config_ids lists, thread ids,
   messages): every path handed to the loader and every path of every instance that serves a
   request is inside the root *)
Theorem C20_confined_ids :
  forall (M : Type) cwd root single default load_ok llm,
    Path.starts_with_sep N N.eq_dec sepN cwd = true ->
    forall rqs store0 st' os,
      run_src M cwd root single default load_ok llm {| s_cache := []; s_store := store0 |} rqs = (st', os) ->
      Forall (fun o => Forall (Path.inside N N.eq_dec sepN dotN (abspathN cwd root)) (o_loads N M o)
                       /\ (forall inst, o_inst N M o = Some inst ->
                                        Forall (Path.inside N N.eq_dec sepN dotN (abspathN cwd root)) inst)) os.
Proof. exact run_confined_now. Qed.
Print Assumptions C20_confined_ids.

(* the loader loop of one _get_rails call: the k loader calls are for the first k ids, each
   accepted, and each path is inside the root; the call succeeds only if all ids were loaded *)
Theorem C20_loader_calls :
  forall cwd root load_ok,
    Path.starts_with_sep N N.eq_dec sepN cwd = true ->
    forall ids tr r, load_all_src cwd root load_ok ids = (tr, r) ->
      Forall (Path.inside N N.eq_dec sepN dotN (abspathN cwd root)) tr
      /\ exists k, Forall2 (fun id p => get_rails_path_now (abspathN cwd root) id = Accept p) (firstn k ids) tr
                   /\ (forall inst, r = Some inst -> inst = tr /\ k = length ids).
Proof. exact load_all_trace_now. Qed.
Print Assumptions C20_loader_calls.

(* REJECT => FIXED REPLY.  A request naming a rejected id (not served from the cache) gets the
   fixed "Could not load the <ids> ..." reply, the LLM is not called, cache and datastore are
   unchanged, and when the rejected id comes first the loader is not called at all *)
Theorem C20_reject_fixed_reply :
  forall (M : Type) cwd root default load_ok llm st rq ids id st' o,
    Threads.effective_ids N M default rq = Some ids ->
    Threads.aget N N.eq_dec (s_cache N M st) (Threads.cache_key N cache_key_joiner ids) = None ->
    In id ids -> get_rails_path_now (abspathN cwd root) id = Reject ->
    chat_src M cwd root None default load_ok llm st rq = (st', o) ->
    st' = st /\ o_reply N M o = RCouldNotLoad ids /\ o_used N M o = None
    /\ (forall tl, ids = id :: tl -> o_loads N M o = []).
Proof. exact (fun M cwd root default load_ok llm st rq ids id st' o =>
                reject_fixed_reply_now M cwd root None default load_ok llm st rq ids id st' o eq_refl). Qed.
Print Assumptions C20_reject_fixed_reply.

(* ... the same reply for every ValueError of _get_rails (a failing load, a wrong id in
   single-config mode), and its text begins with "Could not load" *)
Theorem C20_any_valueerror_fixed_reply :
  forall (M : Type) cwd root single default load_ok llm st rq ids st' o,
    Threads.effective_ids N M default rq = Some ids ->
    snd (get_rails_src cwd root single load_ok (s_cache N M st) ids) = None ->
    chat_src M cwd root single default load_ok llm st rq = (st', o) ->
    st' = st /\ o_reply N M o = RCouldNotLoad ids /\ o_used N M o = None /\ o_inst N M o = None
    /\ o_loads N M o = snd (fst (get_rails_src cwd root single load_ok (s_cache N M st) ids)).
Proof. exact valueerror_fixed_reply_now. Qed.
Print Assumptions C20_any_valueerror_fixed_reply.

Theorem C20_fixed_reply_text :
  forall repr ids, is_prefix could_not_load_words (could_not_load_text repr ids) = true.
Proof. exact could_not_load_text_begins. Qed.
Print Assumptions C20_fixed_reply_text.

(* THREAD EXACTNESS.  With a thread id: the messages used are exactly the stored thread
   followed by the new messages (and the id has the minimum length); after a bot reply the
   stored thread is that list plus the reply; otherwise the datastore is unchanged *)
Theorem C20_thread_exact :
  forall (M : Type) cwd root single default load_ok llm st rq st' o tid,
    chat_src M cwd root single default load_ok llm st rq = (st', o) ->
    Threads.thread_of N M rq = Some tid ->
    let key := thread_prefix ++ tid in
    (forall u, o_used N M o = Some u ->
               u = Threads.thread N N.eq_dec M (s_store N M st) key ++ Threads.new_messages N M rq
               /\ (min_len_src <= length tid)%nat)
    /\ (forall b, o_reply N M o = RBot b ->
                  exists u, o_used N M o = Some u
                            /\ Threads.thread N N.eq_dec M (s_store N M st') key = u ++ [b])
    /\ ((forall b, o_reply N M o <> RBot b) -> s_store N M st' = s_store N M st).
Proof. exact thread_exact_now. Qed.
Print Assumptions C20_thread_exact.

(* without a thread id: exactly the new messages are used and nothing is stored *)
Theorem C20_no_thread :
  forall (M : Type) cwd root single default load_ok llm st rq st' o,
    chat_src M cwd root single default load_ok llm st rq = (st', o) ->
    Threads.thread_of N M rq = None ->
    s_store N M st' = s_store N M st
    /\ (forall u, o_used N M o = Some u -> u = Threads.new_messages N M rq).
Proof. exact no_thread_now. Qed.
Print Assumptions C20_no_thread.

(* THREADS NEVER MIX.  A request on thread tid1 leaves every other thread as it was ... *)
Theorem C20_threads_disjoint :
  forall (M : Type) cwd root single default load_ok llm st rq st' o tid1 tid2,
    chat_src M cwd root single default load_ok llm st rq = (st', o) ->
    Threads.thread_of N M rq = Some tid1 -> tid1 <> tid2 ->
    Threads.thread N N.eq_dec M (s_store N M st') (thread_prefix ++ tid2)
    = Threads.thread N N.eq_dec M (s_store N M st) (thread_prefix ++ tid2).
Proof. exact threads_disjoint_now. Qed.
Print Assumptions C20_threads_disjoint.

(* ... and never writes a datastore key that is not "thread-" + an id *)
Theorem C20_foreign_keys_untouched :
  forall (M : Type) cwd root single default load_ok llm st rq st' o k,
    chat_src M cwd root single default load_ok llm st rq = (st', o) ->
    (forall t, k <> thread_prefix ++ t) ->
    Threads.aget N N.eq_dec (s_store N M st') k = Threads.aget N N.eq_dec (s_store N M st) k.
Proof. exact foreign_keys_now. Qed.
Print Assumptions C20_foreign_keys_untouched.

(* REFINEMENT to the abstract specification: after any request sequence every thread is its
   initial content followed by the concatenation of all its turns (new messages + reply of
   each request that carried this id and was answered by the bot), in order *)
Theorem C20_refines_spec :
  forall (M : Type) cwd root single default load_ok llm rqs st st' os tid,
    run_src M cwd root single default load_ok llm st rqs = (st', os) ->
    Threads.thread N N.eq_dec M (s_store N M st') (thread_prefix ++ tid)
    = Threads.thread N N.eq_dec M (s_store N M st) (thread_prefix ++ tid)
      ++ Threads.turns_of N N.eq_dec M tid rqs os.
Proof. exact refines_spec_now. Qed.
Print Assumptions C20_refines_spec.

(* ... and the messages used by any turn inside any sequence are all earlier turns of that
   thread followed by the new messages *)
Theorem C20_used_spec :
  forall (M : Type) cwd root single default load_ok llm rqs1 rq rqs2 st st1 os1 st2 o tid u,
    run_src M cwd root single default load_ok llm st rqs1 = (st1, os1) ->
    chat_src M cwd root single default load_ok llm st1 rq = (st2, o) ->
    Threads.thread_of N M rq = Some tid -> o_used N M o = Some u ->
    u = Threads.thread N N.eq_dec M (s_store N M st) (thread_prefix ++ tid)
        ++ Threads.turns_of N N.eq_dec M tid rqs1 os1 ++ Threads.new_messages N M rq
    /\ nth_error (snd (run_src M cwd root single default load_ok llm st (rqs1 ++ rq :: rqs2))) (length rqs1) = Some o.
Proof. exact used_spec_now. Qed.
Print Assumptions C20_used_spec.

(* THE RequestBody LAYER.  An HTTP request is either refused by the field constraints (422,
   nothing happens) or is exactly a chat_completion call on the validated body - so all of the
   above holds for HTTP request sequences - and its thread id has a length within the bounds *)
Theorem C20_http_layer :
  forall (M : Type) cwd root single default load_ok llm st h st' o,
    http_chat_src M cwd root single default load_ok llm st h = (st', o) ->
    (st' = st /\ o_reply N M o = R422 /\ o_loads N M o = [] /\ o_used N M o = None)
    \/ exists rq, Threads.validate N M (N.to_nat field_min_len) field_max_nat h = Some rq
                  /\ chat_src M cwd root single default load_ok llm st rq = (st', o)
                  /\ r_thread N M rq = h_thread N M h
                  /\ r_messages N M rq = h_messages N M h
                  /\ (forall t, r_thread N M rq = Some t ->
                                (N.to_nat field_min_len <= length t)%nat
                                /\ match field_max_nat with Some m => (length t <= m)%nat | None => True end).
Proof. exact http_layer_now. Qed.
Print Assumptions C20_http_layer.

(* THE commonprefix QUIRK.  The test is character-wise: a sibling directory whose name extends
   the root's name passes it although it is not inside the root ... *)
Theorem C20_commonprefix_quirk :
  exists base full,
    Path.abs_normal N sepN dotN base /\ commonprefixN [full; base] = base
    /\ ~ Path.inside N N.eq_dec sepN dotN base full.
Proof. exact commonprefix_quirk_now. Qed.
Print Assumptions C20_commonprefix_quirk.

(* ... but it is unreachable: an id that passes a reject test firing on separators and on ".."
   (the shipped one does: C20_examples.reject_fires_on_dotdot_shipped) always passes the
   commonprefix test, which therefore never decides anything *)
Theorem C20_prefix_check_unreachable :
  forall cwd root id,
    Path.starts_with_sep N N.eq_dec sepN cwd = true ->
    reject_now [dotN; dotN] = true ->
    reject_now id = false ->
    commonprefixN [normpathN (joinN (abspathN cwd root) id); abspathN cwd root] = abspathN cwd root.
Proof. exact prefix_check_redundant_now. Qed.
Print Assumptions C20_prefix_check_unreachable.
