(* Pipe.PipeRun - concrete executable instances of the pipeline models for the correspondence
   check (harness/c01.py, harness/c02.py): the Section variables are instantiated with the
   scripts the harness drives the real LLMRails with (scripted verdicts per turn and rail,
   scripted LLM completions, the dialog flows of the test configuration).  Nothing here is used
   by the theorems. *)
From Coq Require Import List String Bool Arith.
From NG Require Import Pipe.Rails Pipe.TurnV1 Pipe.TurnV2 Pipe.FlowCheck Gen.C01Flows.
Import ListNotations.
Open Scope string_scope.
Open Scope list_scope.

(* input rail k has id k, output rail k has id 100 + k *)
Record turn_case := mkTC { tc_user : text; tc_iv : list verdict; tc_ov : list verdict; tc_llm : list text;
                           tc_act : text;     (* what the scripted custom action `rag` returns in this turn *)
                           tc_in_on : bool; tc_out_on : bool }.   (* the call's generation options: rails.input / rails.output *)

Definition tc_default := mkTC "" [] [] [] "" true true.

Definition vf_c (turns : list turn_case) (t c : nat) (r : rail) (x : text) : verdict :=
  let tc := nth t turns tc_default in
  if Nat.ltb r 100 then nth r (tc_iv tc) Accept else nth (r - 100) (tc_ov tc) Accept.

Definition llm_c (turns : list turn_case) (t i : nat) (p : prompt) : text :=
  nth i (tc_llm (nth t turns tc_default)) "".

Definition refusal_c := "RFz".
Definition refusal_out_c := "RFOz".
Definition predef_c := "PDz".

Definition intent_step_c (turns : list turn_case) (t : nat) (o : text) : dstep :=
  if String.eqb o "  express greeting" then DBot "express greeting"
  else if String.eqb o "  ask question" then DBot "answer question"
  else if String.eqb o "  ask rag" then DBotVar (tc_act (nth t turns tc_default))
  else DAsk.

Definition next_of_c (o : text) : string :=
  if String.eqb o "bot respond something" then "respond something" else "general response".

Definition predefined_c (bi : string) : option text :=
  if String.eqb bi "express greeting" then Some predef_c
  else if String.eqb bi "refuse to respond" then Some refusal_c else None.

(* `  "TEXT"` -> TEXT *)
Definition msg_of_c (o : text) : text := substring 3 (String.length o - 4) o.
(* `"TEXT"` -> TEXT *)
Definition value_of_c (o : text) : text := substring 1 (String.length o - 2) o.

Definition turn_v1_c (turns : list turn_case) :=
  turn_v1 (vf_c turns) (llm_c turns) (fun o => o) (intent_step_c turns) next_of_c predefined_c msg_of_c refusal_c.

Definition conv_v1_c (turns : list turn_case) (cf : cfg) :=
  conv_v1_opts (vf_c turns) (llm_c turns) (fun o => o) (intent_step_c turns) next_of_c predefined_c msg_of_c refusal_c
          cf init_state (map (fun tc => (mkOpts (tc_in_on tc) (tc_out_on tc), tc_user tc)) turns).

Definition conv_v2_c (fixd : bool) (turns : list turn_case) (cf : cfg2) :=
  conv_v2 fixd (vf_c turns) (llm_c turns) value_of_c refusal_c refusal_out_c cf init_state2 (map tc_user turns).

(* ---- observations, as the harness records them on the implementation ---- *)
Inductive obs :=
| ORail (s : side) (r : rail) (seen : text)
| OLLM (k : lkind) (i : nat) (markers : list string).   (* marker texts found in the prompt *)

Record texp := mkExp {
  e_obs : list obs; e_reply : reply; e_flag : bool;
  e_um : option text; e_bm : option text; e_ti : option rail; e_to : option rail;
  e_utter : list text }.      (* scripts of the StartUtteranceBotAction events the runtime returned (event level) *)

Definition side_eqb (a b : side) : bool := match a, b with SIn, SIn | SOut, SOut => true | _, _ => false end.
Definition lkind_eqb (a b : lkind) : bool :=
  match a, b with
  | KGeneral, KGeneral | KPassthrough, KPassthrough | KIntent, KIntent | KNext, KNext
  | KBotMsg, KBotMsg | KValue, KValue => true
  | _, _ => false
  end.

Definition mem (x : string) (l : list string) : bool := existsb (String.eqb x) l.
Definition subset (a b : list string) : bool := forallb (fun x => mem x b) a.

Definition hentry_text (h : hentry) : text := match h with HUser t => t | HBot t => t end.
Definition prompt_texts (p : prompt) : list text := map hentry_text (p_hist p) ++ [p_user p].

Fixpoint list_eqb {A B} (eqb : A -> B -> bool) (a : list A) (b : list B) : bool :=
  match a, b with
  | [], [] => true
  | x :: a', y :: b' => eqb x y && list_eqb eqb a' b'
  | _, _ => false
  end.

Definition option_eqb {A} (eqb : A -> A -> bool) (a b : option A) : bool :=
  match a, b with None, None => true | Some x, Some y => eqb x y | _, _ => false end.

Definition reply_eqb (a b : reply) : bool :=
  match a, b with
  | RMsg x, RMsg y => list_eqb String.eqb x y
  | RExc s r, RExc s' r' => side_eqb s s' && Nat.eqb r r'
  | _, _ => false
  end.

(* the part of a model trace the harness can observe *)
Definition trace_obs (tr : list tev) : list tev :=
  filter (fun e => match e with TRail _ _ _ | TLLM _ _ => true | _ => false end) tr.

(* a prompt of the implementation agrees with the model's provenance when the marker texts it
   contains are exactly the texts the model lets flow into it; the next-step prompt strips
   message texts (`remove_text_messages`), so there only inclusion is required *)
(* the predefined messages of the configuration are constants: they also reach prompts as
   few-shot examples (bot_message_index), so they are left out of the comparison *)
Definition is_const (t : string) : bool :=
  String.eqb t refusal_c || String.eqb t refusal_out_c || String.eqb t predef_c ||
  String.eqb t "" || String.eqb t "  ".     (* empty / blank texts carry no marker *)
Definition no_consts (l : list string) : list string := filter (fun t => negb (is_const t)) l.

Definition obs_match (m : tev) (o : obs) : bool :=
  match m, o with
  | TRail s r t, ORail s' r' t' => side_eqb s s' && Nat.eqb r r' && String.eqb t t'
  | TLLM i p, OLLM k i' ms =>
    lkind_eqb (p_kind p) k && Nat.eqb i i' && subset (no_consts ms) (prompt_texts p) &&
    (match k with KNext => true | _ => subset (no_consts (prompt_texts p)) ms end)
  | _, _ => false
  end.

Definition check_turn_v1 (r : pstate * list tev * reply) (e : texp) : bool :=
  let '(st, tr, rp) := r in
  list_eqb obs_match (trace_obs tr) (e_obs e) && reply_eqb rp (e_reply e) &&
  Bool.eqb (skip st) (e_flag e) &&
  option_eqb String.eqb (user_message st) (e_um e) && option_eqb String.eqb (bot_message st) (e_bm e) &&
  option_eqb Nat.eqb (trig_in st) (e_ti e) && option_eqb Nat.eqb (trig_out st) (e_to e) &&
  list_eqb String.eqb (emitted tr) (e_utter e).

Definition check_v1 (c : cfg * list turn_case * list texp) : bool :=
  let '(cf, turns, exps) := c in
  list_eqb check_turn_v1 (conv_v1_c turns cf) exps.

(* Colang 1.0 served through the explicit state API: `GenerationResponse.state` holds the events
   of the LAST call only (generate_async stores `events` without the `state_events` it started
   from), so a call sees the history of the previous call and nothing older.  The turn itself is
   the same function; only the state it starts from is cut.  (The theorems hold from every start
   state with the skip flag clear, so they cover this serving mode.)  Context variables older
   than one call are not compared in this mode. *)
Definition set_hist (st : pstate) (h : list hentry) : pstate :=
  mkSt (tidx st) (skip st) (user_message st) (bot_message st) (trig_in st) (trig_out st) h (raw st).

Fixpoint conv_v1_state (turns : list turn_case) (cf : cfg) (st : pstate) (mark : nat) (ts : list turn_case)
  : list (pstate * list tev * reply) :=
  match ts with
  | [] => []
  | tc :: ts' =>
    let st0 := set_hist st (skipn mark (hist st)) in
    let r := turn_v1_opts (vf_c turns) (llm_c turns) (fun o => o) (intent_step_c turns) next_of_c predefined_c
                          msg_of_c refusal_c cf (mkOpts (tc_in_on tc) (tc_out_on tc)) st0 (tc_user tc) in
    r :: conv_v1_state turns cf (fst (fst r)) (List.length (hist st0)) ts'
  end.

Definition check_turn_v1_state (r : pstate * list tev * reply) (e : texp) : bool :=
  let '(st, tr, rp) := r in
  list_eqb obs_match (trace_obs tr) (e_obs e) && reply_eqb rp (e_reply e) &&
  Bool.eqb (skip st) (e_flag e) && list_eqb String.eqb (emitted tr) (e_utter e).

Definition check_v1_state (c : cfg * list turn_case * list texp) : bool :=
  let '(cf, turns, exps) := c in
  list_eqb check_turn_v1_state (conv_v1_state turns cf init_state 0 turns) exps.

Definition check_turn_v2 (r : pstate2 * list tev * reply) (e : texp) : bool :=
  let '(st, tr, rp) := r in
  list_eqb obs_match (trace_obs tr) (e_obs e) && reply_eqb rp (e_reply e) &&
  Bool.eqb (orip st) (e_flag e) &&
  option_eqb String.eqb (um2 st) (e_um e) && option_eqb String.eqb (bm2 st) (e_bm e) &&
  list_eqb String.eqb (emitted tr) (e_utter e).

Definition check_v2_with (fixd : bool) (c : cfg2 * list turn_case * list texp) : bool :=
  let '(cf, turns, exps) := c in
  list_eqb check_turn_v2 (conv_v2_c fixd turns cf) exps.

(* the Colang 2 model that corresponds to the CURRENT guardrails.co: whether `run output rails`
   resets the flag on the failure path is decided by the checker on the translated file *)
Definition current_fixd_run : bool := v2_resets_on_failure v2_run_output_rails.
Definition check_v2 (c : cfg2 * list turn_case * list texp) : bool := check_v2_with current_fixd_run c.

(* sanity: the F3 scenario on the shipped (fix = false) and on the repaired model *)
Definition f3_turns :=
  [mkTC "U0z" [] [Accept] ["""L0z"""] "" true true; mkTC "U1z" [] [Reject] ["""L1z"""] "" true true;
   mkTC "U2z" [] [Accept] ["""L2z"""] "" true true].

Example f3_shipped :
  map (fun r => (n_rail_calls (snd (fst r)), orip (fst (fst r)))) (conv_v2_c false f3_turns (mkCfg2 [] [100] false))
  = [(1, false); (1, true); (0, true)].
Proof. vm_compute. reflexivity. Qed.

Example f3_repaired :
  map (fun r => (n_rail_calls (snd (fst r)), orip (fst (fst r)))) (conv_v2_c true f3_turns (mkCfg2 [] [100] false))
  = [(1, false); (1, false); (1, false)].
Proof. vm_compute. reflexivity. Qed.
