(* C15 - the context-variable model with the entry code AS THE CURRENT SOURCE HAS IT
   (Gen/C15Consts.v::ctx_options_always_set); check_ctx is used by the correspondence. *)
From Coq Require Import List Bool Arith.
From NG Require Import Gen.C15Consts Svc.Ctx.
Import ListNotations.

Definition check_ctx (log : list clog) : bool := check_csteps ctx_options_always_set (cinit nat) log.
