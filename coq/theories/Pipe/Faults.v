(* Pipe/Faults.v - conversations in which any action call may raise (C03).

   One `generate` turn as a small machine whose action call sites - input rail k, output rail k,
   a dialog action, a retrieval action - are answered by an arbitrary script
   (turn, site, occurrence) -> {accept, reject, RAISE}.  Modelled code:
   * actions/action_dispatcher.py::execute_action: a raising action is caught and becomes
     (None, "failed")  (or escapes, if the source re-raises: flag from Gen/C03Consts.v);
   * colang/v1_0/runtime/runtime.py::_process_start_action: status "failed" => the internal-error
     ActionResult (event list from the source: BotIntent, StartUtteranceBotAction <fixed message>,
     hide_prev_turn); an action result under a result key becomes a ContextUpdate ONLY IF it differs
     from compute_context(events);
   * colang/v1_0/runtime/flows.py::compute_next_steps: `hide_prev_turn` removes everything since the
     last UtteranceUserActionFinished from the history the flows (and their context) are computed
     from; compute_context (the actions' view) either folds over all events (the code as shipped) or
     over the same truncated history (flag from the source);
   * llm_flows.co pipeline with rails of the self-check shape (`if not $allowed` => refuse, stop);
   * colang/v2_x/runtime/runtime.py: failed => return value None; guardrails.co `_bot_say` /
     `run output rails` with the global $output_rails_in_progress, rails `if not $allowed: bot refuse
     to respond; abort`; an utterance of None kills the interpreter state (observed, see DESIGN C03).
   LLM provider failures are not modelled (excluded by the property). *)
From Coq Require Import String List Bool Arith.
From NG Require Import Gen.C03Consts.
Import ListNotations.
Open Scope string_scope.
Open Scope list_scope.

Inductive site := SIn (k : nat) | SOut (k : nat) | SDialog | SRet.
Inductive outcome := OAccept | OReject | ORaise.
(* turn -> site -> occurrence of that site within the turn -> what the action does *)
Definition script := nat -> site -> nat -> outcome.

(* ---------- dispatcher ---------- *)
Inductive dres := DValue (v : bool) | DFailed (status : string) | DEscapes.

Definition execute_action (reraises : bool) (o : outcome) : dres :=
  match o with
  | OAccept => DValue true
  | OReject => DValue false
  | ORaise => if reraises then DEscapes else DFailed dispatch_failed_status
  end.

(* what the runtime makes of it *)
Inductive ares :=
| AValue (v : option bool)      (* return value; None = Python None *)
| AInternalError                (* the internal-error ActionResult *)
| AEscapes.

Definition runtime_result (status_test : string) (d : dres) : ares :=
  match d with
  | DValue v => AValue (Some v)
  | DFailed st => if String.eqb st status_test then AInternalError else AValue None
  | DEscapes => AEscapes
  end.

(* the events of the v1 internal-error result, as read from the source *)
Definition ie_has_hide : bool := existsb (fun e => String.eqb (fst e) "hide_prev_turn") v1_internal_error_events.
Definition ie_utterances : list string :=
  flat_map (fun e => if String.eqb (fst e) "StartUtteranceBotAction"
                     then [if String.eqb (snd e) "$message" then v1_internal_error_message else snd e]
                     else []) v1_internal_error_events.
(* after hide_prev_turn the BotIntent of the result is never seen by a flow; without it the
   result would be processed like an ordinary bot intent (not modelled: distinguished outcome) *)

(* ---------- Colang 1.0 ---------- *)
(* the events of the history that matter for the gates *)
Inductive hev :=
| HUser                       (* UtteranceUserActionFinished *)
| HAllowed (v : option bool)  (* ContextUpdate {allowed: v} *)
| HSkip (b : bool)            (* ContextUpdate {skip_output_rails: b} *)
| HHide                       (* hide_prev_turn *)
| HOther.

(* compute_next_steps: on hide_prev_turn drop everything since the last user utterance (inclusive).
   `acc` is the actual history REVERSED.  None = the `assert` of the loop fails. *)
Fixpoint drop_turn (acc : list hev) : option (list hev) :=
  match acc with
  | [] => None
  | HUser :: r => Some r
  | _ :: r => drop_turn r
  end.

Fixpoint actual_rev (h : list hev) (acc : list hev) : option (list hev) :=
  match h with
  | [] => Some acc
  | HHide :: r => match drop_turn acc with Some acc' => actual_rev r acc' | None => None end
  | e :: r => actual_rev r (e :: acc)
  end.

Record ctx := mkCtx { c_allowed : option bool; c_skip : bool }.
Definition ctx0 := mkCtx None false.

(* fold of ContextUpdate events, oldest first; `l` is given newest first *)
Fixpoint ctx_of_rev (l : list hev) : ctx :=
  match l with
  | [] => ctx0
  | HAllowed v :: r => let c := ctx_of_rev r in
                       mkCtx v (c_skip c)
  | HSkip b :: r => let c := ctx_of_rev r in mkCtx (c_allowed c) b
  | _ :: r => ctx_of_rev r
  end.
(* NB: newest first => the head wins only if no newer update of the same key exists; the
   definition above takes the head's value for its key and older values for the other key. *)

(* the history is kept newest first (`rh`) *)
Definition flow_ctx (rh : list hev) : option ctx := option_map ctx_of_rev (actual_rev (rev rh) []).
Definition action_ctx (honours : bool) (rh : list hev) : option ctx :=
  if honours then flow_ctx rh else Some (ctx_of_rev rh).

Record vcfg := mkV { n_in : nat; n_out : nat; has_ret : bool }.

Inductive tres :=
| TReply (utterances : list string)
| TEscapes          (* generate raises *)
| TUnmodelled.      (* a path the model does not cover (assert of hide_prev_turn, refusal re-checked,
                       internal-error result without hide_prev_turn) - excluded by the theorems *)

Record tstate := mkT { t_rh : list hev; t_calls : list (site * option string); t_llm : nat; t_ret_occ : nat }.

Definition opt_bool_eqb (a b : option bool) : bool :=
  match a, b with Some x, Some y => Bool.eqb x y | None, None => true | _, _ => false end.

Section V1.
  Variables (reraises honours : bool).
  Variable (sc : script).
  Variables (user_text llm_text : nat -> string) (refusal : string).
  Variable (cfg : vcfg).
  Variable (t : nat).   (* index of the turn *)

  Definition push (e : hev) (s : tstate) : tstate := mkT (e :: t_rh s) (t_calls s) (t_llm s) (t_ret_occ s).

  (* ContextUpdate of an action result / action context update: only when it changes the
     context compute_context(events) shows *)
  Definition emit_allowed (v : option bool) (s : tstate) : option tstate :=
    match action_ctx honours (t_rh s) with
    | None => None
    | Some c => Some (if v1_context_update_only_on_change && opt_bool_eqb (c_allowed c) v then s else push (HAllowed v) s)
    end.
  Definition emit_skip (b : bool) (s : tstate) : option tstate :=
    match action_ctx honours (t_rh s) with
    | None => None
    | Some c => Some (if v1_context_update_only_on_change && Bool.eqb (c_skip c) b then s else push (HSkip b) s)
    end.

  Inductive step_res := Continue (v : option bool) (s : tstate) | Finished (r : tres) (s : tstate).

  (* one `execute` of a custom action; `keyed` = its result is stored in $allowed *)
  Definition call_action (st : site) (occ : nat) (text : option string) (keyed : bool) (s : tstate) : step_res :=
    let s := mkT (t_rh s) (t_calls s ++ [(st, text)]) (t_llm s) (t_ret_occ s) in
    match runtime_result v1_failed_status_test (execute_action reraises (sc t st occ)) with
    | AEscapes => Finished TEscapes s
    | AValue v =>
      if keyed then match emit_allowed v s with Some s' => Continue v (push HOther s') | None => Finished TUnmodelled s end
      else Continue v (push HOther s)
    | AInternalError =>
      let s1 := if keyed then emit_allowed None s else Some s in
      match s1 with
      | None => Finished TUnmodelled s
      | Some s1 =>
        if ie_has_hide then Finished (TReply ie_utterances) (push HHide (push HOther s1))
        else Finished TUnmodelled s1
      end
    end.

  (* `if not $allowed` as the FLOW evaluates it: on the context of the truncated history *)
  Definition flow_allows (s : tstate) : option bool :=
    match flow_ctx (t_rh s) with
    | Some c => Some (match c_allowed c with Some true => true | _ => false end)
    | None => None
    end.

  (* retrieval rail inside `generate bot message` *)
  Definition retrieval (s : tstate) : step_res :=
    if has_ret cfg then
      match call_action SRet (t_ret_occ s) None false s with
      | Continue v s' => Continue v (mkT (t_rh s') (t_calls s') (t_llm s') (S (t_ret_occ s')))
      | f => f
      end
    else Continue None s.

  (* `bot refuse to respond` (+ stop): generate bot message with the predefined text, which sets
     $skip_output_rails; `process bot message` then resets it and utters *)
  Definition refuse (s : tstate) : tres * tstate :=
    match retrieval s with
    | Finished r s' => (r, s')
    | Continue _ s1 =>
      match emit_skip true s1 with
      | None => (TUnmodelled, s1)
      | Some s2 =>
        match flow_ctx (t_rh s2) with
        | Some c => if c_skip c then (TReply [refusal], push (HSkip false) s2)
                    else (TUnmodelled, s2)       (* the refusal would go through the output rails *)
        | None => (TUnmodelled, s2)
        end
      end
    end.

  Fixpoint run_rails (mk : nat -> site) (k n : nat) (text : string) (s : tstate)
           (cont : tstate -> tres * tstate) : tres * tstate :=
    match n with
    | O => cont s
    | S n' =>
      match call_action (mk k) 0 (Some text) true s with
      | Finished r s' => (r, s')
      | Continue _ s' =>
        match flow_allows s' with
        | None => (TUnmodelled, s')
        | Some true => run_rails mk (S k) n' text s' cont
        | Some false => refuse s'
        end
      end
    end.

  Definition process_bot_message (text : string) (s : tstate) : tres * tstate :=
    match flow_ctx (t_rh s) with
    | None => (TUnmodelled, s)
    | Some c =>
      if c_skip c then (TReply [text], push (HSkip false) s)
      else run_rails SOut 0 (n_out cfg) text s (fun s' => (TReply [text], s'))
    end.

  Definition add_llm (s : tstate) : tstate := mkT (t_rh s) (t_calls s) (S (t_llm s)) (t_ret_occ s).

  Definition dialog (s : tstate) : tres * tstate :=
    let s := add_llm s in                                    (* generate_user_intent *)
    match call_action SDialog 0 None false s with            (* $info = execute dialog_action *)
    | Finished r s' => (r, s')
    | Continue _ s1 =>
      match retrieval s1 with                                (* generate bot message *)
      | Finished r s' => (r, s')
      | Continue _ s2 => process_bot_message (llm_text t) (add_llm s2)
      end
    end.

  Definition turn_v1 (rh : list hev) : tres * tstate :=
    let s := mkT (HUser :: rh) [] 0 0 in
    run_rails SIn 0 (n_in cfg) (user_text t) s dialog.
End V1.

Record obs := mkObs { o_res : tres; o_calls : list (site * option string); o_llm : nat }.

(* a conversation of n turns on one instance *)
Fixpoint conv_v1 (reraises honours : bool) (sc : script) (user_text llm_text : nat -> string) (refusal : string)
         (cfg : vcfg) (t n : nat) (rh : list hev) : list obs * list hev :=
  match n with
  | O => ([], rh)
  | S n' =>
    let '(r, s) := turn_v1 reraises honours sc user_text llm_text refusal cfg t rh in
    match r with
    | TReply _ =>
      let '(os, rh') := conv_v1 reraises honours sc user_text llm_text refusal cfg (S t) n' (t_rh s) in
      (mkObs r (t_calls s) (t_llm s) :: os, rh')
    | _ => ([mkObs r (t_calls s) (t_llm s)], t_rh s)
    end
  end.

(* ---------- Colang 2.x ---------- *)
Record v2state := mkS2 { oip : bool; dead : bool }.   (* $output_rails_in_progress; interpreter state lost *)

Section V2.
  Variables (reraises reset_on_failure contained : bool).
  Variable (sc : script).
  Variables (user_text llm_text : nat -> string) (refusal : string).
  Variable (cfg : vcfg).
  Variable (t : nat).

  Definition v2_value (st : site) (occ : nat) : option (option bool) :=     (* None = the exception escapes *)
    match runtime_result v2_failed_status_test (execute_action reraises (sc t st occ)) with
    | AEscapes => None
    | AValue v => Some v
    | AInternalError => Some None          (* the ActionResult's return value: None; its events are dropped *)
    end.

  Definition allows (v : option bool) : bool := match v with Some true => true | _ => false end.

  (* rails k..k+n-1 on `text`; result: Some true = all passed, Some false = one refused, None = escapes *)
  Fixpoint rails2 (mk : nat -> site) (k n : nat) (text : option string) (calls : list (site * option string))
    : option bool * list (site * option string) :=
    match n with
    | O => (Some true, calls)
    | S n' =>
      let calls := calls ++ [(mk k, text)] in
      match v2_value (mk k) 0 with
      | None => (None, calls)
      | Some v => if allows v then rails2 mk (S k) n' text calls else (Some false, calls)
      end
    end.

  (* `_bot_say $text` *)
  Definition say (text : option string) (st : v2state) (calls : list (site * option string))
    : tres * v2state * list (site * option string) :=
    let utter (st : v2state) calls :=
        match text with
        | Some s => (TReply [s], st, calls)
        | None => (TReply [], mkS2 (oip st) (negb contained), calls)
          (* StartUtteranceBotAction(script=None) is invalid: the flow fails (nothing is uttered); if the
             error is not contained to the flow it escapes run_to_completion and the state is lost *)
        end in
    if oip st then utter st calls
    else
      match rails2 SOut 0 (n_out cfg) text calls with
      | (None, calls) => (TEscapes, st, calls)
      | (Some true, calls) => utter (mkS2 false (dead st)) calls
      | (Some false, calls) =>
        (* the rail says `bot refuse to respond` (uttered directly: rails in progress) and aborts *)
        (TReply [refusal], mkS2 (negb reset_on_failure) (dead st), calls)
      end.

  Definition turn_v2 (st : v2state) : tres * v2state * list (site * option string) :=
    if dead st then (TReply [], st, [])
    else
      match rails2 SIn 0 (n_in cfg) (Some (user_text t)) [] with
      | (None, calls) => (TEscapes, st, calls)
      | (Some false, calls) => say (Some refusal) st calls
      | (Some true, calls) =>
        let calls := if has_ret cfg then calls ++ [(SRet, None)] else calls in
        match (if has_ret cfg then v2_value SRet 0 else Some None) with
        | None => (TEscapes, st, calls)
        | Some _ =>
          let calls := calls ++ [(SDialog, None)] in
          match sc t SDialog 0 with
          | ORaise => if reraises then (TEscapes, st, calls) else say None st calls
          | _ => say (Some (llm_text t)) st calls
          end
        end
      end.
End V2.

Fixpoint conv_v2 (reraises reset contained : bool) (sc : script) (user_text llm_text : nat -> string) (refusal : string)
         (cfg : vcfg) (t n : nat) (st : v2state) : list obs * v2state :=
  match n with
  | O => ([], st)
  | S n' =>
    let '(r, st', calls) := turn_v2 reraises reset contained sc user_text llm_text refusal cfg t st in
    match r with
    | TReply _ =>
      let '(os, st'') := conv_v2 reraises reset contained sc user_text llm_text refusal cfg (S t) n' st' in
      (mkObs r calls 0 :: os, st'')
    | _ => ([mkObs r calls 0], st')
    end
  end.

(* ---------- the model instantiated with what the current source says ---------- *)
(* `ORaise` stands for ANY exception object.  The dispatcher step "(None, failed)" holds for all of
   them only if the handler does not evaluate the exception (an exception whose __str__ raises,
   formatted eagerly, escapes): if the source formats it eagerly, SOME raise escapes - the
   instance below then (conservatively) lets every raise escape, and the theorems stop checking. *)
Definition escapes_now : bool := dispatch_reraises || negb dispatch_handler_lazy.
Definition turn_v1_now := turn_v1 escapes_now v1_context_honours_hide.
Definition conv_v1_now := conv_v1 escapes_now v1_context_honours_hide.
Definition turn_v2_now := turn_v2 escapes_now v2_flag_reset_on_failure v2_action_event_errors_contained.
Definition conv_v2_now := conv_v2 escapes_now v2_flag_reset_on_failure v2_action_event_errors_contained.

(* ---------- sanity ---------- *)
Definition ex_cfg := mkV 2 2 true.
Definition ex_user (t : nat) := "user".
Definition ex_llm (t : nat) := "LLM".
