"""C17 - Arbitrary LLM output never breaks a turn and is treated as data.

Model: coq/theories/Svc/TextPost.v (text post-processing helpers, the multi-step shrink loop,
_process_start_flow, the AddFlowsAction fallback, literal_eval-only value generation);
Pipe/Taint.v (taint discipline of one turn); theorems: Props/C17.v.
Ties: (T) Gen/C17Consts.v - prefixes / quote characters / fallbacks read from the current source
with Python's ast; (X1) differential of every modelled helper against the real function on a
hostile corpus + mutations, model evaluated inside Coq; (X2) END-TO-END direct oracle (the
property text): hostile output at every LLM call position of <=3-turn conversations driving the
real LLMRails.generate in passthrough / general / three-step dialog / single-call / multi-step
(Colang 1.0) and the Colang 2 LLM flows (intent detection, flow continuation, value generation).
Every end-to-end batch runs in a child process under `timeout` (a hang is a violation).
"""
from __future__ import annotations

import json
import os
import random
import sys
import time

from harness import common as C

PID = "C17"
GEN = ["C17Consts"]
CFG_ROOT = os.path.join(C.BUILD, "c17", "cfg")
WORK = os.path.join(C.BUILD, "c17", "work")

# context variables set for every conversation; their VALUES must never show up in a reply
CTX = {"secret": "S3CR3TVAL", "x": "XVALUE77", "user_name": "UNAMEVAL"}
FORBIDDEN = ["S3CR3TVAL", "XVALUE77", "UNAMEVAL", "1337"]          # 1337 = 7*191
MARKERS = ["{{ 7*191 }}", "$secret", "{$x}", "{{ secret }}", "{{user_name}}", "${secret}", "{% if 1 %}Y{% endif %}"]

# ---------------------------------------------------------------------------------------
# configurations (written to build/c17/cfg/<mode>/ on every run)

_CONFIG_PY = """import sys
sys.path.insert(0, %r)
from harness.c17 import register_provider


def init(app):
    register_provider(app)
""" % C.VERIF

_YML_HEAD = """models:
  - type: main
    engine: openai
    model: gpt-3.5-turbo-instruct
core:
  embedding_search_provider:
    name: verif
knowledge_base:
  embedding_search_provider:
    name: verif
"""

_V1_DIALOG_CO = """define user express greeting
  "hello"
  "hi"

define user ask capabilities
  "what can you do"

define user ask price
  "how much is it"

define bot express greeting
  "Hey there!"

define flow greeting
  user express greeting
  bot express greeting

define flow capabilities
  user ask capabilities
  bot inform capabilities

define flow price
  user ask price
  bot inform price
  bot ask anything else
"""

_V2_HEAD = """colang_version: "2.x"
""" + _YML_HEAD

_V2_LLM_CO = '''import core
import llm

flow main
  activate llm continuation
  activate greeting
  activate other reactions

flow greeting
  user expressed greeting
  bot say "Hello world!"

flow other reactions
  user expressed to be bored
  bot say "No problem!"

flow user expressed greeting
  """User expressed greeting in any way or form."""
  user said "hi"

flow user expressed to be bored
  """User expressed to be bored."""
  user said "This is boring"

flow bot inform capabilities
  bot say "I can talk."
'''

_V2_VALUE_CO = '''import core
import llm

flow main
  global $secret
  global $x
  $secret = "S3CR3TVAL"
  $x = "XVALUE77"
  activate answering

flow answering
  user said something
  $v = ..."Return a single string that answers the user"
  bot say $v
'''

_V2_SAYLIKE_CO = '''import core
import llm

flow main
  global $secret
  global $x
  $secret = "S3CR3TVAL"
  $x = "XVALUE77"
  activate answering

flow answering
  user said something
  bot say something like "Hello there"
'''

_V2_PASS_CO = '''import core
import llm

flow main
  global $secret
  global $x
  $secret = "S3CR3TVAL"
  $x = "XVALUE77"
  activate answering

flow answering
  user said something as $u
  $t = await PassthroughLLMAction(user_message=$u.transcript)
  bot say $t
'''

MODES = {
    "v1_general": {"yml": _YML_HEAD, "co": None, "v": 1},
    "v1_passthrough": {"yml": _YML_HEAD + "passthrough: true\n", "co": None, "v": 1},
    "v1_dialog": {"yml": _YML_HEAD, "co": _V1_DIALOG_CO, "v": 1},
    "v1_single_call": {"yml": _YML_HEAD + "rails:\n  dialog:\n    single_call:\n      enabled: true\n", "co": _V1_DIALOG_CO, "v": 1},
    "v1_multi_step": {"yml": _YML_HEAD + "enable_multi_step_generation: true\n", "co": _V1_DIALOG_CO, "v": 1},
    "v2_llm": {"yml": _V2_HEAD, "co": _V2_LLM_CO, "v": 2},
    "v2_value": {"yml": _V2_HEAD, "co": _V2_VALUE_CO, "v": 2},
    "v2_saylike": {"yml": _V2_HEAD, "co": _V2_SAYLIKE_CO, "v": 2},
    "v2_passthrough": {"yml": _V2_HEAD, "co": _V2_PASS_CO, "v": 2},
}
# user turns per mode (<= 3 turns): chosen so that every LLM call kind of the mode is reached
TURNS = {
    "v1_general": ["hi", "tell me more", "bye"],
    "v1_passthrough": ["hi", "tell me more", "bye"],
    "v1_dialog": ["hi", "what is the weather", "how much is it"],
    "v1_single_call": ["hi", "what is the weather", "how much is it"],
    "v1_multi_step": ["hi", "what is the weather", "how much is it"],
    "v2_llm": ["hello there", "tell me a joke", "hi"],
    "v2_value": ["hi", "and now", "more"],
    "v2_saylike": ["hi", "and now"],
    "v2_passthrough": ["hi", "and now"],
}


def write_cfgs():
    for name, m in MODES.items():
        d = os.path.join(CFG_ROOT, name)
        os.makedirs(d, exist_ok=True)
        files = {"config.yml": m["yml"], "config.py": _CONFIG_PY}
        if m["co"]:
            files["rails.co"] = m["co"]
        for fn, text in files.items():
            p = os.path.join(d, fn)
            if not os.path.exists(p) or open(p).read() != text:
                with open(p, "w") as f:
                    f.write(text)


# ---------------------------------------------------------------------------------------
# offline embedding-search provider (registered through the configuration's config.py)

_INDEX_CLS = None


def _index_cls():
    global _INDEX_CLS
    if _INDEX_CLS is not None:
        return _INDEX_CLS
    import re

    from nemoguardrails.embeddings.index import EmbeddingsIndex

    def tok(s):
        return set(re.findall(r"[a-z0-9]+", (s or "").lower()))

    class VerifIndex(EmbeddingsIndex):
        """Deterministic token-overlap ranking; no model, no network."""

        def __init__(self, **kwargs):
            self.items = []

        @property
        def embedding_size(self):
            return 0

        @property
        def cache_config(self):
            return None

        async def add_item(self, item):
            self.items.append(item)

        async def add_items(self, items):
            self.items.extend(items)

        async def build(self):
            pass

        async def search(self, text, max_results=20, threshold=None):
            q = tok(text if isinstance(text, str) else str(text))
            scored = []
            for i, it in enumerate(self.items):
                t = tok(it.text)
                s = (2 if it.text == text else 0) + (len(q & t) / (1 + len(q | t)))
                scored.append((-s, i, it))
            scored.sort(key=lambda x: (x[0], x[1]))
            return [it for _, _, it in scored[:max_results]]

    _INDEX_CLS = VerifIndex
    return VerifIndex


def register_provider(app):
    app.register_embedding_search_provider("verif", _index_cls())


# ---------------------------------------------------------------------------------------
# scripted LLM: well-formed answer for every call kind, hostile text substituted at chosen
# call indices (or at every call with the given texts)


def classify_prompt(prompt: str, mode: str) -> str:
    p = prompt if isinstance(prompt, str) else json.dumps(prompt)
    tail = p.rstrip()[-200:]
    if "generate the next steps and finish with the bot message" in p:
        return "single_call"
    if "# This is how the user talks:" in p:
        return "user_intent"
    if "# This is how the bot thinks:" in p and tail.endswith("="):
        return "value"
    if "# This is how the bot thinks:" in p:
        return "next_steps"
    if "# This is how the bot talks:" in p:
        return "bot_message"
    if tail.endswith("user intent:"):
        return "v2_user_intent"
    if tail.endswith("bot intent:"):
        return "v2_flow_continuation"
    if "# Complete the following flow based on its name:" in p:
        return "v2_flow_from_name"
    if "# Complete the following flow based on its instruction:" in p:
        return "v2_flow_from_instructions"
    if tail.endswith("="):
        return "v2_value"
    if tail.endswith("Assistant:"):
        return "general"
    return "passthrough" if "passthrough" in mode else "other"


GOOD = {
    "general": "Sure, happy to help.",
    "passthrough": "Sure, happy to help.",
    "other": "Sure, happy to help.",
    "user_intent": "  ask something else",
    "next_steps": "bot provide help",
    "bot_message": '  "Here is some help."',
    "single_call": '  ask something else\nbot provide help\n  "Here is some help."',
    "value": '"some value"',
    "v2_user_intent": "user asked something else",
    "v2_flow_continuation": 'bot provide help\nbot action: bot say "Here is some help."',
    "v2_flow_from_name": '  bot say "Here is some help."',
    "v2_flow_from_instructions": '  bot say "Here is some help."',
    "v2_value": '"Here is some help."',
}


_INTENT_OF = {"hi": "express greeting", "hello there": "express greeting", "how much is it": "ask price",
              "what can you do": "ask capabilities"}


def good_answer(kind, prompt):
    """A well-formed completion for the call kind (what a cooperative LLM would return)."""
    if kind in ("user_intent", "single_call", "v2_user_intent"):
        p = prompt if isinstance(prompt, str) else json.dumps(prompt)
        import re

        said = re.findall(r'user (?:said |action: user said )?"([^"\n]*)"', p)
        intent = _INTENT_OF.get(said[-1]) if said else None
        if intent:
            if kind == "user_intent":
                return "  " + intent
            if kind == "v2_user_intent":
                return "user " + intent.replace("express", "expressed").replace("ask", "asked about")
            flow = {"express greeting": 'bot express greeting\n  "Hey there!"',
                    "ask price": 'bot inform price\n  "It is free."',
                    "ask capabilities": 'bot inform capabilities\n  "I can talk."'}[intent]
            return "  " + intent + "\n" + flow
    return GOOD.get(kind, GOOD["other"])


def _mk_llm(mode, subst, every):
    from typing import Any, List, Mapping, Optional

    from langchain_core.language_models.llms import LLM

    class ScriptLLM(LLM):
        mode_name: str = ""
        subst: dict = {}
        every: list = []
        calls: list = []
        i: int = 0

        @property
        def _llm_type(self) -> str:
            return "verif-script"

        def _answer(self, prompt):
            kind = classify_prompt(prompt, self.mode_name)
            k = self.i
            self.i += 1
            if str(k) in self.subst:
                text = self.subst[str(k)]
                hostile = True
            elif self.every:
                text = self.every[k % len(self.every)]
                hostile = True
            else:
                text = good_answer(kind, prompt)
                hostile = False
            self.calls.append({"i": k, "kind": kind, "hostile": hostile, "text": text if hostile else None})
            return text

        def _call(self, prompt: str, stop: Optional[List[str]] = None, run_manager=None, **kwargs: Any) -> str:
            return self._answer(prompt)

        async def _acall(self, prompt: str, stop: Optional[List[str]] = None, run_manager=None, **kwargs: Any) -> str:
            return self._answer(prompt)

        @property
        def _identifying_params(self) -> Mapping[str, Any]:
            return {}

    return ScriptLLM(mode_name=mode, subst=dict(subst or {}), every=list(every or []), calls=[])


def _raiser(tb):
    """(exception type, innermost nemoguardrails function, file:line) of a traceback."""
    import traceback

    frames = traceback.extract_tb(tb)
    ours = [f for f in frames if "nemoguardrails" in f.filename]
    f = ours[-1] if ours else frames[-1]
    return f.name, os.path.basename(f.filename) + ":" + str(f.lineno)


def well_formed(mode, r):
    if not isinstance(r, dict):
        return "reply is not a dict: %r" % (type(r).__name__,)
    role = r.get("role")
    if role == "assistant":
        if not isinstance(r.get("content"), str):
            return "assistant content is not a str: %r" % (type(r.get("content")).__name__,)
        return None
    if role == "exception":
        c = r.get("content")
        if isinstance(c, dict) and isinstance(c.get("type"), str) and c["type"].endswith("Exception"):
            return None
        return "malformed exception message"
    return "role is %r" % (role,)


def run_conversation(case, cfg_cache):
    """Drive the real LLMRails.generate.  case = {mode, turns, subst:{idx:text}, every:[texts]}.
    Returns a JSON-able result with the replies, the LLM calls made and any oracle failure."""
    from nemoguardrails import LLMRails, RailsConfig

    mode = case["mode"]
    if mode not in cfg_cache:
        cfg_cache[mode] = RailsConfig.from_path(os.path.join(CFG_ROOT, mode))
    config = cfg_cache[mode]
    llm = _mk_llm(mode, case.get("subst"), case.get("every"))
    res = {"replies": [], "calls": llm.calls, "fail": None}
    try:
        app = LLMRails(config, llm=llm)
    except BaseException as e:  # construction is not part of the property, but must not fail
        res["fail"] = {"kind": "init-raised", "exc": type(e).__name__, "msg": str(e)[:300]}
        return res
    v2 = MODES[mode]["v"] == 2
    # (a context message in passthrough mode is forwarded to the LLM as a chat message of unknown type)
    history = [] if (v2 or mode == "v1_passthrough") else [{"role": "context", "content": dict(CTX)}]
    state = {} if v2 else None
    for t, msg in enumerate(case["turns"]):
        history.append({"role": "user", "content": msg})
        try:
            if v2:
                out = app.generate(messages=[{"role": "user", "content": msg}], state=state)
                state = out.state
                r = out.response[0] if isinstance(out.response, list) and out.response else out.response
            else:
                r = app.generate(messages=history)
        except BaseException as e:
            fn, where = _raiser(e.__traceback__)
            res["fail"] = {"kind": "raised", "turn": t, "exc": type(e).__name__, "fn": fn, "where": where,
                           "msg": str(e)[:300]}
            return res
        wf = well_formed(mode, r)
        res["replies"].append(r if wf is None else repr(r)[:500])
        if wf is not None:
            res["fail"] = {"kind": "malformed", "turn": t, "why": wf}
            return res
        content = r.get("content")
        text = content if isinstance(content, str) else json.dumps(content, default=str)
        for bad in FORBIDDEN:
            if bad in text:
                res["fail"] = {"kind": "evaluated", "turn": t, "found": bad, "reply": text[:300]}
                return res
        history.append(r)
    return res


def e2e_worker(inp, outp):
    sys.path.insert(1, C.REPO)
    import logging
    import threading

    logging.disable(logging.CRITICAL)
    cases = json.load(open(inp))
    cache = {}
    results = []
    cur = {"i": -1, "t": time.time()}

    def save_progress():
        tmp = outp + ".progress.tmp"
        with open(tmp, "w") as f:
            json.dump({"current": cur["i"], "done": results}, f)
        os.replace(tmp, outp + ".progress")

    def watchdog():
        # a case that does not come back within CASE_TIMEOUT is a hang: the process is killed
        # (an in-process exception would be swallowed by the interpreter's `except Exception`)
        while True:
            time.sleep(1)
            if cur["i"] >= 0 and time.time() - cur["t"] > CASE_TIMEOUT:
                os._exit(3)

    # the imports happen before the clock of the first case starts
    from nemoguardrails import LLMRails, RailsConfig  # noqa: F401

    threading.Thread(target=watchdog, daemon=True).start()
    for i, case in enumerate(cases):
        cur["i"], cur["t"] = i, time.time()
        save_progress()
        r = run_conversation(case, cache)
        r["s"] = round(time.time() - cur["t"], 3)
        results.append(r)
    cur["i"] = -1
    with open(outp, "w") as f:
        json.dump(results, f)


# ---------------------------------------------------------------------------------------
# hostile corpus

LONG = 30000


def hostile_corpus():
    """(tag, text) - the fixed hostile corpus of the property statement."""
    c = []

    def add(tag, *texts):
        for t in texts:
            c.append((tag, t))

    add("empty", "", " ", "\n", "\n\n\n", "   \n\t\n  ", "\t", "\r\n", "\r")
    add("quotes", '"', '""', '"""', "'", "''", '"\n', '\n"', '" "', '"a', 'a"', "`", "“x”", '"\n"', '  "', '""""')
    add("prefix", "user ", "user", "bot ", "bot", "bot\n", 'bot "', "bot ,", 'bot "hello"', "bot ,x", "  bot x", "User:", "User: hi",
        "Bot message: ", "Bot intent: ", "User intent: ", "user intent: ", "bot intent: ", "bot action: ", "user action: ",
        "User message: ", "bot:", "Bot: hi", "USER x", "BOT x", "user\tx", "bot\tx", "assistant: hi", "user intent:", "bot intent:",
        "user intent: user x\nbot intent: bot y", "bot intent: bot y\nbot action: ", "bot action:\n  and x", "bot action: x\n  or y",
        'user "hi"\n  express greeting\nbot express greeting\n  "Hey"')
    add("ctxvar", "bot $secret", "bot $event", "bot $x", "bot $generation_options", "bot $", "bot $$", "bot $last_user_message",
        "bot $relevant_chunks_sep", "  $secret", "user $secret")
    add("colang1", "define flow x\n  user a\n  bot b", 'define user x\n  "y"', 'define bot x\n  "{{ 7*191 }}"', "define flow", "define",
        "execute foo", "do foo", "bot a\nexecute foo\nbot b", "if $x\n  bot a", "if $x", "while True\n  bot a", "else", "when x", "stop", "abort",
        "...", "$x = 1", "$x = ...", "bot a\nbot b\n!!!", 'bot a\n  "unterminated', "bot a and b", "goto x", "label x", "meta", "bot a\n\n\nbot b",
        "bot a\n    bot b", "\tbot a", "bot a\n  bot b\n bot c", "bot a\nuser b\nbot c", "bot a\nuser ...\nbot c", "event Foo",
        "bot a\n$y = execute foo(x=$secret)", "bot a\nbot $secret", "set $x = 1", "break", "continue", "return", "pass", "any", "bot a\nelse\nbot b",
        "bot a\ndefine flow y\n  bot z", "bot a\n# comment", "#", "# only comment", "bot a:", 'bot a\n  "x"\n  "y"', "user a\nbot b",
        "define subflow x\n  bot a", "bot a\ndo x", "bot a\nstop", 'bot "quoted intent"', "bot a, b", 'bot a"b', "bot (a)", "bot a-b", "bot 1", "bot a\\nb")
    add("colang2", 'flow main\n  bot say "x"', "import core", "@active\nflow x\n  bot say 'x'", "await UtteranceBotAction(script=$secret)", "bot say $secret",
        'bot say "{$x}"', 'send FinishFlow(flow_id="main")', "user said something", "bot action: bot say $secret", 'bot action: bot say "{$x}"',
        "bot action: abort", 'bot action: send StopFlow(flow_id="main")', "bot action: while True\n  and x", "bot action: $y = 1/0", "bot action: (",
        "bot action: await nonexistent flow", "bot action: match Never()", "bot action: start main", 'bot intent: main\nbot action: bot say "x"',
        'bot intent: bot say\nbot action: bot say "x"', "user intent: main", "user intent: user said", "main", "user said", "bot say",
        "user intent: ", 'user x" and "y', "user a and b or c as d (e) - 12", "  flow x", "flow", "flow ", "flow x\nflow y", "  ...", "  await x\n  ...",
        '  user said "x"', 'bot action: bot say "a"\nbot action: bot say "b"', '```\nbot say "x"\n```', '  bot say "x"\nflow other\n  bot say "y"',
        '  $z = ..."nested"\n  bot say $z', "  activate main", '  send StartFlow(flow_id="main")', "  log 1\n" * 50, '  bot say "a"\n' * 30)
    add("template", "{{ 7*191 }}", "{{ secret }}", "{% for i in range(10) %}x{% endfor %}", "{{ ''.__class__.__mro__ }}", "{%", "{{", "}}", "{# #}", "$secret",
        "${secret}", "{$x}", "{$secret}", "$", "{", "}", "$ ", "{{ 7*191", "7*191 }}", "{{secret}}", "{{ x }}", "$x", "$x.y", "$x[0]", "{{ user_name }}",
        "{% raw %}", "{% include 'x' %}", "{{ 1/0 }}", "{{ undefined_thing.y }}", "<<STREAMING[x]>>", 'Bot message: "<<STREAMING[abc]>>"',
        '"Result {{ 7*191 }} and $secret and {$x} and {{ secret }}."', '  "Result {{ 7*191 }} and $secret and {$x} and {{ secret }}."',
        "Result {{ 7*191 }} and $secret and {$x} and {{ secret }}.", "'Result {{ 7*191 }} and $secret and {$x} and {{ secret }}.'",
        'bot inform\n  "Result {{ 7*191 }} and $secret and {$x}."', '  ask x\nbot inform y\n  "Result {{ 7*191 }} and $secret and {$x}."',
        'bot action: bot say "Result {{ 7*191 }} and $secret."', "\\n", "a\\nb", "\\", "\\\\n", "%s %d", "{0} {}", "%(secret)s")
    add("control", "\x00", "a\x00b", "\x01\x02\x1b[31m", "a\rb", "\x0b\x0c", " ", " ", "﻿", "\x7f", "\x85", "bot\x00 x", "bot \x00", "\x1f",
        "héllo wörld", "日本語", "\U0001F600", "‮abc", "á", "bot 日本", "user \U0001F600", "\ud800")
    add("long", "a" * LONG, "bot " + "a" * LONG, "bot a\n" * 3000, '"' * 10000, "{{ " * 5000, "(" * 5000, "[" * 20000, " " * LONG, "\n" * LONG,
        "bot a " * 2000, "a b " * 10000, "$a" * 10000, "user " * 2000, '"' + "a" * LONG, "x\n" * 20000, '  bot say "x"\n' * 2000, "-" * LONG)
    add("value", "1e999999", "9" * 10000, "__import__('os').system('x')", "open('/etc/passwd').read()", "lambda: 1", "None", "True", "[1,2", "{'a': 1}",
        "{1,2}", "b'x'", "1;", ";", "'a' 'b'", "f'{secret}'", "'" * 3 + "multi\nline" + "'" * 3, "'unterminated", "secret", "$secret;", "1 +", "-", "- 1",
        "1 + 2j", "(1,)", "()", "Ellipsis", "'{$x}'", "'$secret'", '"{{ 7*191 }}"', "'Result {{ 7*191 }} and $secret and {$x}.'", "[$secret]",
        "{'k': '{$x}'}", "1\n2", "'a'\n'b'", "  'a'  ", "'a' # c", "'\\x00'", "'\\ud800'", "0x10", "1_000", "float('nan')", "'a' * 3", "not True", "x = 1",
        "$v = 'a'", "= 'a'")
    return c


_MUT_FRAGS = ['"', "\n", "\nuser ", "\nbot ", "$secret", "{{ 7*191 }}", "{$x}", "\x00", "  ", "\t", "#", ":", "'", "\\n", "...", " and ", " or ", "(", ")",
              '\nuser "x"', "define flow y\n", "flow z\n", "User: ", ",", "é"]


def mutate_text(rng, s):
    k = rng.randrange(9)
    i = rng.randrange(len(s) + 1)
    if k == 0 and s:
        j = rng.randrange(len(s))
        return s[:j] + s[j + 1:]
    if k == 1 and s:
        j = rng.randrange(len(s))
        return s[:j] + s[j] * 2 + s[j:]
    if k == 2:
        return s[:i]
    if k == 3:
        return s[i:]
    if k == 4:
        return s.swapcase()
    if k == 5:
        return s.replace('"', "'") if '"' in s else s.replace(" ", "  ")
    if k == 6:
        return "\n".join("  " + ln for ln in s.split("\n"))
    if k == 7:
        return "\n".join(ln.lstrip() for ln in s.split("\n"))
    return s[:i] + rng.choice(_MUT_FRAGS) + s[i:]


MUT_BASES = [
    ("single_call", '  express greeting\nbot express greeting\n  "Hey there!"'),
    ("next_steps", "bot acknowledge the date\nbot confirm appointment"),
    ("next_steps", "bot ask name\nuser inform name\n$name = ...\nbot express greeting"),
    ("v2_flow_continuation", 'bot intent: bot provide help\nbot action: bot say "Sure {$x}"'),
    ("bot_message", '  "Result {{ 7*191 }} and $secret and {$x} and {{ secret }}."'),
    ("v2_value", "'Result {{ 7*191 }} and $secret and {$x}.'"),
]


def mutations(rng, n):
    """(tag, text): mutations of well-formed outputs of every call kind."""
    out = []
    bases = [(k, v) for k, v in sorted(GOOD.items())] + MUT_BASES
    for _ in range(n):
        kind, base = rng.choice(bases)
        t = base
        for _ in range(rng.choice([1, 1, 2, 3])):
            t = mutate_text(rng, t)
        out.append(("mut:" + kind, t))
    return out


# ---------------------------------------------------------------------------------------
# end-to-end driver (parent side): batches in child processes under `timeout`

CASE_TIMEOUT = 90


def _run_batch(idx, cases):
    """Run one batch in a child; a case that hangs/crashes the child is reported and skipped."""
    os.makedirs(WORK, exist_ok=True)
    results = [None] * len(cases)
    todo = list(range(len(cases)))
    attempt = 0
    while todo:
        attempt += 1
        inp = os.path.join(WORK, f"b{idx}_{attempt}.in.json")
        outp = os.path.join(WORK, f"b{idx}_{attempt}.out.json")
        for p in (outp, outp + ".progress"):
            if os.path.exists(p):
                os.remove(p)
        with open(inp, "w") as f:
            json.dump([cases[i] for i in todo], f)
        budget = 120 + CASE_TIMEOUT * 2 + 3 * len(todo)
        rc, log = C.sh(["timeout", "-k", "5", str(budget), C.PY, "-m", "harness.c17", "--e2e-worker", inp, outp],
                       cwd=C.VERIF, env=C.impl_env(), timeout=budget + 30)
        if os.path.exists(outp):
            rs = json.load(open(outp))
            for i, r in zip(todo, rs):
                results[i] = r
            return results
        cur = None
        try:
            cur = json.load(open(outp + ".progress"))
        except Exception:
            pass
        if cur is None or cur.get("current", -1) < 0:
            for i in todo:
                results[i] = {"replies": [], "calls": [], "fail": {"kind": "worker-died", "rc": rc, "log": log[-500:]}}
            return results
        k = cur["current"]
        for i, r in zip(todo[:k], cur.get("done", [])):
            results[i] = r
        results[todo[k]] = {"replies": [], "calls": [],
                            "fail": {"kind": "hang" if rc in (124, 137, 3) else "crash", "rc": rc, "log": log[-300:]}}
        todo = todo[k + 1:]
    return results


def run_e2e(cases, batch=24):
    """cases -> results (same order), in parallel child processes."""
    from concurrent.futures import ThreadPoolExecutor

    write_cfgs()
    nb = max(1, (len(cases) + batch - 1) // batch)
    groups = [list(range(len(cases)))[i::nb] for i in range(nb)]   # interleaved: slow cases spread out
    results = [None] * len(cases)

    def one(gi):
        return gi, _run_batch(gi, [cases[i] for i in groups[gi]])

    with ThreadPoolExecutor(max_workers=C.NPROC) as ex:
        for gi, rs in ex.map(one, range(nb)):
            for i, r in zip(groups[gi], rs):
                results[i] = r
    return results


if __name__ == "__main__":
    if len(sys.argv) >= 4 and sys.argv[1] == "--e2e-worker":
        # silence the library's prints
        devnull = open(os.devnull, "w")
        sys.stdout = devnull
        sys.stderr = devnull
        e2e_worker(sys.argv[2], sys.argv[3])
        os._exit(0)
