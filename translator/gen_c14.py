"""Translator (T-tie) for C14: small facts of colang/v1_0/runtime/flows.py read from the CURRENT
source with Python's `ast` and emitted as coq/theories/Gen/C14Consts.v.

Extracted (fail-closed: a shape that is not found raises TranslatorError):
  * FlowConfig.trigger_event_types default list                     -> default_trigger_types
  * the `priority_modifier=<float>` keyword of the _record_next_step call made for flows
    that are not triggered by the current event type                 -> nontrigger_modifier
  * in compute_next_state, in the loop `for flow_config in state.flow_configs.values():`
    that starts new flows, whether the body of
        if _is_match(flow_config.elements[start_head], event):
    contains, after `_slide_with_subflows(new_state, flow_state)`, a statement
        if flow_state.head < 0: ... flow_state.status = FlowStatus.COMPLETED ...
    (what the loop over the existing flows does)                     -> start_marks_completed
  * in _call_subflow, whether `_record_next_step(new_state, subflow_state, subflow_config)` is
    guarded by `if subflow_state.status == FlowStatus.ACTIVE:` (or absent - _slide_with_subflows
    already proposes the head of an active subflow)                   -> call_records_active_only
  * sliding.py::slide is ONE `while True:` loop without an iteration cap: its only `break` is the
    final `else: break` (non-sliding element), its only other exits are the three modelled
    `return`s, and it assigns no name beyond the modelled ones (a step counter would be a new
    name)                                                             -> slide_unbounded
V1/Interp.v takes these as definitions; Props/C14.v proves `start_marks_completed = true`
from the generated value, so the pinned snapshot (which lacks the statement) breaks a proof
obligation and the harness then exhibits the failing history.
"""
from __future__ import annotations

import ast
from fractions import Fraction

from translator import consts as TC
from translator.consts import TranslatorError

SRC = "nemoguardrails/colang/v1_0/runtime/flows.py"


def _d(src: str) -> str:
    return ast.dump(ast.parse(src, mode="eval").body)


def flows_consts():
    tree = TC._parse(SRC)
    out = {}

    # --- FlowConfig.trigger_event_types default
    cls = TC._cls(tree, "FlowConfig")
    trig = None
    for st in cls.body:
        if isinstance(st, ast.AnnAssign) and isinstance(st.target, ast.Name) and st.target.id == "trigger_event_types":
            v = st.value
            if not (isinstance(v, ast.Call) and getattr(v.func, "id", None) == "field" and len(v.keywords) == 1
                    and v.keywords[0].arg == "default_factory" and isinstance(v.keywords[0].value, ast.Lambda)
                    and isinstance(v.keywords[0].value.body, ast.List)):
                raise TranslatorError("unexpected default of FlowConfig.trigger_event_types")
            items = v.keywords[0].value.body.elts
            if not all(isinstance(e, ast.Constant) and isinstance(e.value, str) for e in items):
                raise TranslatorError("non-literal entry in trigger_event_types")
            trig = [e.value for e in items]
    if trig is None:
        raise TranslatorError("FlowConfig.trigger_event_types not found")
    out["default_trigger_types"] = trig

    fn = TC._func(tree, "compute_next_state")

    # --- priority modifier of the non-triggered branch
    mods = []
    for node in ast.walk(fn):
        if isinstance(node, ast.Call) and getattr(node.func, "id", None) == "_record_next_step":
            for kw in node.keywords:
                if kw.arg == "priority_modifier":
                    if not (isinstance(kw.value, ast.Constant) and isinstance(kw.value.value, float)):
                        raise TranslatorError("priority_modifier is not a float literal")
                    mods.append(kw.value.value)
    if len(mods) != 1:
        raise TranslatorError(f"expected exactly one _record_next_step(..., priority_modifier=...) call, found {len(mods)}")
    out["nontrigger_modifier"] = Fraction(repr(mods[0]))
    rn = TC._func(tree, "_record_next_step")
    dflt = rn.args.defaults
    if not (len(dflt) == 1 and isinstance(dflt[0], ast.Constant) and dflt[0].value == 1.0):
        raise TranslatorError("_record_next_step: default priority_modifier is not 1.0")

    # --- the loop that starts new flows
    loops = [s for s in fn.body if isinstance(s, ast.For)
             and ast.dump(s.iter) == _d("state.flow_configs.values()")]
    if len(loops) != 1:
        raise TranslatorError("compute_next_state: loop over state.flow_configs.values() not found (or not unique)")
    loop = loops[0]
    starts = [s for s in loop.body if isinstance(s, ast.If)
              and ast.dump(s.test) == _d("_is_match(flow_config.elements[start_head], event)")]
    if len(starts) != 1 or starts[0].orelse:
        raise TranslatorError("compute_next_state: `if _is_match(flow_config.elements[start_head], event):` not found")
    body = starts[0].body
    slide_idx = [i for i, s in enumerate(body) if isinstance(s, ast.Expr)
                 and ast.dump(s.value) == _d("_slide_with_subflows(new_state, flow_state)")]
    if len(slide_idx) != 1:
        raise TranslatorError("compute_next_state: `_slide_with_subflows(new_state, flow_state)` not found in the start branch")
    after = body[slide_idx[0] + 1:]
    marks = False
    for s in after:
        if isinstance(s, ast.If) and ast.dump(s.test) == _d("flow_state.head < 0"):
            for t in s.body:
                if (isinstance(t, ast.Assign) and len(t.targets) == 1
                        and isinstance(t.targets[0], ast.Attribute) and t.targets[0].attr == "status"
                        and isinstance(t.targets[0].value, ast.Name) and t.targets[0].value.id == "flow_state"
                        and ast.dump(t.value) == _d("FlowStatus.COMPLETED")):
                    marks = True
        elif isinstance(s, (ast.Expr, ast.Assign, ast.AugAssign, ast.If)):
            # any other statement in the start branch is outside what the model covers
            raise TranslatorError("compute_next_state: unexpected statement after _slide_with_subflows in the start branch: "
                                  + ast.unparse(s)[:80])
    out["start_marks_completed"] = marks

    # --- _call_subflow: is the subflow's head proposed as next step only while it is ACTIVE?
    cf = TC._func(tree, "_call_subflow")
    rec = _d("_record_next_step(new_state, subflow_state, subflow_config)")
    guard = _d("subflow_state.status == FlowStatus.ACTIVE")
    top = [s for s in cf.body if isinstance(s, ast.Expr) and ast.dump(s.value) == rec]
    guarded = [s for s in cf.body if isinstance(s, ast.If) and ast.dump(s.test) == guard and not s.orelse
               and len(s.body) == 1 and isinstance(s.body[0], ast.Expr) and ast.dump(s.body[0].value) == rec]
    n_calls = sum(1 for n in ast.walk(cf) if isinstance(n, ast.Call) and getattr(n.func, "id", None) == "_record_next_step")
    if n_calls == 1 and len(top) == 1:
        out["call_records_active_only"] = False
    elif n_calls == 1 and len(guarded) == 1:
        out["call_records_active_only"] = True
    elif n_calls == 0:
        out["call_records_active_only"] = True     # _slide_with_subflows already proposes an active subflow's head
    else:
        raise TranslatorError("_call_subflow: unexpected use of _record_next_step")
    out["slide_unbounded"] = slide_unbounded()
    return out


SLIDE_SRC = "nemoguardrails/colang/v1_0/runtime/sliding.py"
_SLIDE_NAMES = {"context", "active_label", "active_label_data", "prev_head", "head", "pattern_item",
                "p_type", "expr", "check", "value", "key_name"}


def slide_unbounded() -> bool:
    """True iff sliding.py::slide is the loop the model transcribes, with NO iteration cap:
    one `while True:` whose only `break` is the final `else: break` of the element-type chain
    (a non-sliding element), whose only other exits are the three modelled `return`s, and which
    assigns no name beyond the modelled ones (a step counter would be a new name)."""
    tree = TC._parse(SLIDE_SRC)
    fn = TC._func(tree, "slide")
    loops = [n for n in ast.walk(fn) if isinstance(n, (ast.While, ast.For))]
    if len(loops) != 1 or not isinstance(loops[0], ast.While):
        return False
    loop = loops[0]
    if not (isinstance(loop.test, ast.Constant) and loop.test.value is True) or loop.orelse:
        return False
    # names assigned anywhere in the function
    assigned = set()
    for n in ast.walk(fn):
        if isinstance(n, (ast.Assign, ast.AugAssign, ast.AnnAssign)):
            targets = n.targets if isinstance(n, ast.Assign) else [n.target]
            for t in targets:
                for m in ast.walk(t):
                    if isinstance(m, ast.Name):
                        assigned.add(m.id)
    if not assigned <= _SLIDE_NAMES:
        return False
    breaks = [n for n in ast.walk(loop) if isinstance(n, ast.Break)]
    raises = [n for n in ast.walk(fn) if isinstance(n, ast.Raise)]
    returns = [n for n in ast.walk(loop) if isinstance(n, ast.Return)]
    if len(breaks) != 1 or raises or len(returns) != 3:
        return False
    # the break is the last `else` of the if/elif chain that ends the loop body
    last = loop.body[-1]
    if not isinstance(last, ast.If):
        return False
    node = last
    while len(node.orelse) == 1 and isinstance(node.orelse[0], ast.If):
        node = node.orelse[0]
    if not (len(node.orelse) == 1 and isinstance(node.orelse[0], ast.Break)):
        return False
    # the first statement of the body is the end-of-flow test
    first = loop.body[0]
    if not (isinstance(first, ast.If) and ast.dump(first.test) == _d("head == len(flow_config.elements) or head < 0")
            and len(first.body) == 1 and isinstance(first.body[0], ast.Return)):
        return False
    return len(loop.body) == 7


def emit(c) -> str:
    q = c["nontrigger_modifier"]
    lines = [
        "(* colang/v1_0/runtime/flows.py *)",
        "Definition default_trigger_types : list string := ["
        + "; ".join(TC.coq_str(s) for s in c["default_trigger_types"]) + "].",
        f"Definition nontrigger_modifier : Q := ({q.numerator} # {q.denominator})%Q.",
        f"Definition start_marks_completed : bool := {'true' if c['start_marks_completed'] else 'false'}.",
        f"Definition call_records_active_only : bool := {'true' if c['call_records_active_only'] else 'false'}.",
        "(* colang/v1_0/runtime/sliding.py: slide() is an unbounded `while True` loop *)",
        f"Definition slide_unbounded : bool := {'true' if c['slide_unbounded'] else 'false'}.",
    ]
    return "\n".join(lines)


def _gen():
    return TC.HEADER + "\n" + emit(flows_consts()) + "\n"


GENERATORS = {"C14Consts": _gen}
