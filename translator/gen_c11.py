"""Translator (T-tie) for C11: structural facts of serialization.py and of
statemachine.py::_clean_up_state read from the CURRENT source, emitted as
coq/theories/Gen/C11Consts.v.

From serialization.py (Python `ast`, fail-closed):
  * the isinstance-chain of encode_to_dict, in source order            -> enc_branch_order
  * whether the encoder has a re.Pattern branch and the decoder a "re.Pattern" branch
                                                                        -> fx_regex_src
  * whether dicts with non-str keys are written as "items" pairs (encoder) and read back
    (`"items" in d`, decoder)                                           -> fx_keys_src
  * whether the Action branch encodes the values of to_dict() recursively (a comprehension that
    calls encode_to_dict) instead of handing obj.to_dict() raw to json.dumps -> fx_action_src
  * `refs[obj_id] = value` is the last assignment of the custom branch (registration AFTER the
    children)                                                           -> enc_registers_after_children
  * the d_type chain of decode_from_dict, in source order              -> dec_branch_order
  * the attributes json_to_state assigns on every head (callbacks)     -> redo_callback_attrs
    and the partial's function and bound arguments                      -> redo_callback_target
From the imported module (child process, PYTHONPATH = the repository under check):
  * name_to_class: dataclasses with their field names                  -> class_table
    enums with their member names                                       -> enum_table
    SpecType values                                                     -> spectype_values
  * every dataclass field with init=False starts with "_" (the decoder passes the others to the
    constructor)                                                        -> ctor_accepts_fields
  * Action.to_dict keys / Action.from_dict keys                         -> action_fields_src
  * Action.to_dict() hands out the live context / start_event_arguments (flows.py, ast)
                                                                        -> action_to_dict_live
From statemachine.py::_clean_up_state:
  * the removal condition `_is_done_flow(fs) and (datetime.now() - fs.status_updated) >
    timedelta(seconds=N) and fs.activated == 0`                         -> cleanup_age_s,
    cleanup_cmp_gt, cleanup_needs_done, cleanup_needs_not_activated
  * the statuses of `_is_done_flow`                                     -> done_statuses
"""
from __future__ import annotations

import ast
import json
import os
import subprocess

from translator import consts as TC
from translator.consts import TranslatorError, coq_bool, coq_str, coq_str_list

SER = "nemoguardrails/colang/v2_x/runtime/serialization.py"
SM = "nemoguardrails/colang/v2_x/runtime/statemachine.py"


def _isinstance_name(test):
    """`isinstance(obj, X)` / `is_dataclass(obj)` / `obj is None` -> a short name."""
    if isinstance(test, ast.Call) and isinstance(test.func, ast.Name):
        if test.func.id == "isinstance" and len(test.args) == 2:
            return ast.unparse(test.args[1])
        if test.func.id == "is_dataclass":
            return "dataclass"
    if isinstance(test, ast.Compare) and isinstance(test.ops[0], ast.Is):
        return "None"
    if isinstance(test, ast.Compare) and isinstance(test.ops[0], ast.In):
        return "in:" + ast.unparse(test.comparators[0])
    raise TranslatorError("unexpected test in encode_to_dict: " + ast.unparse(test))


def _chain(node):
    """Flatten an if/elif chain: [(test, body)], else-body."""
    out = []
    while True:
        out.append((node.test, node.body))
        if len(node.orelse) == 1 and isinstance(node.orelse[0], ast.If):
            node = node.orelse[0]
        else:
            return out, node.orelse


def serialization_consts():
    tree = TC._parse(SER)
    enc = TC._func(tree, "encode_to_dict")
    dec = TC._func(tree, "decode_from_dict")
    j2s = TC._func(tree, "json_to_state")
    out = {}

    # ---- encoder
    ifs = [s for s in enc.body if isinstance(s, ast.If)]
    if len(ifs) != 2:
        raise TranslatorError("encode_to_dict: expected the refs test and one if/elif chain")
    order = [_isinstance_name(ifs[0].test)]
    if not (order[0] == "in:refs" and isinstance(ifs[0].body[-1], ast.Return)):
        raise TranslatorError("encode_to_dict: first statement is not the `obj_id in refs` shortcut")
    outer, outer_else = _chain(ifs[1])
    for test, body in outer:
        if isinstance(test, ast.BoolOp) and isinstance(test.op, ast.Or):
            order += [_isinstance_name(t) for t in test.values]
        else:
            order.append(_isinstance_name(test))
        if not isinstance(body[-1], ast.Return):
            raise TranslatorError("encode_to_dict: a primitive branch does not return")
    inner_if = [s for s in outer_else if isinstance(s, ast.If)]
    if len(inner_if) != 1:
        raise TranslatorError("encode_to_dict: expected one custom-encoding chain in the else branch")
    inner, inner_else = _chain(inner_if[0])
    action_recursive = None
    regex_enc = False
    keys_enc = False
    for test, body in inner:
        name = _isinstance_name(test)
        order.append(name)
        src = ast.unparse(ast.Module(body=body, type_ignores=[]))
        if name == "Action":
            calls = [n for b in body for n in ast.walk(b) if isinstance(n, ast.Call) and isinstance(n.func, ast.Name) and n.func.id == "encode_to_dict"]
            action_recursive = bool(calls)
        if name == "re.Pattern":
            regex_enc = "'re.Pattern'" in src and "obj.pattern" in src and "obj.flags" in src
            if not regex_enc:
                raise TranslatorError("encode_to_dict: re.Pattern branch of unexpected shape")
        if name == "dict":
            keys_enc = "'items'" in src
    if not (inner_else and isinstance(inner_else[-1], ast.Raise)):
        raise TranslatorError("encode_to_dict: the custom chain does not end with `raise`")
    if action_recursive is None:
        raise TranslatorError("encode_to_dict: no Action branch")
    tail = [s for s in outer_else if not isinstance(s, ast.If)]
    reg_after = (len(tail) == 2 and ast.unparse(tail[0]) == "refs[obj_id] = value" and isinstance(tail[1], ast.Return))
    out["enc_branch_order"] = order
    out["enc_registers_after_children"] = reg_after

    # ---- decoder
    dtypes = []
    regex_dec = False
    keys_dec = False
    for n in ast.walk(dec):
        if isinstance(n, ast.If):
            t = n.test
            if (isinstance(t, ast.Compare) and isinstance(t.left, ast.Name) and t.left.id == "d_type"
                    and len(t.ops) == 1):
                if isinstance(t.ops[0], ast.Eq) and isinstance(t.comparators[0], ast.Constant):
                    dtypes.append((n.lineno, t.comparators[0].value))
                    if t.comparators[0].value == "re.Pattern":
                        regex_dec = "re.compile" in ast.unparse(ast.Module(body=n.body, type_ignores=[]))
                    if t.comparators[0].value == "dict":
                        keys_dec = "'items' in d" in ast.unparse(ast.Module(body=n.body, type_ignores=[]))
                elif isinstance(t.ops[0], ast.In):
                    dtypes.append((n.lineno, "in:" + ast.unparse(t.comparators[0])))
    dtypes = [d for _ln, d in sorted(set(dtypes))]
    out["dec_branch_order"] = dtypes
    if regex_enc != regex_dec:
        raise TranslatorError("re.Pattern handled on one side only (encoder=%s decoder=%s)" % (regex_enc, regex_dec))
    if keys_enc != keys_dec:
        raise TranslatorError("non-str dict keys handled on one side only (encoder=%s decoder=%s)" % (keys_enc, keys_dec))
    out["fx_regex"] = regex_enc
    out["fx_keys"] = keys_enc
    out["fx_action"] = action_recursive
    src_dec = ast.unparse(dec)
    out["dec_registers_after_children"] = "if '__id' in d:\n                refs[d['__id']] = value" in src_dec

    # ---- json_to_state
    attrs = []
    targets = set()
    for n in ast.walk(j2s):
        if isinstance(n, ast.Assign) and len(n.targets) == 1 and isinstance(n.targets[0], ast.Attribute):
            tg = n.targets[0]
            if isinstance(tg.value, ast.Name) and tg.value.id == "head":
                attrs.append(tg.attr)
                targets.add(ast.unparse(n.value))
    out["redo_callback_attrs"] = sorted(attrs)
    out["redo_callback_target"] = sorted(targets)
    loops = [ast.unparse(n.iter) for n in ast.walk(j2s) if isinstance(n, ast.For)]
    out["redo_loops"] = loops
    return out


_PROBE = r"""
import dataclasses, enum, json, sys, inspect, ast, textwrap
from nemoguardrails.colang.v2_x.runtime import serialization as S
from nemoguardrails.colang.v2_x.runtime.flows import Action
from nemoguardrails.colang.v2_x.lang.colang_ast import SpecType
classes, enums, bad = {}, {}, []
for n, c in sorted(S.name_to_class.items()):
    if dataclasses.is_dataclass(c):
        classes[n] = [f.name for f in dataclasses.fields(c)]
        bad += [n + "." + f.name for f in dataclasses.fields(c) if not f.init and not f.name.startswith("_")]
    elif issubclass(c, enum.Enum):
        enums[n] = [m.name for m in c]
a = Action("N", {})
to_keys = list(a.to_dict().keys())
src = textwrap.dedent(inspect.getsource(Action.from_dict))
from_keys = sorted({n.slice.value for n in ast.walk(ast.parse(src)) if isinstance(n, ast.Subscript)
                    and isinstance(n.value, ast.Name) and n.value.id == "d" and isinstance(n.slice, ast.Constant)})
print(json.dumps({"classes": classes, "enums": enums, "bad_init": bad, "spectype": [m.value for m in SpecType],
                  "action_to": to_keys, "action_from": from_keys,
                  "action_is_dataclass": dataclasses.is_dataclass(Action)}))
"""


FLOWS = "nemoguardrails/colang/v2_x/runtime/flows.py"


def action_to_dict_live():
    """Action.to_dict() returns one dict literal whose "context" / "start_event_arguments" values
    are the LIVE attributes self.context / self.start_event_arguments (no copy, no call): the refs
    table of encode_to_dict is keyed by id() and must only see objects that outlive the encoding."""
    tree = TC._parse(FLOWS)
    cls = TC._cls(tree, "Action")
    fn = None
    for n in cls.body:
        if isinstance(n, ast.FunctionDef) and n.name == "to_dict":
            fn = n
    if fn is None:
        raise TranslatorError("Action.to_dict not found")
    rets = [n for n in ast.walk(fn) if isinstance(n, ast.Return)]
    if len(rets) != 1 or not isinstance(rets[0].value, ast.Dict):
        return False
    d = rets[0].value
    vals = {k.value: ast.unparse(v) for k, v in zip(d.keys, d.values) if isinstance(k, ast.Constant)}
    return vals.get("context") == "self.context" and vals.get("start_event_arguments") == "self.start_event_arguments"


def class_table():
    env = dict(os.environ)
    env["PYTHONPATH"] = TC.REPO
    env["PYTHONHASHSEED"] = "0"
    p = subprocess.run(["/venv/bin/python", "-c", _PROBE], env=env, capture_output=True, text=True, timeout=180)
    if p.returncode != 0:
        raise TranslatorError("cannot import serialization.py: " + p.stderr[-800:])
    return json.loads(p.stdout.strip().splitlines()[-1])


def cleanup_consts():
    tree = TC._parse(SM)
    fn = TC._func(tree, "_clean_up_state")
    out = {}
    cond = None
    for n in ast.walk(fn):
        if isinstance(n, ast.If) and isinstance(n.test, ast.BoolOp) and "status_updated" in ast.unparse(n.test):
            cond = n
            break
    if cond is None or not isinstance(cond.test.op, ast.And):
        raise TranslatorError("_clean_up_state: removal condition not found")
    if ast.unparse(cond.body[0]) != "states_to_be_removed.append(flow_state.uid)":
        raise TranslatorError("_clean_up_state: unexpected body of the removal condition")
    needs_done = needs_na = needs_unneeded = False
    age = None
    cmp_gt = None
    for t in cond.test.values:
        s = ast.unparse(t)
        if s == "_is_done_flow(flow_state)":
            needs_done = True
        elif s == "flow_state.activated == 0":
            needs_na = True
        elif s == "flow_state.uid not in needed_parent_uids":
            needs_unneeded = True
        elif isinstance(t, ast.Compare) and len(t.ops) == 1:
            left, right = ast.unparse(t.left), t.comparators[0]
            if left != "datetime.now() - flow_state.status_updated":
                raise TranslatorError("_clean_up_state: unexpected age expression " + left)
            if not (isinstance(right, ast.Call) and ast.unparse(right.func) == "timedelta" and len(right.keywords) == 1
                    and right.keywords[0].arg == "seconds" and isinstance(right.keywords[0].value, ast.Constant)
                    and isinstance(right.keywords[0].value.value, int)):
                raise TranslatorError("_clean_up_state: unexpected age bound " + ast.unparse(right))
            age = right.keywords[0].value.value
            if isinstance(t.ops[0], ast.Gt):
                cmp_gt = True
            elif isinstance(t.ops[0], (ast.Lt, ast.LtE, ast.GtE)):
                cmp_gt = False
            else:
                raise TranslatorError("_clean_up_state: unexpected comparison")
        else:
            raise TranslatorError("_clean_up_state: unexpected conjunct " + s)
    if age is None:
        raise TranslatorError("_clean_up_state: no age test")
    # needed_parent_uids: the parent_uid of every flow state that is not done or is activated,
    # computed BEFORE the removal condition is evaluated
    if needs_unneeded:
        assigns = [n for n in ast.walk(fn) if isinstance(n, ast.Assign) and ast.unparse(n.targets[0]) == "needed_parent_uids"]
        want = ("{flow_state.parent_uid for flow_state in state.flow_states.values() "
                "if not _is_done_flow(flow_state) or flow_state.activated != 0}")
        if len(assigns) != 1 or ast.unparse(assigns[0].value) != want or assigns[0].lineno > cond.lineno:
            raise TranslatorError("_clean_up_state: needed_parent_uids of unexpected shape: "
                                  + (ast.unparse(assigns[0].value) if assigns else "missing"))
    out.update({"cleanup_age_s": age, "cleanup_cmp_gt": cmp_gt, "cleanup_needs_done": needs_done,
                "cleanup_needs_not_activated": needs_na, "cleanup_needs_unneeded": needs_unneeded})
    # step 3b: removed uids are dropped from every remaining child list and from open scopes
    src_fn = ast.unparse(fn)
    out["cleanup_purges_children"] = ("flow_state.child_flow_uids[:] = [uid for uid in flow_state.child_flow_uids if uid not in removed_uids]" in src_fn)
    out["cleanup_purges_scopes"] = ("scope_flow_uids[:] = [uid for uid in scope_flow_uids if uid not in removed_uids]" in src_fn
                                    and "for scope_flow_uids, _ in flow_state.scopes.values()" in src_fn)
    # the action table is rebuilt from the action_uids of the remaining flow states
    out["cleanup_actions_by_reference"] = ("for action_uid in flow_state.action_uids" in src_fn
                                           and "new_action_dict.update({action_uid: state.actions[action_uid]})" in src_fn
                                           and "state.actions = new_action_dict" in src_fn)
    done = TC._func(tree, "_is_done_flow")
    sts = sorted({n.attr for n in ast.walk(done) if isinstance(n, ast.Attribute) and isinstance(n.value, ast.Name)
                  and n.value.id == "FlowStatus"})
    out["done_statuses"] = sts
    # clean-up is the first thing run_to_completion does after resetting the queues
    rtc = TC._func(tree, "run_to_completion")
    calls = [n.lineno for n in ast.walk(rtc) if isinstance(n, ast.Call) and isinstance(n.func, ast.Name) and n.func.id == "_clean_up_state"]
    loops = [n.lineno for n in ast.walk(rtc) if isinstance(n, ast.While)]
    out["cleanup_before_loop"] = len(calls) == 1 and bool(loops) and calls[0] < min(loops)
    return out


def emit():
    s = serialization_consts()
    c = class_table()
    k = cleanup_consts()
    L = [TC.HEADER, "Open Scope Z_scope.", ""]
    L.append("(* serialization.py *)")
    L.append(f"Definition enc_branch_order : list string := {coq_str_list(s['enc_branch_order'])}.")
    L.append(f"Definition dec_branch_order : list string := {coq_str_list(s['dec_branch_order'])}.")
    L.append(f"Definition enc_registers_after_children : bool := {coq_bool(s['enc_registers_after_children'])}.")
    L.append(f"Definition dec_registers_after_children : bool := {coq_bool(s['dec_registers_after_children'])}.")
    L.append(f"Definition fx_regex_src : bool := {coq_bool(s['fx_regex'])}.")
    L.append(f"Definition fx_keys_src : bool := {coq_bool(s['fx_keys'])}.")
    L.append(f"Definition fx_action_src : bool := {coq_bool(s['fx_action'])}.")
    L.append(f"Definition redo_callback_attrs : list string := {coq_str_list(s['redo_callback_attrs'])}.")
    L.append(f"Definition redo_callback_target : list string := {coq_str_list(s['redo_callback_target'])}.")
    L.append(f"Definition redo_loops : list string := {coq_str_list(s['redo_loops'])}.")
    L.append("")
    L.append("(* name_to_class of the imported module *)")
    rows = "; ".join(f"({coq_str(n)}, {coq_str_list(fs)})" for n, fs in sorted(c["classes"].items()))
    L.append(f"Definition class_table : list (string * list string) := [{rows}].")
    rows = "; ".join(f"({coq_str(n)}, {coq_str_list(ms)})" for n, ms in sorted(c["enums"].items()))
    L.append(f"Definition enum_table : list (string * list string) := [{rows}].")
    L.append(f"Definition spectype_values : list string := {coq_str_list(c['spectype'])}.")
    L.append(f"Definition ctor_rejected_fields : list string := {coq_str_list(c['bad_init'])}.")
    L.append(f"Definition action_to_dict_keys : list string := {coq_str_list(c['action_to'])}.")
    L.append(f"Definition action_from_dict_keys : list string := {coq_str_list(c['action_from'])}.")
    L.append(f"Definition action_is_dataclass : bool := {coq_bool(c['action_is_dataclass'])}.")
    L.append(f"Definition action_to_dict_live : bool := {coq_bool(action_to_dict_live())}.")
    L.append("")
    L.append("(* statemachine.py::_clean_up_state *)")
    L.append(f"Definition cleanup_age_s : Z := {k['cleanup_age_s']}.")
    L.append(f"Definition cleanup_cmp_gt : bool := {coq_bool(k['cleanup_cmp_gt'])}.")
    L.append(f"Definition cleanup_needs_done : bool := {coq_bool(k['cleanup_needs_done'])}.")
    L.append(f"Definition cleanup_needs_not_activated : bool := {coq_bool(k['cleanup_needs_not_activated'])}.")
    L.append(f"Definition done_statuses : list string := {coq_str_list(k['done_statuses'])}.")
    L.append(f"Definition cleanup_before_loop : bool := {coq_bool(k['cleanup_before_loop'])}.")
    L.append(f"Definition cleanup_needs_unneeded : bool := {coq_bool(k['cleanup_needs_unneeded'])}.")
    L.append(f"Definition cleanup_purges_children : bool := {coq_bool(k['cleanup_purges_children'])}.")
    L.append(f"Definition cleanup_purges_scopes : bool := {coq_bool(k['cleanup_purges_scopes'])}.")
    L.append(f"Definition cleanup_actions_by_reference : bool := {coq_bool(k['cleanup_actions_by_reference'])}.")
    return "\n".join(L) + "\n"


GENERATORS = {"C11Consts": emit}
