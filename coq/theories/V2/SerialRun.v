(* C11 - executable instance of V2/Serial.v for the correspondence (X1):
   the flags and the class table are the ones read from the CURRENT source (Gen/C11Consts.v). *)
From Coq Require Import ZArith List String Bool Ascii.
From NG Require Import Gen.C11Consts V2.Serial.
Import ListNotations.
Open Scope string_scope.
Open Scope Z_scope.

Definition flags_now : flags :=
  {| fx_regex := fx_regex_src; fx_keys := fx_keys_src; fx_action := fx_action_src |}.
Definition flags_fixed : flags := {| fx_regex := true; fx_keys := true; fx_action := true |}.
Definition flags_orig : flags := {| fx_regex := false; fx_keys := false; fx_action := false |}.

Fixpoint slookup {A} (l : list (string * A)) (k : string) : option A :=
  match l with [] => None | (k', x) :: r => if String.eqb k' k then Some x else slookup r k end.

Definition mem_str (s : string) (l : list string) : bool := existsb (String.eqb s) l.

Definition classes_of (ct et : list (string * list string)) (sv : list string) : classes :=
  {| class_fields := slookup ct;
     enum_member := fun c m => match slookup et c with Some ms => mem_str m ms | None => false end;
     spectype_value := fun v => mem_str v sv |}.

Definition classes_now : classes := classes_of class_table enum_table spectype_values.

(* ---- boolean equalities *)
Definition prim_eqb (a b : prim) : bool :=
  match a, b with
  | PNone, PNone => true | PBool x, PBool y => Bool.eqb x y | PInt x, PInt y => x =? y
  | PFloat x, PFloat y => x =? y | PStr x, PStr y => String.eqb x y | _, _ => false
  end.

Definition key_eqb (a b : key) : bool :=
  match a, b with
  | KS x, KS y => String.eqb x y | KI x, KI y => x =? y | KB x, KB y => Bool.eqb x y | KN, KN => true
  | KF x, KF y => x =? y | KObj, KObj => true | _, _ => false
  end.

Fixpoint list_eqb {A} (e : A -> A -> bool) (a b : list A) : bool :=
  match a, b with [], [] => true | x :: a', y :: b' => e x y && list_eqb e a' b' | _, _ => false end.

Definition head_eqb (a b : head) : bool :=
  match a, b with
  | HList, HList | HTuple, HTuple | HSet, HSet | HDeque, HDeque => true
  | HDict x, HDict y => list_eqb key_eqb x y
  | HData c f, HData c' f' => String.eqb c c' && list_eqb String.eqb f f'
  | HAction f, HAction f' => list_eqb String.eqb f f'
  | HEnum c m, HEnum c' m' => String.eqb c c' && String.eqb m m'
  | HSpecType v, HSpecType v' => String.eqb v v'
  | HDatetime v, HDatetime v' => String.eqb v v'
  | HRailsConfig t, HRailsConfig t' => t =? t'
  | HPartial f, HPartial f' => String.eqb f f'
  | HRegex p f, HRegex p' f' => String.eqb p p' && (f =? f')
  | HOther t, HOther t' => String.eqb t t'
  | _, _ => false
  end.

Fixpoint json_eqb (a b : json) {struct a} : bool :=
  match a, b with
  | JNull, JNull => true
  | JBool x, JBool y => Bool.eqb x y
  | JInt x, JInt y => x =? y
  | JFloat x, JFloat y => x =? y
  | JStr x, JStr y => String.eqb x y
  | JArr x, JArr y =>
    (fix go (x y : list json) : bool :=
       match x, y with [], [] => true | p :: x', q :: y' => json_eqb p q && go x' y' | _, _ => false end) x y
  | JObj x, JObj y =>
    (fix go (x : list (string * json)) (y : list (string * json)) : bool :=
       match x, y with
       | [], [] => true
       | (k, p) :: x', (k', q) :: y' => String.eqb k k' && json_eqb p q && go x' y'
       | _, _ => false
       end) x y
  | _, _ => false
  end.

Fixpoint ctree_eqb (a b : ctree) {struct a} : bool :=
  match a, b with
  | CP p, CP q => prim_eqb p q
  | CBack n, CBack m => n =? m
  | CDangling, CDangling => true
  | CNew n h l, CNew m h' l' =>
    (n =? m) && head_eqb h h' &&
    (fix go (x y : list ctree) : bool :=
       match x, y with [], [] => true | p :: x', q :: y' => ctree_eqb p q && go x' y' | _, _ => false end) l l'
  | _, _ => false
  end.

Definition opt_eqb {A} (e : A -> A -> bool) (a b : option A) : bool :=
  match a, b with None, None => true | Some x, Some y => e x y | _, _ => false end.

(* ---- the correspondence check.
   A case = (heap, root, mode, real JSON with ids renumbered (None = the real encoder raised),
             canonical form of the real decoded graph (None = the real decoder raised)).
   mode 0: encode_to_dict / decode_from_dict ; mode 1: state_to_json / json_to_state. *)
Definition LIMIT : nat := 150.
Definition CFUEL : nat := 400.

Definition model_decode (mode : Z) (j : json) : option (heap * val) :=
  if mode =? 0 then decode flags_now classes_now LIMIT j else json_to_state flags_now classes_now LIMIT j.

Definition case := (heap * val * Z * option json * option ctree)%type.

Definition check_enc (c : case) : bool :=
  let '(h, r, mode, cj, cd) := c in opt_eqb json_eqb (encode flags_now LIMIT h r) cj.

Definition check_dec (c : case) : bool :=
  let '(h, r, mode, cj, cd) := c in
  match cj with
  | None => true
  | Some j => opt_eqb ctree_eqb (canon_of CFUEL (model_decode mode j)) cd
  end.

(* model round trip on its own output (independent of the real JSON) *)
Definition check_rt (c : case) : bool :=
  let '(h, r, mode, cj, cd) := c in
  match encode flags_now LIMIT h r with
  | None => match cj with None => true | Some _ => false end
  | Some j => opt_eqb ctree_eqb (canon_of CFUEL (model_decode mode j)) cd
  end.

Definition check_case (c : case) : bool := check_enc c && check_dec c && check_rt c.

(* the decidable hypothesis of C11_state_roundtrip on a real state, before and after the model's
   own save/restore *)
Definition check_hyps (c : case) : bool :=
  let '(h, r, mode, cj, cd) := c in
  match r with
  | VO s =>
    state_hyps h s &&
    match encode flags_now LIMIT h r with
    | Some j => match json_to_state flags_now classes_now LIMIT j with
                | Some (h2, VO s') => state_hyps h2 s'
                | _ => false
                end
    | None => false
    end
  | _ => false
  end.

(* what the model answers, for replay files *)
Definition show_case (c : case) :=
  let '(h, r, mode, cj, cd) := c in
  (encode flags_now LIMIT h r,
   match cj with Some j => canon_of CFUEL (model_decode mode j) | None => None end).

(* ---- sanity examples *)
Definition ex_heap : heap :=
  [ (0, mk (HData "Event" ["name"; "arguments"; "matching_scores"]) [VP (PStr "E"); VO 1; VO 2]);
    (1, mk (HDict [KS "a"; KS "b"]) [VO 3; VO 3]);
    (2, mk HList [VP (PFloat 7)]);
    (3, mk HSet [VP (PInt 1); VP (PStr "x")]) ].

Example ex_encode :
  encode flags_fixed 10 ex_heap (VO 0)
  = Some (JObj [("__type", JStr "Event");
                ("value", JObj [("name", JStr "E");
                                ("arguments", JObj [("__type", JStr "dict");
                                                    ("value", JObj [("a", JObj [("__type", JStr "set"); ("value", JArr [JInt 1; JStr "x"]);
                                                                                ("__ref_count", JInt 1); ("__id", JInt 3)]);
                                                                    ("b", JObj [("__type", JStr "ref"); ("__id", JInt 3)])])]);
                                ("matching_scores", JArr [JFloat 7])])]).
Proof. vm_compute. reflexivity. Qed.
